#!/bin/sh
# Build the fact extractor and warm the per-feature-set dependency caches (offline).
set -e
cd "$(dirname "$0")"
export CARGO_NET_OFFLINE=true
python3 - <<'PY'
import sys, os, concurrent.futures
sys.path.insert(0, os.path.join(os.getcwd(), "engine"))
from purlsa import extract
extract.build_driver()
with concurrent.futures.ThreadPoolExecutor(4) as ex:
    list(ex.map(lambda fs: extract.extract(fs), ["default", "pt", "none", "serde"]))
extract.cleanup_run_dir()
print("setup ok")
PY
