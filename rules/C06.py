"""C06 -- no input makes the library panic (DESIGN.md 5.6): audit of the crate's own panic sites, loops and recursion."""
from purlsa.core import AnchorError, callee_name, strip
from purlsa.sem import norm, nshow, atoms_at, fmt_pieces
from purlsa import models
from .common import fn_site

LEVEL = "other"
EXPLANATION = (
    "Static audit, complete over the crate's own code: every MIR Assert terminator (overflow, division/remainder by zero, bounds), every call of a "
    "documented-panicking std API (denylist), every natural loop and every call-graph cycle in all bodies of the library is enumerated; each must be one "
    "of the three documented panics or be discharged by a justification that the checker re-verifies from the extracted facts (J1 uncallable, J2 infallible "
    "fmt::Write into a string, J3 callee always returns Some, J4/J5/J6/J7 index provenance from the binary search or the matching insert, J8 non-zero constant "
    "divisor, J9/J10 additions of lengths/counts bounded by the size of live data, J12 a subtraction of a constant under a dominating guard that implies the bound). Other subtraction, negation and multiplication overflow checks have NO table "
    "justification: they need a dominating guard. Panics inside dependencies and std are covered only through the denylist of their documented-panicking APIs."
)
RULE_TEXT = "obligations = one per panic site (Assert / denylisted call), one per loop (finite iterator header), one per call-graph SCC; plus the documented-panic table"
ASSUMPTIONS = [
    "panics, overflow or non-termination INSIDE dependencies and std are not analysed (only calls of their documented-panicking APIs are tracked); an unlisted panicking API is not seen",
    "allocation failure, stack depth and capacity requests passed as caller-supplied usize (reserve, reserve_exact, with_capacity) are outside the property's string-argument quantifier: listed, not claimed",
    "J15: TABLE[b as usize] / TABLE[usize::from(b)] for b: u8 is justified only if the table has at least 256 entries; a `const fn` that no run-time body calls (it only initialises a const item) is evaluated by the compiler, where a panic is a compile error",
    "J14: ARRAY[e as usize] is justified only if e is an enum value with default discriminants and the array is at least as long as the enum has variants",
    "J18: n + 1 (or n + the length of the current item) of a local that is initialised with 0/1 and otherwise only assigned that sum, inside exactly one loop, cannot overflow: it counts the items / sums the sizes of in-memory data visited once each",
    "J17: x.unwrap() is justified only by a dominating is_some()/is_none()/match test of the same immutable value x",
    "J16: v[start..] on a String is justified only if start is v.len() evaluated earlier (dominating) in the same function and every operation on v in that function appends or rewrites in place (ASCII case change)",
    "J13: a string slice &s[..i] / &s[i+1..] is justified only if i is the Some-payload of s.find(c) / s.rfind(c) on the same s for a one-byte (ASCII) char constant c",
    "J12: x - c is justified only by a dominating branch condition on the same x that implies x >= c (x != 0, x > k, x >= k)",
    "J9: a sum of lengths of strings/collections that are simultaneously alive, plus their count, cannot exceed usize::MAX (each counted element occupies at least one byte of address space)",
]
TRUSTED_BASE = ["denylist of panicking std APIs (DESIGN.md 3.2)", "callee semantics table (DESIGN.md section 3)"]

PANIC_CALLS = (
    "std::rt::panic_fmt", "core::panicking::panic", "core::panicking::panic_fmt", "std::rt::begin_panic", "core::panicking::panic_explicit",
    "core::option::unwrap_failed", "core::option::expect_failed", "core::result::unwrap_failed", "core::str::slice_error_fail",
    "core::panicking::unreachable_display", "core::panicking::panic_display", "core::panicking::assert_failed",
)
PANIC_METHODS = {
    "unwrap", "expect", "unwrap_err", "expect_err", "insert", "remove", "swap_remove", "split_off", "drain", "swap", "split_at", "split_at_mut",
    "copy_from_slice", "clone_from_slice", "chunks", "chunks_exact", "windows", "rotate_left", "rotate_right", "from_digit", "step_by", "borrow", "borrow_mut",
    "with_capacity", "reserve", "reserve_exact", "insert_str", "replace_range", "index", "index_mut", "truncate_front", "split_first_chunk", "array_chunks",
    "unwrap_unchecked", "get_unchecked", "get_unchecked_mut", "from_utf8_unchecked", "as_chunks",
}
NONPANIC_OWNERS = ("std::collections::HashMap::<K, V, S, A>::insert", "std::collections::HashMap::<K, V, S, A>::remove", "std::collections::HashSet", "std::option::Option::<T>::insert")
STD_PREFIXES = ("std::", "core::", "alloc::", "<std::", "<core::", "<alloc::", "smartstring::", "<smartstring::")

FINITE_ITERATORS = (
    "<std::str::Split<'a, P> as std::iter::Iterator>::next", "<std::str::Chars<'a> as std::iter::Iterator>::next", "<std::slice::Iter<'a, T> as std::iter::Iterator>::next",
    "<std::slice::IterMut<'a, T> as std::iter::Iterator>::next", "<std::vec::IntoIter<T, A> as std::iter::Iterator>::next", "<std::collections::hash_map::Iter<'a, K, V> as std::iter::Iterator>::next",
    "<std::str::RSplit<'a, P> as std::iter::Iterator>::next", "<std::str::CharIndices<'a> as std::iter::Iterator>::next", "<std::str::Bytes<'_> as std::iter::Iterator>::next",
    "<std::collections::hash_map::IntoIter<K, V> as std::iter::Iterator>::next", "<std::collections::hash_map::IntoIter<K, V, A> as std::iter::Iterator>::next",
    "<std::collections::hash_map::Keys<'a, K, V> as std::iter::Iterator>::next", "<std::collections::hash_map::Values<'a, K, V> as std::iter::Iterator>::next",
    "<std::collections::hash_map::IterMut<'a, K, V> as std::iter::Iterator>::next", "<std::str::SplitN<'a, P> as std::iter::Iterator>::next", "<std::str::RSplitN<'a, P> as std::iter::Iterator>::next",
    "<std::vec::Drain<'_, T, A> as std::iter::Iterator>::next", "<std::ops::Range<A> as std::iter::Iterator>::next", "<std::str::Lines<'a> as std::iter::Iterator>::next",
    "<std::str::SplitWhitespace<'a> as std::iter::Iterator>::next", "<std::str::CharIndices<'a> as std::iter::Iterator>::next",
    # percent-encoding 2.3.0 src/lib.rs:265-288: every Some(..) of PercentEncode::next consumes at least one byte of the
    # borrowed slice, None when it is empty -- at most len() items
    "<percent_encoding::PercentEncode<'a> as std::iter::Iterator>::next",
)

ADAPTORS = ("std::iter::Enumerate", "std::iter::Rev", "std::iter::Peekable", "std::iter::Skip", "std::iter::Take", "std::iter::Map", "std::iter::Filter", "std::iter::Zip", "std::iter::Chain", "std::iter::Copied", "std::iter::Cloned", "std::iter::FilterMap", "std::iter::TakeWhile", "std::iter::SkipWhile", "std::iter::StepBy", "std::iter::Fuse", "std::iter::Inspect")
FINITE_BASES = ("std::str::Split<", "std::str::RSplit<", "std::str::Chars<", "std::str::CharIndices<", "std::str::Bytes<", "std::slice::Iter<", "std::slice::IterMut<", "std::vec::IntoIter<", "std::collections::hash_map::Iter<", "std::collections::hash_map::IntoIter<", "std::collections::hash_map::Keys<", "std::collections::hash_map::Values<", "std::str::SplitN<", "std::str::RSplitN<", "std::str::Lines<", "std::option::IntoIter<", "std::ops::Range<")


def _finite_by_type(npath):
    """`<X as Iterator>::next` for X an iterator over an in-memory std collection or a str/slice view: it yields each stored
    element once, so a loop over it terminates (the element count is bounded by memory).  Matched on the type name, so that
    every generic spelling the compiler prints (BTreeMap, VecDeque, BinaryHeap, sets, char/byte views ...) is covered."""
    if not (npath.startswith("<") and npath.endswith(" as std::iter::Iterator>::next")):
        return False
    return _finite_ty(npath[1:].split(" as ")[0])


def _finite_ty(ty):
    ty = ty.split("<")[0] + "<" + ty.split("<", 1)[1] if "<" in ty else ty
    head = ty.split("<")[0] + ("<" if "<" in ty else "")
    bases = ("std::collections::btree_map::", "std::collections::btree_set::", "std::collections::hash_map::", "std::collections::hash_set::",
             "std::collections::vec_deque::", "std::collections::binary_heap::", "std::collections::linked_list::", "std::slice::", "std::vec::IntoIter<", "std::vec::Drain<",
             "std::str::", "std::option::", "std::result::", "std::array::IntoIter<", "std::char::ToLowercase", "std::char::ToUppercase", "std::char::EscapeDefault", "std::string::Drain<")
    finite_names = ("Iter<", "IterMut<", "IntoIter<", "Keys<", "Values<", "ValuesMut<", "IntoKeys<", "IntoValues<", "Drain<", "Range<", "Chars<", "CharIndices<", "Bytes<", "Split<", "RSplit<", "SplitN<", "RSplitN<",
                    "SplitTerminator<", "RSplitTerminator<", "SplitInclusive<", "Lines<", "SplitWhitespace<", "SplitAsciiWhitespace<", "Matches<", "RMatches<", "MatchIndices<", "RMatchIndices<", "EncodeUtf16<", "Chunks<", "ChunksExact<", "Windows<",
                    "ToLowercase", "ToUppercase", "EscapeDefault", "Difference<", "Intersection<", "Union<", "SymmetricDifference<")
    return head.startswith(bases) and any(("::" + n) in head or head.endswith(n.rstrip("<")) for n in finite_names)


def local_finite_types(facts):
    """local iterator types whose `next` forwards to a finite std iterator (e.g. qualifiers::Iter -> slice::Iter)"""
    out = []
    for k, f in facts.fns.items():
        if f.get("impl_trait_def") == "std::iter::Iterator" and f.get("name") == "next" and k in facts.bodies:
            fb = facts.body(k)
            inner = [callee_name(t["callee"]) for _, t in fb.calls() if t["callee"].get("item") == "next"]
            if inner and all(i in FINITE_ITERATORS for i in inner) and not fb.back_edges():
                out.append(f.get("impl_self", "").split("<")[0] + "<")
    return tuple(out)


def finite_iterator(npath, term, extra_bases=()):
    """Is `<X as Iterator>::next` the next of a finite std iterator, possibly wrapped in length-preserving/shrinking adaptors?"""
    if npath in FINITE_ITERATORS or _finite_by_type(npath):
        return True
    m = npath
    if m.startswith("<") and " as std::iter::Iterator>::next" in m and any(m[1:].startswith(a) for a in ADAPTORS):
        # the instantiated iterator type is in the callee's generic args
        args = term["callee"].get("args", []) + (term["callee"].get("resolved") or {}).get("args", [])
        for a in args:
            inner = a
            for _ in range(6):
                hit = [ad for ad in ADAPTORS if inner.startswith(ad + "<")]
                if not hit:
                    break
                inner = inner[len(hit[0]) + 1:]
            if inner.startswith(FINITE_BASES) or _finite_ty(inner) or (extra_bases and inner.startswith(extra_bases)):
                return True   # for Zip/Chain: the first component bounds (Zip) or both must be finite; first is checked
    return False


R_DOCPANIC = {
    # (fn-name / trait, impl self) -> what the property documents
    ("index", "std::ops::Index", "qualifiers::Qualifiers"): "indexing a qualifier that is absent",
    ("index_mut", "std::ops::IndexMut", "qualifiers::Qualifiers"): "indexing a qualifier that is absent",
    ("insert_typed", None, "qualifiers::Qualifiers"): "inserting a typed qualifier whose declared key is invalid",
    ("try_insert_typed", None, "qualifiers::Qualifiers"): "inserting a typed qualifier whose declared key is invalid",
    ("fmt", "std::fmt::Display", "GenericPurl<T>"): "formatting a PURL whose user-supplied type reports an invalid type string",
}


def compile_time_only(facts):
    """`const fn`s that no run-time body calls (their only use is the initialiser of a const/static item): the compiler
    evaluates them, a panic or a non-terminating loop there is a compile error, not a run-time behaviour"""
    cands = set(k for k, f in facts.fns.items() if f.get("is_const") and not f.get("reachable") and k in facts.bodies)
    if not cands:
        return set()
    called = set()
    for k, b in facts.bodies.items():
        if b.kind not in ("fn", "closure"):
            continue
        root = b.j.get("root", k) if b.kind == "closure" else k
        if root in cands:
            continue  # calls from within the candidate itself (or its closures) do not make it run-time
        for bb, t in b.calls(include_cleanup=True):
            if "path" in t["callee"]:
                called.add(callee_name(t["callee"]))
                called.add(t["callee"]["path"])
        for bl in b.blocks:  # fn items used as values
            for st in bl["stmts"]:
                if st.get("s") == "assign":
                    txt = str(st["rv"])
                    for c in cands:
                        if c in txt:
                            called.add(c)
    return set(c for c in cands if c not in called)


def panic_sites(facts):
    sites = []
    cto = compile_time_only(facts)
    for k, b in facts.bodies.items():
        if (b.j.get("root", k) if b.kind == "closure" else k) in cto:
            continue
        for bb in range(b.n):
            if b.is_cleanup(bb):
                continue
            t = b.term(bb)
            if t["t"] == "assert":
                sites.append({"fn": k, "bb": bb, "kind": "assert", "what": t["kind"], "site": b.site(bb)})
            elif t["t"] == "call" and "path" in t["callee"]:
                p = callee_name(t["callee"])
                raw = t["callee"]["path"]
                if p in PANIC_CALLS or raw in PANIC_CALLS:
                    sites.append({"fn": k, "bb": bb, "kind": "panic-call", "what": p, "site": b.site(bb)})
                    continue
                if not (p.startswith(STD_PREFIXES) or raw.startswith(STD_PREFIXES)):
                    continue
                item = t["callee"].get("item") or p.split("::")[-1]
                if item in PANIC_METHODS and not any(p.startswith(o) for o in NONPANIC_OWNERS):
                    if item in ("insert", "remove") and ("HashMap" in p or "hash_map::" in p or "BTreeMap" in p or "btree_map::" in p or "btree::map::" in p or "HashSet" in p or "BTreeSet" in p):
                        continue  # keyed insertion / removal of the std maps and their entry objects takes no index: no panic
                    if item in ("borrow", "borrow_mut") and "RefCell" not in p:
                        continue
                    if item == "swap" and p in ("std::mem::swap", "core::mem::swap"):
                        continue  # mem::swap(&mut a, &mut b) cannot panic
                    sites.append({"fn": k, "bb": bb, "kind": "api", "what": p, "item": item, "site": b.site(bb)})
            elif t["t"] == "other" and "InlineAsm" in str(t.get("dbg")):
                sites.append({"fn": k, "bb": bb, "kind": "asm", "what": "inline asm", "site": b.site(bb)})
    return sites


def root_fn(facts, k):
    return facts.bodies[k].j.get("root", k) if facts.bodies[k].kind == "closure" else k


def docpanic_for(facts, k):
    f = facts.fns.get(root_fn(facts, k), {})
    for (nm, tr, st), why in R_DOCPANIC.items():
        if f.get("name") == nm and (tr is None and "impl_trait" not in f or tr is not None and f.get("impl_trait_def") == tr) and f.get("impl_self") == st:
            return why
    return None


def is_counter_term(t):
    """phi(c | (self + 1).0): a local that starts at a constant 0/1 and is only ever incremented by one"""
    if t[0] == "var" and len(t) > 2:
        t = t[2]
    if t[0] != "phi":
        return False
    consts = [x for x in t[1] if x[0] == "const" and isinstance(x[1], int) and not isinstance(x[1], bool) and 0 <= x[1] <= 1]
    def step_ok(op):
        # by one, or by the length(s) of the item of this iteration (each item is visited once: the sum stays below the
        # total size of the live data, J9)
        return op == ("const", 1) or (op[0] != "phi" and bounded_term(op, 1))
    incs = [x for x in t[1] if x[0] == "field" and x[2] == "0" and x[1][0] == "binop" and x[1][1] in ("AddWithOverflow", "Add") and step_ok(x[1][3]) and (x[1][2][0] == "cycle" or is_counter_term(x[1][2]) or x[1][2] == t)]
    return bool(consts) and bool(incs) and len(consts) + len(incs) == len(t[1])


def bounded_term(t, depth=0):
    """J9: is the normalised term a length / count / sum of such / small constant?"""
    if depth > 8:
        return False
    if is_counter_term(t):
        return True   # a counter of loop iterations (J18 justifies its own increments)
    if t[0] == "const":
        return isinstance(t[1], int) and 0 <= t[1] <= 1
    if t[0] in ("some", "ok") and t[1][0] == "call" and t[1][1] in (models.STR + "find", models.STR + "rfind"):
        return True  # a byte position inside a live string
    if t[0] == "phi":
        return all(bounded_term(x, depth + 1) for x in t[1])
    if t[0] == "call":
        nm = t[1].split("::")[-1]
        if nm in ("len", "count", "size_hint", "capacity"):
            return True
        if nm == "len_utf8" and "<impl char>" in t[1]:
            return True  # 1..=4
        if nm == "sum" and "Iterator" in t[1]:
            return True
        return False
    if t[0] == "field":  # (a AddWithOverflow b).0
        return bounded_term(t[1], depth + 1)
    if t[0] == "binop" and t[1] in ("Add", "AddWithOverflow"):
        return bounded_term(t[2], depth + 1) and bounded_term(t[3], depth + 1)
    if t[0] == "phi":
        return all(bounded_term(x, depth + 1) for x in t[1])
    return False


def from_search(facts, t, depth=0):
    """Is the index term the Ok/Some payload of the binary search / get_index (J4), or Err payload (J7)?"""
    if depth > 4:
        return None
    if t[0] == "phi":
        rs = [from_search(facts, x, depth + 1) for x in t[1]]
        return "phi:" + ",".join(str(r) for r in rs) if all(rs) else None
    if t[0] in ("ok", "err", "some") and t[1][0] == "call":
        nm = facts.fns.get(t[1][1], {}).get("name")
        if nm == "search" and t[0] in ("ok", "err"):
            return t[0] + "(search)"
        if nm == "get_index" and t[0] in ("some", "ok"):
            return "some(get_index)"  # ("ok": the Continue payload of `get_index(k)?`, i.e. the Some payload)
    return None


def adt_of_term(facts, b, t):
    """type name of the value a place term denotes, for the few shapes the index rules meet ('' if unknown)"""
    t = strip(t)

    def bare(ty):
        ty = ty.strip()
        while ty.startswith("&"):
            ty = ty[1:].lstrip()
            if ty.startswith("'"):
                ty = ty.split(" ", 1)[1] if " " in ty else ty
            if ty.startswith("mut "):
                ty = ty[4:]
        return ty
    if t[0] == "arg":
        return bare(b.locals[t[1]]["ty"])
    if t[0] == "vfield":
        base = adt_of_term(facts, b, t[1])
        adt = facts.adts.get(base.split("<")[0])
        if adt:
            for v in adt["variants"]:
                if v["name"] == t[2]:
                    for f in v["fields"]:
                        if f["name"] == t[3]:
                            return bare(f["ty"])
        return ""
    if t[0] == "field":
        base = adt_of_term(facts, b, t[1])
        adt = facts.adts.get(base.split("<")[0])
        if adt and len(adt["variants"]) == 1:
            for f in adt["variants"][0]["fields"]:
                if f["name"] == t[2]:
                    return bare(f["ty"])
        return ""
    return ""


def justify(facts, s):
    """Return (justification-id or None, detail)."""
    k, bb = s["fn"], s["bb"]
    b = facts.body(k)
    t = b.term(bb)
    # J1: uncallable
    for i in range(1, b.arg_count + 1):
        if b.locals[i]["ty"] in ("std::convert::Infallible", "!"):
            return "J1", "parameter %d has the uninhabited type %s: the function cannot be called" % (i, b.locals[i]["ty"])
    if s["kind"] == "assert":
        what = s["what"]
        ops = [norm(b.resolve_operand(o)) for o in t["ops"]]
        if what in ("RemainderByZero", "DivisionByZero"):
            c = norm(b.resolve_operand(t["cond"]))
            # cond = (divisor == 0), expected false
            if c[0] == "binop" and c[1] == "Eq" and c[2][0] == "const" and isinstance(c[2][1], int) and c[2][1] != 0 and c[3] == ("const", 0):
                return "J8", "divisor is the non-zero constant %d" % c[2][1]
            if c[0] == "const":
                return "J8", "divisor check is a constant"
            return None, "divisor is not a non-zero constant: %s" % nshow(c)[:80]
        if what.startswith("Overflow(Add"):
            # J18: `n += 1` of a loop counter: n starts at a small constant and is only ever set to n + 1, at most once per
            # iteration of the single loop the addition sits in -- it cannot exceed the number of items that loop visits
            if len(ops) == 2 and (ops[1] == ("const", 1) or (ops[1][0] != "phi" and bounded_term(ops[1]))):
                depth = sum(1 for h_, blk_ in b.loops().items() if bb in blk_)
                if depth == 1 and is_counter_term(ops[0]):
                    return "J18", "increment of a loop counter inside one loop over a finite iterator (LOOP obligations): %s" % nshow(ops[0])[:60]
            if all(bounded_term(o) for o in ops):
                return "J9", "operands are lengths/counts/sums of live data or constants <= 1: %s" % " + ".join(nshow(o)[:50] for o in ops)
            return None, "addition operands are not bounded by a length/count: %s" % " + ".join(nshow(o)[:60] for o in ops)
        if what.startswith("Overflow(Sub") and len(ops) == 2 and ops[1][0] == "const" and isinstance(ops[1][1], int):
            # J12: x - c under a dominating guard that implies x >= c (x != 0 / x > 0 / x >= c for c = 1; x >= k, x > k-1)
            c_ = ops[1][1]
            from purlsa.sem import atoms_at as _atoms_at
            for _, a in _atoms_at(b, bb):
                if a[0] != "cmp":
                    continue
                op, x, y, pos = a[1], a[2], a[3], a[4]
                if x != ops[0] or y[0] != "const" or not isinstance(y[1], int):
                    continue
                k_ = y[1]
                lower = None  # the guard implies x >= lower
                if (op == "Ne" and pos or op == "Eq" and not pos) and k_ == 0:
                    lower = 1
                elif (op == "Gt" and pos) or (op == "Le" and not pos):
                    lower = k_ + 1
                elif (op == "Ge" and pos) or (op == "Lt" and not pos):
                    lower = k_
                if lower is not None and lower >= c_:
                    return "J12", "x - %d under the dominating guard %s %s %d (%s): x >= %d" % (c_, nshow(x)[:40], op, k_, pos, lower)
            return None, "%s: no dominating guard implies the bound (operands: %s)" % (what, ", ".join(nshow(o)[:60] for o in ops))
        if what.startswith("Overflow("):
            return None, "%s has no table justification: it needs a dominating guard that implies the bound (operands: %s)" % (what, ", ".join(nshow(o)[:60] for o in ops))
        if what == "BoundsCheck" and len(ops) == 2 and ops[0][0] == "const" and isinstance(ops[0][1], int) and ops[0][1] >= 256:
            # J15: TABLE[usize::from(b)] / TABLE[b as usize] with b: u8 and a table of at least 256 entries
            idx = ops[1]
            src = None
            if idx[0] == "cast" and idx[1].startswith("IntToInt"):
                src = idx[2]
            elif idx[0] == "call" and idx[1] == "std::convert::num::<impl std::convert::From<u8> for usize>::from" and len(idx[2]) == 1:
                return "J15", "index is usize::from(u8) < 256 <= %d" % ops[0][1]
            if src is not None:
                # the operand's MIR type must be u8
                for o in t["ops"][1:]:
                    if o["o"] in ("copy", "move") and not o["place"]["proj"]:
                        for bl in b.blocks:
                            for st in bl["stmts"]:
                                if st.get("s") == "assign" and st["place"]["l"] == o["place"]["l"] and st["rv"].get("r") == "cast" and st["rv"]["op"]["o"] in ("copy", "move") and not st["rv"]["op"]["place"]["proj"]:
                                    if b.locals[st["rv"]["op"]["place"]["l"]]["ty"] == "u8":
                                        return "J15", "index is a u8 widened to usize < 256 <= %d" % ops[0][1]
        if what == "BoundsCheck" and len(ops) == 2 and ops[0][0] == "const" and isinstance(ops[0][1], int) and ops[0][1] >= 128:
            # J19: TABLE[c as usize] for a char (or u8) c behind a dominating `c.is_ascii()` test, table of >= 128 entries
            idx = ops[1]
            if idx[0] == "cast" and idx[1].startswith("IntToInt"):
                src = idx[2]
                for _, a_ in atoms_at(b, bb):
                    if a_[0] == "pred" and a_[3] is True and isinstance(a_[1], str) and (a_[1].endswith("<impl char>::is_ascii") or a_[1].endswith("<impl u8>::is_ascii")) and len(a_[2]) == 1:
                        x_ = norm(a_[2][0])
                        while x_[0] in ("ref", "deref"):
                            x_ = x_[2] if x_[0] == "ref" else x_[1]
                        y_ = src
                        while y_[0] in ("ref", "deref"):
                            y_ = y_[2] if y_[0] == "ref" else y_[1]
                        if x_ == y_:
                            return "J19", "index is an ASCII char/byte (dominating is_ascii() test) widened to usize < 128 <= %d" % ops[0][1]
        if what == "BoundsCheck":
            # J14: TABLE[e as usize] where e is a value of an enum with default discriminants 0..n-1 and the array has at
            # least n elements (ops = [len, index])
            if len(ops) == 2 and ops[0][0] == "const" and isinstance(ops[0][1], int):
                idx = ops[1]
                if idx[0] == "cast" and idx[2][0] == "discr" and len(idx[2]) > 2 and idx[2][2]:
                    nvar = len(idx[2][2])
                    default = False
                    for bl in b.blocks:
                        for st in bl["stmts"]:
                            if st.get("s") == "assign" and st["rv"].get("r") == "discr" and st["rv"].get("discrs") is not None and len(st["rv"]["discrs"]) == nvar:
                                default = st["rv"]["discrs"] == list(range(nvar))
                    if default and ops[0][1] >= nvar:
                        return "J14", "index is the discriminant of an enum with %d variants (0..%d), the array has %d elements" % (nvar, nvar - 1, ops[0][1])
            return None, "bounds check without provenance"
        return None, "assert kind %s" % what
    if s["kind"] == "panic-call":
        return None, "explicit panic"
    if s["kind"] == "asm":
        return None, "inline asm"
    item = s["item"]
    args = [norm(b.resolve_operand(a)) for a in t["args"]]
    p = s["what"]
    if item in ("unwrap", "expect"):
        a = args[0]
        if a[0] == "call" and a[1] == "std::fmt::Write::write_fmt":
            recv_ty = t["callee"].get("args", [])
            wt = b.term(a[3])["callee"].get("args", [])
            pieces = fmt_pieces(b.resolve_operand(b.term(a[3])["args"][1]))
            tys_ok = bool(wt) and (wt[0].startswith("smartstring::SmartString<") or wt[0] == "std::string::String")
            disp_ok = pieces is not None and all(pc[0] == "lit" or pc[0] == "display" for pc in pieces)
            if tys_ok and disp_ok:
                return "J2", "fmt::Write into %s with str/Cow<str> Display arguments cannot fail" % wt[0]
            return None, "write_fmt receiver %s" % wt
        if a[0] == "call" and a[1] in facts.bodies and facts.fns.get(a[1], {}).get("name") == "partial_cmp":
            rets = models.returns(facts.body(a[1]))
            if rets and all(models.classify_return(n)[0] == "some" for _, n in rets):
                return "J3", "%s returns Some on every path" % a[1]
        if a[0] == "call" and a[1] == "std::cmp::PartialOrd::partial_cmp":
            return None, "unresolved partial_cmp"
        # J17: the very value is known to be Some / Ok here: a dominating test of it (`if x.is_none() { return .. }`,
        # `if x.is_some()`, a match arm) on a value that nothing can change in between (an immutable local or a call result)
        raw_atoms = [at for _, at in atoms_at(b, bb)]
        want_some = ("std::option::Option::<T>::is_some", "std::result::Result::<T, E>::is_ok")
        want_none = ("std::option::Option::<T>::is_none", "std::result::Result::<T, E>::is_err")
        for at in raw_atoms:
            if at[0] == "pred" and len(at[2]) == 1 and norm(at[2][0]) == a and a[0] != "var":
                if (at[1] in want_some and at[-1] is True) or (at[1] in want_none and at[-1] is False):
                    return "J17", "the value is tested to be Some/Ok on every path to the unwrap: %s" % models.show_canon(models.canon_atom(at))[:100]
            if at[0] == "is" and norm(at[1]) == a and at[-1] in ("Some", "Ok") and a[0] != "var":
                return "J17", "the unwrap sits in the Some/Ok arm of a match on the same value"
        return None, "unwrap of %s" % nshow(a)[:100]
    if item == "index" and p == models.STR_INDEX:
        # J13: &s[..i] / &s[i + 1..] where i is the position at which an ASCII char was found in the same s: both ends are
        # char boundaries inside s (the char is one byte long), so the slice cannot panic
        ct = norm(b.call_term(bb))
        reg = models._slice_region(ct)
        if reg is not None:
            return "J13", "slice of the string at the position of %r found in it (%s)" % (reg[1], reg[0])
        # generic helper: &s[..i] / &s[i + c.len_utf8()..] with i = s.find(c) / s.rfind(c) for the same (arbitrary) char c
        s_, rg = ct[2]
        if rg[0] == "agg" and rg[1][0] == "adt" and rg[1][1] in ("std::ops::RangeTo", "std::ops::RangeFrom") and len(rg[2]) == 1:
            pos = rg[2][0]
            clen = None
            if rg[1][1] == "std::ops::RangeFrom":
                q = pos[1] if pos[0] == "field" and pos[2] == "0" else pos
                if q[0] == "binop" and q[1] in ("AddWithOverflow", "Add") and q[3][0] == "call" and q[3][1].endswith("<impl char>::len_utf8") and len(q[3][2]) == 1:
                    pos, clen = q[2], q[3][2][0]
                else:
                    pos = None
            if pos is not None and pos[0] in ("some", "ok") and pos[1][0] == "call" and pos[1][1] in (models.STR + "find", models.STR + "rfind") and pos[1][2][0] == s_ and (clen is None or clen == pos[1][2][1]):
                if clen is not None or rg[1][1] == "std::ops::RangeTo":
                    return "J13", "slice of the string at the position of the char found in it (plus that char's own UTF-8 length)"
        # the position may come from one of several searches (joined arms), each on the same string
        if rg[0] == "agg" and rg[1][0] == "adt" and rg[1][1] in ("std::ops::RangeTo", "std::ops::RangeFrom") and len(rg[2]) == 1:
            pos = rg[2][0]
            if rg[1][1] == "std::ops::RangeFrom":
                po = models._plus_one(pos)
                pos = po[0] if po is not None and po[1] is None else None
            arms = list(pos[1]) if pos is not None and pos[0] == "phi" else ([pos] if pos is not None else [])
            fcs = [models._find_call(a) for a in arms]
            if arms and all(fc is not None and fc[2] == s_ and ord(fc[1]) < 128 for fc in fcs):
                return "J13", "slice of the string at the position of one of %s found in it" % sorted(set(fc[1] for fc in fcs))
        sk = models._skip_leading(("call", models.STR_INDEX, (strip(args[0]), rg), 0))
        if sk is not None:
            return "J13", "slice from the first byte that is not the one-byte char %r: every byte before it is that char" % sk[0]
        # &tail[1..] where (head, tail) = s.split_at(pos), pos the position of a one-byte char found in s: tail starts with it
        if rg[0] == "agg" and rg[1][0] == "adt" and rg[1][1] == "std::ops::RangeFrom" and len(rg[2]) == 1 and rg[2][0] == ("const", 1):
            tl = strip(args[0])
            if tl[0] == "field" and tl[2] == "1" and tl[1][0] == "call" and tl[1][1] == models.STR + "split_at" and len(tl[1][2]) == 2:
                fc = models._find_call(tl[1][2][1])
                if fc is not None and strip(fc[2]) == strip(tl[1][2][0]) and ord(fc[1]) < 128:
                    return "J13", "slice past the first byte of the tail of split_at at the position where the one-byte char %r was found" % fc[1]
        return None, "string slice whose bounds are not the position of a char found in the same string: %s" % nshow(args[1])[:100]
    if item in ("index", "index_mut", "remove", "swap_remove") and "Vec" in p:
        idx = args[1]
        fs = from_search(facts, idx)
        # closure parameter of Option::map(get_index(..), closure): arg2 of the closure
        if fs is None and idx == ("arg", 2) and b.kind == "closure":
            parent = facts.body(b.j["root"])
            for pb, pt in parent.calls():
                if callee_name(pt["callee"]) == "std::option::Option::<T>::map":
                    pa = [norm(parent.resolve_operand(x)) for x in pt["args"]]
                    if pa[1][0] == "closure" and pa[1][1] == k and pa[0][0] == "call" and facts.fns.get(pa[0][1], {}).get("name") == "get_index":
                        fs = "closure parameter of Option::map(get_index(..))"
        if fs is not None and "err" not in fs:
            return "J4", "index = %s on the same Vec" % fs
        if fs is not None:
            # phi(ok(search) | err(search)): the err branch must be the index of a dominating insert
            ins = [(ib, it) for ib, it in b.calls() if callee_name(it["callee"]).endswith("Vec::<T, A>::insert")]
            if len(ins) == 1:
                ii = norm(b.resolve_operand(ins[0][1]["args"][1]))
                if from_search(facts, ii) == "err(search)" and bb in b.reachable_from(ins[0][0]):
                    return "J5", "index = Ok(i) of the search, or the index of the Vec::insert that precedes on the Err path"
            return None, "index may be an insertion point without insert"
        if idx[0] == "field" and idx[2] == "index" and idx[1] != ("arg", 1):
            # `o.qualifiers[o.index]` on an OccupiedEntry reached some other way (the payload of Entry::Occupied, a local):
            # the same representation invariant, provided index and Vec are the two fields of one and the same entry
            recv = strip(args[0])
            if recv == ("field", idx[1], "qualifiers") and adt_of_term(facts, b, idx[1]).startswith("qualifiers::OccupiedEntry<"):
                return "J6", "OccupiedEntry.index with that entry's own Vec: the entry is built only in entry() from Ok(i) and holds the &mut Vec (C11 IDX)"
        if idx[0] == "field" and idx[1] == ("arg", 1) and idx[2] == "index":
            st = facts.fns.get(k, {}).get("impl_self", "")
            if st.startswith("qualifiers::OccupiedEntry<"):
                return "J6", "OccupiedEntry.index: the entry is built only in entry() from Ok(i) and holds the &mut Vec (C11 IDX)"
            if st.startswith("qualifiers::VacantEntry<"):
                ins = [(ib, it) for ib, it in b.calls() if callee_name(it["callee"]).endswith("Vec::<T, A>::insert")]
                if len(ins) == 1 and b.dominates(ins[0][0], bb) and norm(b.resolve_operand(ins[0][1]["args"][1])) == idx:
                    return "J5", "index equals the index of the dominating Vec::insert on the same Vec"
        return None, "index provenance not from the search: %s" % nshow(idx)[:100]
    if item == "insert" and "Vec" in p:
        idx = args[1]
        if from_search(facts, idx) == "err(search)":
            return "J7", "insertion index = Err(i) of the search (0 <= i <= len)"
        if idx[0] == "field" and idx[1] == ("arg", 1) and idx[2] == "index" and facts.fns.get(k, {}).get("impl_self", "").startswith("qualifiers::VacantEntry<"):
            return "J7", "VacantEntry.index: built only in entry() from Err(i) of the search, Vec untouched in between (borrow held)"
        return None, "insertion index %s" % nshow(idx)[:100]
    if item in ("index", "index_mut") and p.startswith("<std::string::String as std::ops::Index") and len(args) == 2:
        # J16: &mut v[start..] with start = v.len() taken earlier in this function, v only ever appended to: the String never
        # shrinks, so start <= len, and a length is the end of valid text, so it stays a char boundary under appends
        rg = args[1]
        recv = args[0]
        if rg[0] == "agg" and rg[1][0] == "adt" and rg[1][1] == "std::ops::RangeFrom" and len(rg[2]) == 1 and recv[0] == "var":
            ln = rg[2][0]
            if ln[0] == "call" and ln[1] in ("std::string::String::len", models.STR + "len") and len(ln[2]) == 1 and strip(ln[2][0])[0] == "var" and strip(ln[2][0])[1] == recv[1] and b.dominates(ln[3], bb):
                GROW = ("push", "push_str", "extend", "extend_from_slice", "reserve", "deref_mut", "index_mut", "make_ascii_lowercase", "make_ascii_uppercase", "with_capacity", "new", "len", "write_str", "write_char", "write_fmt")
                effs = [e for e in models.mut_effects(b) if e["target"][:2] == ("var", recv[1])]
                shrink = [e["path"] for e in effs if e["path"].split("::")[-1] not in GROW]
                reassigned = len([d for d in b.defs().get(recv[1], []) if not b.is_cleanup(d[0])]) != 1
                if not shrink and not reassigned:
                    return "J16", "slice from an earlier length of the same String, which is only appended to in this function"
                return None, "the String indexed from an earlier length may shrink or be replaced: %s" % (shrink or "reassigned")
        return None, "String index whose start is not an earlier length of the same String: %s" % nshow(rg)[:100]
    if item == "split_at" and p == models.STR + "split_at" and len(args) == 2:
        pos = args[1]
        s_ = strip(args[0])
        arms = list(pos[1]) if pos[0] == "phi" else [pos]
        ok_ = bool(arms)
        for a in arms:
            if not (a[0] in ("some", "ok") and a[1][0] == "call" and a[1][1] in (models.STR + "find", models.STR + "rfind") and strip(a[1][2][0]) == s_):
                ok_ = False
        if ok_:
            return "J13", "split of the string at the position where a pattern was found in it (the start of a match is a char boundary within the string)"
        return None, "split_at position is not a position found in the same string: %s" % nshow(pos)[:100]
    if item == "with_capacity":
        n = args[0] if args else None
        if n is not None and (bounded_term(n) or n[0] == "field" and bounded_term(n)):
            return "J10", "capacity is a count/length of live data: %s" % nshow(n)[:80]
        if n is not None and n[0] == "call" and n[1].endswith("saturating_sub") and bounded_term(n[2][0]):
            return "J10", "capacity = saturating_sub of a bounded sum"

        def cap_ok(x):
            if bounded_term(x) or (x[0] == "const" and isinstance(x[1], int) and 0 <= x[1] <= 1):
                return True
            if x[0] == "field" and x[1][0] == "binop" and x[1][1] in ("Sub", "SubWithOverflow") and bounded_term(x[1][2]):
                return True  # a bounded sum minus something (the subtraction's own overflow check is a separate site)
            if x[0] == "binop" and x[1] in ("Sub", "SubWithOverflow") and bounded_term(x[2]):
                return True
            return False
        if n is not None and n[0] == "phi" and all(cap_ok(x) for x in n[1]):
            return "J10", "capacity is, on every path, a count/length of live data or such a sum reduced: %s" % nshow(n)[:80]
        if n is not None and n[0] == "field" and n[1][0] == "call" and n[1][1].endswith("size_hint"):
            return "J11", "capacity hint of a caller-supplied iterator"
        return None, "capacity %s" % (nshow(n)[:100] if n else "?")
    if item in ("reserve", "reserve_exact"):
        n = args[1] if len(args) > 1 else None
        if n is not None and n[0] == "arg":
            return "J11", "forwards a caller-supplied usize (allocation request; outside the string-argument quantifier)"
        if n is not None and (n[0] == "field" and n[1][0] == "call" and n[1][1].endswith("size_hint") or bounded_term(n)):
            return "J11", "capacity hint"
        return None, "reserve amount %s" % (nshow(n)[:80] if n else "?")
    return None, "no justification rule for %s" % p


def rule_panic(ctx):
    for fs in (["default"] if ctx.tier == "quick" else ["default", "pt", "none", "serde"]):
        facts = ctx.facts(fs)
        tag = "" if fs == "default" else "[%s] " % fs
        sites = panic_sites(facts)
        ndoc = {}
        callers = None
        for s in sites:
            why = docpanic_for(facts, s["fn"])
            jid, det = justify(facts, s)
            inst = "%s%s %s" % (tag, s["kind"], s["what"])
            if jid is None and why is None and s["kind"] == "panic-call":
                # the panic sits in a private helper (`#[cold] fn not_found(..) -> !`): it belongs to the functions that call
                # it -- documented if every one of them documents it, once per call site
                f_ = facts.fns.get(s["fn"], {})
                if f_ and not f_.get("reachable") and "impl_trait" not in f_:
                    if callers is None:
                        callers = {}
                        for k2, b2 in facts.bodies.items():
                            for bb2, t2 in b2.calls(include_cleanup=True):
                                if "path" in t2["callee"]:
                                    callers.setdefault(callee_name(t2["callee"]), []).append((b2.j.get("root", k2) if b2.kind == "closure" else k2, b2.site(bb2)))
                    cs = callers.get(s["fn"], [])
                    whys = [docpanic_for(facts, k2) for k2, _ in cs]
                    if cs and all(whys):
                        for (k2, site2), w in zip(cs, whys):
                            ndoc[w] = ndoc.get(w, 0) + 1
                            ctx.ob("PANIC", inst + " -- documented panic (raised through the private helper %s)" % f_.get("name"), True, fn=k2, site=site2, detail="R-DOCPANIC: " + w)
                        continue
            if jid is None and why is not None and s["kind"] in ("panic-call", "api") and (s["kind"] == "panic-call" or s.get("item") in ("unwrap", "expect")):
                ndoc[why] = ndoc.get(why, 0) + 1
                ctx.ob("PANIC", inst + " -- documented panic", True, fn=s["fn"], site=s["site"], detail="R-DOCPANIC: " + why)
            else:
                ctx.ob("PANIC", inst + (" -- %s" % jid if jid else ""), jid is not None, fn=s["fn"], site=s["site"], detail=det)
        if fs == "default":
            ctx.ob("PANIC", "the documented panics are exactly: 2 Index/IndexMut misses, 2 typed-insert unwraps, 1 Display type check", sorted(ndoc.values()) == [1, 2, 2], detail=str(ndoc))
            ctx.note("panic sites enumerated in the default feature set: %d over %d bodies" % (len(sites), len(facts.bodies)))


def rule_loop(ctx):
    facts = ctx.facts()
    n = 0
    extra = local_finite_types(facts)
    cto = compile_time_only(facts)
    for k, b in facts.bodies.items():
        if (b.j.get("root", k) if b.kind == "closure" else k) in cto:
            ctx.note("%s is a const fn used only at compile time: its loops/panics are the compiler's to refuse" % k)
            continue
        heads = models.loop_of_next(b)
        for h, blk in b.loops().items():
            n += 1
            if h not in heads:
                ctx.ob("LOOP", "loop is driven by Iterator::next", False, fn=k, site=b.site(h), detail="a loop whose exit is not the exhaustion of an iterator needs its own termination argument")
                continue
            nb, it, npath = heads[h]
            exits_only_on_none = True
            if finite_iterator(npath, b.term(nb), extra):
                ctx.ob("LOOP", "loop over a finite std iterator (%s)" % npath.split(" as ")[0].strip("<"), True, fn=k, site=b.site(h), detail=npath)
            elif npath in facts.bodies:
                # local iterator: must forward to a finite one
                fb = facts.body(npath)
                inner = [callee_name(t["callee"]) for _, t in fb.calls() if t["callee"].get("item") == "next"]
                ctx.ob("LOOP", "loop over a local iterator that forwards to a finite std iterator", bool(inner) and all(i in FINITE_ITERATORS for i in inner) and not fb.back_edges(), fn=k, site=b.site(h), detail="%s -> %s" % (npath, inner))
            elif npath == "std::iter::Iterator::next":
                f = facts.fns.get(k, {})
                ctx.ob("LOOP", "loop over a caller-supplied iterator (termination is the caller's: listed, not claimed)", True, fn=k, site=b.site(h), detail="generic I::IntoIter in %s" % f.get("name"), nontrivial=False)
            else:
                ctx.ob("LOOP", "loop iterator %s is in the finite-iterator table" % npath, False, fn=k, site=b.site(h), detail="")
    ctx.ob("LOOP", "number of loops audited", n >= 1, detail="%d natural loops" % n, nontrivial=False)


def rule_norec(ctx):
    facts = ctx.facts()
    g = facts.callgraph()
    bad = [c for c in facts.sccs() if len(c) > 1]
    selfrec = [k for k, outs in g.items() if k in outs]
    ctx.ob("NOREC", "the local call graph has no cycle", not bad and not selfrec, detail="%d bodies; cycles: %s; self-calls: %s" % (len(g), bad[:3], selfrec[:3]))


def rule_clippy(ctx):
    """thorough: independent enumeration with clippy restriction lints; its site set must be covered by the audit."""
    if ctx.tier != "thorough":
        return
    import subprocess, json, os, re, tempfile, shutil
    facts = ctx.facts()
    sites = panic_sites(facts)
    lines = {}
    for s in sites:
        m = re.match(r"(.*):(\d+)$", s["site"])
        if m:
            lines.setdefault(m.group(1), set()).add(int(m.group(2)))
    from purlsa import extract as ex
    env = ex.base_env()
    tdir = os.path.join(ex.CACHE, "target-clippy")
    env["CARGO_TARGET_DIR"] = tdir
    lints = ["arithmetic_side_effects", "indexing_slicing", "unwrap_used", "expect_used", "panic", "unreachable", "string_slice"]
    cmd = ["cargo", "+nightly", "clippy", "-p", "purl", "--lib", "--offline", "--message-format=json", "--"] + sum([["-W", "clippy::" + l] for l in lints], [])
    shutil.rmtree(os.path.join(tdir, "debug", ".fingerprint"), ignore_errors=True)
    r = subprocess.run(cmd, cwd=ctx.repo, env=env, capture_output=True, text=True)
    found = []
    for line in r.stdout.splitlines():
        try:
            m = json.loads(line)
        except ValueError:
            continue
        msg = m.get("message") or {}
        code = (msg.get("code") or {}).get("code", "")
        if not code.startswith("clippy::") or code.split("::")[1] not in lints:
            continue
        for sp in msg.get("spans", []):
            if sp.get("is_primary"):
                found.append((code, sp["file_name"], sp["line_start"], sp["line_end"]))
    if r.returncode != 0 and not found:
        ctx.ob("CLIPPY-XREF", "clippy cross-reference ran", False, detail=r.stderr[-500:])
        return
    miss = []
    for (code, fn_, a, b_) in found:
        ls = lines.get(fn_, set()) | lines.get("purl/" + fn_.split("purl/", 1)[-1], set())
        if not any(a - 1 <= l <= b_ + 1 for l in ls):
            miss.append((code, fn_, a))
    # index expressions on HashMap / push etc. are not in our denylist: report the difference
    ctx.ob("CLIPPY-XREF", "every clippy restriction-lint site (%s) is in the audit's site set" % ", ".join(lints), not miss, detail="%d clippy sites; not in the audit: %s" % (len(found), miss[:8]))


def rule_controls(ctx):
    from . import controls
    if ctx.tier == 'thorough':
        controls.control_panic(ctx)
        controls.control_loop(ctx)


THOROUGH_FS = []

def rule_display_guard(ctx):
    """The Display type check is a documented panic only for a *user-supplied* type.  With the built-in type parameters it
    must be unreachable: every built-in shape's finish leaves only valid types behind (C13's sibling obligations, the
    type-name table of C15 for PackageType) and build() is the only constructor (C04 CONSTRUCT) -- so the guard in fmt
    re-tests what finish established with the same predicate."""
    from . import C04
    C04.rule_typevalid(ctx, rule="DISPLAY-GUARD", alphabet=False)
    facts = ctx.facts()
    fk = models.display_fn(facts)
    fb = facts.body(fk)
    guards = [bb for bb, t in fb.calls() if callee_name(t["callee"]) == "is_valid_package_type"]
    ctx.ob("DISPLAY-GUARD", "Display tests the type with the predicate the built-in shapes validate with", len(guards) == 1, fn=fk, site=fb.site(guards[0]) if guards else "", detail="%d call(s) of is_valid_package_type in fmt" % len(guards))


RULES = [
    ("CONTROL", rule_controls, 0),
    ("PANIC", rule_panic, 30),
    ("DISPLAY-GUARD", rule_display_guard, 4),
    ("LOOP", rule_loop, 1),
    ("NOREC", rule_norec, 1),
    ("CLIPPY-XREF", rule_clippy, 0),
]

MANIFEST = {
    "text": "Complete static audit of the crate's own panic sites (MIR Assert terminators and calls of a denylist of panicking std APIs), loops (finite-iterator headers) and recursion (call-graph SCCs) over all library bodies; every site is a documented panic or discharged by a re-verified justification (index provenance from the binary search, infallible string formatting, non-zero constant divisor, additions bounded by live data). Subtraction/negation/multiplication overflow asserts have no table justification. The Display type check counts as the documented panic only because the built-in type parameters cannot reach it: rule DISPLAY-GUARD re-uses the obligations that every built-in shape's finish leaves a valid type behind (C13) and that the PackageType names are valid (C15). debug_assert!s are panic sites like any other (the property is stated for builds with debug assertions): one that the justifications cannot discharge is reported.",
    "note": "Trusted: rustc MIR (overflow checks and bounds checks appear as Assert terminators in debug MIR), the denylist, the justification procedures. Not decided: panics/overflow/non-termination inside dependencies and std beyond their documented-panicking APIs; allocation failure; stack depth.",
    "technique": "exhaustive panic-site enumeration over MIR + per-site justification by origin resolution and dominance; loop-header and call-graph cycle audit; clippy restriction lints as cross-reference (thorough)",
    "design_ref": "DESIGN.md 5.6",
}
