"""C11 -- qualifier collection behaves as a case-insensitive sorted map (DESIGN.md 5.11).

Decides MAINTENANCE OF THE REPRESENTATION INVARIANT ("the Vec is strictly ascending by key; every key is a
valid, ASCII-lower-case qualifier name") and the discipline around it -- a necessary condition for every clause of
the property -- not the full functional equivalence with a reference map.
"""
from purlsa.core import AnchorError, callee_name, strip
from purlsa.sem import norm, nshow, atoms_at
from purlsa import models, boolsum, paths
from purlsa.models import show_canon
from .common import fn_site, VALID_KEY_SET

LEVEL = "other"
EXPLANATION = (
    "Static decision that the representation invariant of Qualifiers cannot be broken by any operation sequence: (MUTATORS) every call on the "
    "key/value Vec in the whole crate is on a whitelist of order-preserving operations; (IDX) every Vec::insert index originates from Err(i) of the "
    "binary search for the very key being inserted, with no mutation in between; entry objects are built only in entry() from that search; (KEYCTOR) "
    "QualifierKey is constructed only in into_key, lower-cased on the Mixed arm, and the Lower arm is reachable only under a guard whose character class "
    "excludes [A-Z]; (KEYCHECK) every path to the search passes the key check; (CMP-LOWER) the comparator lower-cases the probe; (KEYREF) no API hands "
    "out a mutable reference to a key or to the Vec; (DUP) construction from pairs refuses an occupied entry; (DERIVES) Eq/Hash/Ord are derived over the Vec."
)
RULE_TEXT = "obligations = per call site on the Vec: whitelisted; per insert: index provenance; per constructor site: location and guards; per entry point: key check dominates search; per public signature: no &mut key"
ASSUMPTIONS = [
    "<[T]>::binary_search_by returns Ok(i) for a matching element and Err(i) for the insertion point that keeps the slice sorted, provided the slice is sorted by the same comparator",
    "Vec::{insert, remove, retain, retain_mut, clear} preserve the relative order of the remaining elements",
    "returned values (previous value of insert, remove_entry's pair, len, Entry combinators) are value-level behaviour that only a reference-map comparison settles: NOT decided here",
]
TRUSTED_BASE = ["callee semantics table (DESIGN.md section 3)", "Rust borrow checking (an entry object holds the &mut Vec, so no outside mutation between search and insert)"]

ORDER_PRESERVING = {"insert", "remove", "retain", "retain_mut", "clear", "reserve", "reserve_exact", "iter", "iter_mut", "len", "is_empty", "capacity", "binary_search_by", "binary_search_by_key", "index", "index_mut", "deref", "deref_mut", "clone", "default", "eq", "ne", "cmp", "partial_cmp", "hash", "fmt", "get", "get_mut", "first", "last", "into_iter", "with_capacity", "new", "shrink_to_fit", "shrink_to", "as_slice", "is_sorted_by", "lt", "le", "gt", "ge", "next", "next_back", "size_hint", "assert_fields_are_eq"}


def pair_type(facts):
    adt = facts.adts.get("qualifiers::Qualifiers")
    if not adt:
        raise AnchorError("struct Qualifiers not found")
    fields = adt["variants"][0]["fields"]
    if len(fields) != 1 or not fields[0]["ty"].startswith("std::vec::Vec<("):
        raise AnchorError("Qualifiers is expected to be a single Vec<(QualifierKey, SmallString)> field, found %s" % [(f["name"], f["ty"]) for f in fields])
    vty = fields[0]["ty"]
    elem = vty[len("std::vec::Vec<"):-1]
    return fields[0]["name"], vty, elem, fields[0]["vis"]


def vec_call_sites(facts, elem, vty):
    """All call sites whose callee is instantiated on the (key, value) Vec / slice."""
    out = []
    for k, b in facts.bodies.items():
        for bb, t in b.calls(include_cleanup=False):
            ce = t["callee"]
            if "path" not in ce:
                continue
            args = ce.get("args", [])
            rargs = (ce.get("resolved") or {}).get("args", [])
            allargs = list(args) + list(rargs)
            if not any(a == elem or a == vty or a.startswith(vty) or a == "[%s]" % elem or a.startswith("&mut " + vty) or a.startswith("&" + vty) or a.startswith("std::slice::Iter") and elem in a for a in allargs):
                continue
            p = callee_name(ce)
            is_vec = "std::vec::Vec<" in p or p.startswith("std::vec::Vec::") or p.startswith("core::slice::<impl [T]>::") or "std::slice::Iter" in p or "[T]" in p
            if not is_vec:
                continue
            out.append((k, bb, p, ce.get("item") or p.split("::")[-1], t))
    return out


def invariant_obligations(ctx, facts, rule=None):
    R = lambda r: rule or r  # noqa: E731
    fname, vty, elem, vis = pair_type(facts)
    summ = boolsum.Summarizer(facts)
    # ------------------------------------------------------------ MUTATORS
    sites = vec_call_sites(facts, elem, vty)
    n_ins = 0
    for (k, bb, p, item, t) in sites:
        b = facts.body(k)
        ok = item in ORDER_PRESERVING
        ctx.ob(R("MUTATORS"), "%s on the qualifier Vec is order-preserving / read-only" % item, ok, fn=k, site=b.site(bb), detail=p)
        if item == "insert":
            n_ins += 1
    ctx.ob(R("MUTATORS"), "the Vec field is private", vis != "pub", fn="qualifiers::Qualifiers", detail="visibility of .%s: %s" % (fname, vis))
    # ------------------------------------------------------------ IDX
    ins_sites = [(k, bb, t) for (k, bb, p, item, t) in sites if item == "insert" and "Vec" in p]
    # (how many functions insert is not part of the invariant: each insertion site is checked on its own below)
    ctx.ob(R("IDX"), "the qualifier Vec has at least one insertion site, all of them inspected", len(ins_sites) >= 1, detail=str([(k) for k, _, _ in ins_sites]))
    search_keys = [k for k, f in facts.fns.items() if f.get("name") == "search" and f.get("impl_self") == "qualifiers::Qualifiers"]
    if len(search_keys) != 1:
        raise AnchorError("Qualifiers::search not found")
    SEARCH = search_keys[0]
    entry_structs = {}
    for (k, bb, t) in ins_sites:
        b = facts.body(k)
        args = [norm(b.resolve_operand(a), keep_conv=True) for a in t["args"]]
        vec, idx, el = args
        site = b.site(bb)
        keyt = el[2][0] if el[0] == "agg" and len(el[2]) == 2 else None
        while keyt is not None and keyt[0] == "conv":
            keyt = keyt[1]
        okkey = keyt is not None and keyt[0] == "call" and keyt[1].endswith("::into_key")
        ctx.ob(R("IDX"), "inserted element is (into_key(checked key), value)", okkey, fn=k, site=site, detail=nshow(el)[:160])
        if idx[0] == "err" and idx[1][0] == "call" and idx[1][1] == SEARCH:
            sc = idx[1]
            same_vec = models.field_path(vec) == fname and sc[2][0] == ("arg", 1)
            same_key = okkey and sc[2][1] == keyt[2][0]
            ctx.ob(R("IDX"), "index = Err(i) of search(&key) on the same Vec with the same key", same_vec and same_key, fn=k, site=site, detail="index %s ; key %s" % (nshow(idx)[:120], nshow(keyt)[:80]))
            # no mutation of the Vec between the search and the insert on any path
            between = []
            for e in models.mut_effects(b):
                if e["target"] == ("arg", 1, fname) and e["bb"] != bb and b.dominates(sc[3], e["bb"]) and bb in b.reachable_from(e["bb"]):
                    between.append(e["path"])
            ctx.ob(R("IDX"), "no mutation of the Vec between search and insert", not between, fn=k, site=site, detail=str(between))
        elif idx[0] == "field" and idx[1] == ("arg", 1):
            # struct field: VacantEntry.index ; the struct must be built only from the search
            sname = facts.fns[k].get("impl_self", "").split("<")[0]
            entry_structs[sname] = (k, idx[2], keyt)
            okk = keyt is not None and keyt[2][0][0] == "field" and keyt[2][0][1] == ("arg", 1)
            ctx.ob(R("IDX"), "index and key are the fields of the entry object (%s)" % sname, okk and models.field_path(vec) == fname or (okk and vec[0] == "field"), fn=k, site=site, detail="index %s key %s" % (nshow(idx), nshow(keyt)[:80]))
        else:
            ctx.ob(R("IDX"), "index provenance is the binary search", False, fn=k, site=site, detail=nshow(idx)[:160])
    # entry objects: constructed only in entry(), from the search result
    entry_fn = [k for k, f in facts.fns.items() if f.get("name") == "entry" and f.get("impl_self") == "qualifiers::Qualifiers"]
    if len(entry_fn) != 1:
        raise AnchorError("Qualifiers::entry not found")
    ENTRY = entry_fn[0]
    for sname in ("qualifiers::VacantEntry", "qualifiers::OccupiedEntry"):
        ags = [(k, bb) for (k, bb, _) in models.aggregates_of(facts, sname)]
        ctx.ob(R("IDX"), "%s is constructed only in Qualifiers::entry" % sname.split("::")[-1], ags and all(k == ENTRY for k, _ in ags), fn=ENTRY, site=fn_site(facts, ENTRY), detail=str(ags))
    eb = facts.body(ENTRY)
    for bi, bl in enumerate(eb.blocks):
        for st in bl["stmts"]:
            if st["s"] == "assign" and st["rv"]["r"] == "aggregate" and st["rv"].get("ak") == "adt" and st["rv"]["path"] in ("qualifiers::VacantEntry", "qualifiers::OccupiedEntry"):
                t = norm(eb._rv_term(st["rv"]))
                fields = dict(zip(t[1][3], t[2]))
                want = "err" if st["rv"]["path"].endswith("VacantEntry") else "ok"
                idx = fields.get("index")
                okidx = idx is not None and idx[0] == want and idx[1][0] == "call" and idx[1][1] == SEARCH and idx[1][2][0] == ("arg", 1)
                okvec = models.field_path(fields.get("qualifiers", ("x",))) == fname
                okkey = True
                if want == "err":
                    kk = fields.get("key")
                    okkey = kk is not None and idx is not None and okidx and kk == idx[1][2][1]
                ctx.ob(R("IDX"), "%s { qualifiers: &mut self.%s, index: %s(i) of search(&key)%s }" % (st["rv"]["path"].split("::")[-1], fname, want.capitalize(), ", key" if want == "err" else ""), okidx and okvec and okkey, fn=ENTRY, site=eb.site(bi), detail=nshow(t)[:200])
    # entry-object fields are private (cannot be forged or edited outside the module)
    for sname in ("qualifiers::VacantEntry", "qualifiers::OccupiedEntry"):
        adt = facts.adts.get(sname)
        if not adt:
            raise AnchorError("%s not found" % sname)
        for f in adt["variants"][0]["fields"]:
            ctx.ob(R("IDX"), "%s.%s is private" % (sname.split("::")[-1], f["name"]), f["vis"] != "pub", fn=sname, detail=f["vis"])
    # entry-object methods do not change the length except the consuming ones
    for k, f in facts.fns.items():
        st = f.get("impl_self", "")
        if st.startswith("qualifiers::OccupiedEntry<") or st.startswith("qualifiers::VacantEntry<"):
            b = facts.body(k)
            consuming = f["inputs"] and not f["inputs"][0].startswith("&")
            for (kk, bb, p, item, t) in sites:
                if kk == k and item in ("insert", "remove"):
                    ctx.ob(R("IDX"), "%s::%s changes the length only by consuming the entry" % (st.split("<")[0].split("::")[-1], f["name"]), consuming, fn=k, site=b.site(bb), detail="receiver %s" % (f["inputs"][0] if f["inputs"] else ""))
    # ------------------------------------------------------------ KEYCTOR
    ags = models.aggregates_of(facts, "qualifiers::QualifierKey")
    nonder = []
    for (k, bb, line) in ags:
        root = facts.bodies[k].j.get("root", k)
        if not facts.fns.get(root, {}).get("derived"):
            nonder.append(k)
    intokey = [k for k, f in facts.fns.items() if f.get("name") == "into_key"]
    ctx.ob(R("KEYCTOR"), "QualifierKey(_) is constructed only in into_key", len(intokey) == 1 and nonder == intokey, fn=intokey[0] if intokey else "", detail=str(nonder))
    if len(intokey) == 1:
        IK = intokey[0]
        # the classification may be an enum (Lower / Mixed) or a flag next to the text (`is_lower: bool`)
        madt = facts.adts.get("qualifiers::MixedQualifierKey", {})
        mfields = madt.get("variants", [{}])[0].get("fields", []) if madt.get("kind") == "Struct" else []
        flagf = [f_["name"] for f_ in mfields if f_["ty"] == "bool"]
        for o in paths.outcomes(facts, IK):
            var = [a for a in o["atoms"] if a[0] == "is"]
            vname = var[0][2] if var else "?"
            if not var and len(flagf) == 1:
                # `if !self.is_lower { s.make_ascii_lowercase() }`: flag true plays Lower, flag false plays Mixed
                fl = [a for a in o["atoms"] if a[0] == "other" and a[1].startswith("arg1.%s " % flagf[0])]
                if len(fl) == 1:
                    vname = "Mixed" if fl[0][1].endswith("('eq', 0)") else "Lower" if fl[0][1].endswith("('ne', (0,))") else "?"
            lowered = any(e[0] == "call" and e[1].endswith("::make_ascii_lowercase") for e in o["effects"]) or any(c[0].endswith("::to_ascii_lowercase") for c in o["calls"])
            if vname == "Mixed":
                # the lowered var is what is wrapped
                r = o["ret"]
                ctx.ob(R("KEYCTOR"), "into_key: the Mixed arm lower-cases (ASCII) before wrapping", lowered, fn=IK, site=fn_site(facts, IK), detail="effects: %s" % [e[1] for e in o["effects"] if e[0] == "call"])
            elif vname == "Lower":
                ctx.ob(R("KEYCTOR"), "into_key: the Lower arm wraps the text unchanged", not lowered and not [e for e in o["effects"] if e[0] == "call" and not e[1].endswith("deref_mut")], fn=IK, site=fn_site(facts, IK), detail="")
            else:
                ctx.ob(R("KEYCTOR"), "into_key: arm %s understood" % vname, False, fn=IK, site=fn_site(facts, IK), detail="")
    # MixedQualifierKey values originate only from the key check, after the valid_key guard
    kc = [k for k in facts.bodies if any(a[0] == k for a in [(x[0],) for x in models.aggregates_of(facts, "qualifiers::MixedQualifierKey")])]
    mags = set(k for (k, _, _) in models.aggregates_of(facts, "qualifiers::MixedQualifierKey"))
    ctx.ob(R("KEYCTOR"), "MixedQualifierKey is constructed in exactly one function (the key check)", len(mags) == 1, detail=str(sorted(mags)))
    if len(mags) == 1:
        KC = next(iter(mags))
        for o in paths.outcomes(facts, KC):
            r = o["ret"]
            if r[0] == "ok" and r[1][0] == "agg" and r[1][1][1] == "qualifiers::MixedQualifierKey" and len(flagf) == 1 and flagf[0] in r[1][1][3]:
                # struct form: { text, flag }.  The flag may be true only for text without [A-Z]: it must be all(chars(text), P)
                # with P's character class free of upper-case letters (then `true` plays Lower, `false` plays Mixed)
                names = list(r[1][1][3])
                flagv = r[1][2][names.index(flagf[0])]
                textv = [r[1][2][i] for i, n_ in enumerate(names) if n_ != flagf[0] and r[1][2][i] == ("arg", 1)]
                valid = [a for a in o["atoms"] if a[0] == "pred" and a[3] is True and a[1] in facts.bodies and a[2] == (("Input", 1),)]
                okvalid = False
                for a in valid:
                    c = boolsum.strpred_canon(summ.summary(a[1]), facts)
                    if c["nonempty"] and c["all"] == VALID_KEY_SET and not c["other"]:
                        okvalid = True
                ctx.ob(R("KEYCTOR"), "Lower(_) is produced only after the valid-key guard [0-9A-Za-z._-]+", okvalid and bool(textv), fn=KC, site=fn_site(facts, KC), detail="; ".join(show_canon(a) for a in o["atoms"])[:200])
                ctx.ob(R("KEYCTOR"), "Mixed(_) is produced only after the valid-key guard [0-9A-Za-z._-]+", okvalid and bool(textv), fn=KC, site=fn_site(facts, KC), detail="(flag form: one construction site for both)")
                AZ = sum(1 << c for c in range(65, 91))
                okl = False
                fv = flagv
                while fv[0] == "var" and len(fv) > 2:
                    fv = fv[2]
                if fv[0] == "call" and fv[1] == "std::iter::Iterator::all" and len(fv[2]) == 2 and fv[2][1][0] in ("closure", "fn"):
                    src = fv[2][0]
                    while src[0] == "var" and len(src) > 2:
                        src = src[2]
                    if src[0] == "call" and src[1].endswith("::chars") and src[2] == (("arg", 1),):
                        cs = boolsum.charset(boolsum.pred_formula(facts, summ, fv[2][1][1]), facts)
                        okl = (cs & AZ) == 0
                ctx.ob(R("KEYCTOR"), "Lower(_) only under a guard whose character class excludes [A-Z]", okl, fn=KC, site=fn_site(facts, KC), detail="flag = %s" % nshow(flagv)[:120])
                continue
            if r[0] == "ok" and r[1][0] == "agg" and r[1][1][1] == "qualifiers::MixedQualifierKey":
                variant = r[1][1][2]
                valid = [a for a in o["atoms"] if a[0] == "pred" and a[3] is True and a[1] in facts.bodies and a[2] == (("Input", 1),)]
                okvalid = False
                for a in valid:
                    c = boolsum.strpred_canon(summ.summary(a[1]), facts)
                    if c["nonempty"] and c["all"] == VALID_KEY_SET and not c["other"]:
                        okvalid = True
                ctx.ob(R("KEYCTOR"), "%s(_) is produced only after the valid-key guard [0-9A-Za-z._-]+" % variant, okvalid and r[1][2][0] == ("arg", 1), fn=KC, site=fn_site(facts, KC), detail="; ".join(show_canon(a) for a in o["atoms"])[:200])
                if variant == "Lower":
                    AZ = sum(1 << c for c in range(65, 91))
                    # all(P) holds / any(!P) does not hold: every char satisfies P
                    g = [a for a in o["atoms"] if a[0] in ("all", "any") and a[3] is (a[0] == "all") and a[1] == ("Input", 1)]

                    def cls(a):
                        cs = boolsum.charset(boolsum.pred_formula(facts, summ, a[2]), facts)
                        return cs if a[0] == "all" else boolsum.universe() & ~cs
                    okl = any((cls(a) & AZ) == 0 for a in g)
                    ctx.ob(R("KEYCTOR"), "Lower(_) only under a guard whose character class excludes [A-Z]", okl, fn=KC, site=fn_site(facts, KC), detail="; ".join(show_canon(a) for a in g)[:200])
    # ------------------------------------------------------------ KEYCHECK
    callers = {}
    for k, b in facts.bodies.items():
        for bb, t in b.calls():
            if "path" in t["callee"] and callee_name(t["callee"]) == SEARCH:
                callers.setdefault(k, []).append(bb)
    names = sorted(facts.fns.get(k, {}).get("name", k) for k in callers)
    # (which functions search is not part of the invariant: each call site is checked on its own below)
    ctx.ob(R("KEYCHECK"), "the search has call sites, all of them inspected", len(names) >= 1, fn=SEARCH, detail=str(names))
    for k, bbs in callers.items():
        b = facts.body(k)
        for bb in bbs:
            atoms = [models.canon_atom(a) for _, a in atoms_at(b, bb)]
            ok = any((c[0] == "callres" and c[1] in mags and c[-1] in ("Ok?", "Ok")) or (c[0] == "callres" and c[1] == "std::result::Result::<T, E>::ok" and c[-1] in ("Ok?", "Some") and any(m in str(c[2]) for m in mags)) for c in atoms)
            arg = norm(b.resolve_operand(b.term(bb)["args"][1]))
            ctx.ob(R("KEYCHECK"), "%s: the key check succeeded on every path to the search" % facts.fns.get(k, {}).get("name", k), ok, fn=k, site=b.site(bb), detail="; ".join(show_canon(c) for c in atoms)[:200])
    # public methods of Qualifiers touching the Vec with a length-changing or index-taking op must derive the index from get_index/entry
    for (k, bb, p, item, t) in sites:
        f = facts.fns.get(k)
        if not f or f.get("impl_self") != "qualifiers::Qualifiers":
            continue
        if item in ("remove", "index", "index_mut"):
            b = facts.body(k)
            idx = norm(b.resolve_operand(t["args"][1]))
            def from_search(x):
                if x[0] == "phi":
                    return all(from_search(y) for y in x[1])
                if x[0] in ("ok", "err", "some") and x[1][0] == "call":
                    return x[1][1] == SEARCH or facts.fns.get(x[1][1], {}).get("name") == "get_index"
                return False
            ctx.ob(R("KEYCHECK"), "%s: index passed to Vec::%s comes from the search" % (f["name"], item), from_search(idx), fn=k, site=b.site(bb), detail=nshow(idx)[:160])
    # ------------------------------------------------------------ CMP-LOWER
    pc = [k for k, f in facts.fns.items() if f.get("impl_trait_def") == "std::cmp::PartialOrd" and f.get("impl_self") == "qualifiers::QualifierKey" and f.get("name") == "partial_cmp" and not f.get("derived")]
    if len(pc) != 1:
        raise AnchorError("hand-written PartialOrd<S> for QualifierKey not found")
    PC = pc[0]
    t = norm(facts.body(PC).resolve_local(0))
    ok = False
    det = nshow(t)[:240]
    from .lowercase import is_lower_closure

    def cmp_term(x):
        """self.0.chars().cmp(other.chars().flat_map(to_lowercase)): the whole-string comparison against the lower-cased probe"""
        if not (x[0] == "call" and x[1] == "std::iter::Iterator::cmp" and len(x[2]) == 2):
            return False
        a, bb_ = x[2]
        stored = a[0] == "call" and a[1].endswith("::chars") and models.field_path(a[2][0]) == "0"
        probe = bb_[0] == "call" and bb_[1] == "std::iter::Iterator::flat_map" and bb_[2][0][0] == "call" and bb_[2][0][1].endswith("::chars") and bb_[2][0][2][0] == ("arg", 2) and is_lower_closure(facts, bb_[2][1])
        return stored and probe

    def is_equal_const(x):
        while x[0] == "named":
            x = x[3]
        return (x[0] == "enum" and x[1] == "std::cmp::Ordering" and x[2] == "Equal") or (x[0] == "agg" and x[1][1:3] == ("std::cmp::Ordering", "Equal"))

    if t[0] == "agg" and t[1][2] == "Some":
        ok = cmp_term(t[2][0])
    ctx.ob(R("CMP-LOWER"), "partial_cmp = Some(self.0.chars().cmp(other.chars().flat_map(to_lowercase)))", ok, fn=PC, site=fn_site(facts, PC), detail=det)
    # equality of keys (used by the derived PartialEq of Qualifiers / PurlParts / GenericPurl) must be the comparator's equality
    pe = [k for k, f in facts.fns.items() if f.get("impl_trait_def") == "std::cmp::PartialEq" and f.get("impl_self") == "qualifiers::QualifierKey" and f.get("name") == "eq" and not f.get("derived")]
    if len(pe) == 1:
        et = norm(facts.body(pe[0]).resolve_local(0))
        okeq = False
        if et[0] == "call" and et[1].endswith("::unwrap_or_default") and et[2][0][0] == "call" and et[2][0][1] == "std::option::Option::<T>::map":
            src, clo = et[2][0][2]
            if src[0] == "call" and src[1] in (PC, "std::cmp::PartialOrd::partial_cmp") and src[2] == (("arg", 1), ("arg", 2)) and clo[0] == "closure":
                ct = norm(facts.body(clo[1]).resolve_local(0))
                okeq = ct[0] == "call" and ct[1] == "std::cmp::Ordering::is_eq"
        if et[0] == "call" and et[1] == "std::iter::Iterator::eq" and len(et[2]) == 2:
            a, b_ = et[2]
            okeq = a[0] == "call" and a[1].endswith("::chars") and models.field_path(a[2][0]) == "0" and b_[0] == "call" and b_[1] == "std::iter::Iterator::flat_map" and b_[2][0][0] == "call" and b_[2][0][2][0] == ("arg", 2)
        if et[0] == "call" and et[1].endswith("::unwrap_or_default") and et[2][0][0] == "phi":
            # the same with Option::map expanded (inlined view): None -> false, Some(o) -> o.is_eq()
            mem = et[2][0][1]
            somes = [m for m in mem if m[0] == "agg" and m[1][2] == "Some"]
            nones = [m for m in mem if m[0] == "agg" and m[1][2] == "None"]
            if len(somes) == 1 and len(somes) + len(nones) == len(mem):
                v = somes[0][2][0]
                okeq = v[0] == "call" and v[1] == "std::cmp::Ordering::is_eq" and v[2][0][0] == "some" and v[2][0][1][0] == "call" and v[2][0][1][1] in (PC, "std::cmp::PartialOrd::partial_cmp") and v[2][0][1][2] == (("arg", 1), ("arg", 2))
        # the comparison itself (a helper shared with partial_cmp, inlined) tested for Equal
        if et[0] == "call" and et[1] == "std::cmp::Ordering::is_eq" and cmp_term(et[2][0]):
            okeq = True
        if et[0] == "call" and et[1] == "<std::cmp::Ordering as std::cmp::PartialEq>::eq" and len(et[2]) == 2:
            okeq = okeq or (cmp_term(et[2][0]) and is_equal_const(et[2][1])) or (cmp_term(et[2][1]) and is_equal_const(et[2][0]))
        if not okeq and et[0] == "phi":
            # partial_cmp(..).is_some_and(Ordering::is_eq) expanded: None -> false, Some(o) -> o.is_eq()
            mem = list(et[1])
            falses = [m for m in mem if m == ("const", False)]
            rest = [m for m in mem if m != ("const", False)]
            if falses and len(rest) == 1:
                v = rest[0]
                okeq = v[0] == "call" and v[1] == "std::cmp::Ordering::is_eq" and ((v[2][0][0] == "some" and v[2][0][1][0] == "call" and v[2][0][1][1] in (PC, "std::cmp::PartialOrd::partial_cmp") and v[2][0][1][2] == (("arg", 1), ("arg", 2))) or cmp_term(v[2][0]))
        if not okeq:
            # matches!(self.partial_cmp(other), Some(Ordering::Equal)) and its spellings: true exactly on the path where the
            # comparator returned Some(Equal)
            eb_ = facts.body(pe[0])
            rets = [(bb, n) for (bb, n) in models.returns(eb_)]
            if rets and all(n[0] == "const" and isinstance(n[1], bool) for _, n in rets) and not eb_.back_edges():
                trues = [bb for bb, n in rets if n[1] is True]
                pcalls = [bb for bb, tt in eb_.calls() if callee_name(tt["callee"]) in (PC, "std::cmp::PartialOrd::partial_cmp")]
                if len(trues) == 1 and len(pcalls) == 1 and [norm(eb_.resolve_operand(a)) for a in eb_.term(pcalls[0])["args"]] == [("arg", 1), ("arg", 2)]:
                    at = [models.canon_atom(a) for _, a in atoms_at(eb_, trues[0])]
                    some = any(a[0] == "callres" and a[1] in (PC, "std::cmp::PartialOrd::partial_cmp") and a[-1] == "Some" for a in at)
                    equal = any(a[0] == "is" and a[-1] == "Equal" and "partial_cmp" in str(a[1]) for a in at)
                    others = [a for a in at if not (a[0] == "callres" and a[-1] == "Some") and not (a[0] == "is" and a[-1] == "Equal")]
                    # every other return is false: nothing else can yield true
                    okeq = some and equal and not others
        ctx.ob(R("CMP-LOWER"), "QualifierKey == S  is  partial_cmp(..) == Some(Equal)  (whole-string, case-insensitive; no prefix or length shortcut)", okeq, fn=pe[0], site=fn_site(facts, pe[0]), detail=nshow(et)[:200])
    elif pe:
        ctx.ob(R("CMP-LOWER"), "one hand-written PartialEq<S> for QualifierKey", False, detail=str(pe))
    else:
        der = [im for im in facts.impls if im.get("self_adt") == "qualifiers::QualifierKey" and im.get("trait_def") == "std::cmp::PartialEq" and im["derived"]]
        ctx.ob(R("CMP-LOWER"), "QualifierKey equality is hand-written over partial_cmp or derived", bool(der), detail="")
    sclos = facts.closures_of(SEARCH)
    oks = False
    if len(sclos) == 1:
        ct = norm(facts.body(sclos[0]).resolve_local(0))
        oks = (ct[0] == "call" and ct[1].endswith("::unwrap") and ct[2][0][0] == "call" and ct[2][0][1] in (PC, "std::cmp::PartialOrd::partial_cmp")) \
            or (ct[0] == "some" and ct[1][0] == "call" and ct[1][1] in (PC, "std::cmp::PartialOrd::partial_cmp"))   # unwrap() reads as the Some payload
        st = norm(facts.body(SEARCH).resolve_local(0))
        oks = oks and st[0] == "call" and st[1].endswith("::binary_search_by") and models.field_path(st[2][0]) == fname
    ctx.ob(R("CMP-LOWER"), "search = self.%s.binary_search_by(|(qk, _)| qk.partial_cmp(&key).unwrap())" % fname, oks, fn=SEARCH, site=fn_site(facts, SEARCH), detail="")
    # ------------------------------------------------------------ KEYREF
    bad = []
    nsig = 0
    for k, f in facts.fns.items():
        if not f.get("reachable"):
            continue
        nsig += 1
        sig = " ".join(f["inputs"]) + " -> " + f["output"]
        for pat in ("&mut qualifiers::QualifierKey", "&mut (qualifiers::QualifierKey", "&mut std::vec::Vec<(qualifiers::QualifierKey", "&'a mut qualifiers::QualifierKey", "&'a mut (qualifiers::QualifierKey"):
            if pat in f["output"]:
                bad.append((k, pat))
    ctx.ob(R("KEYREF"), "no reachable signature returns a mutable reference to a key, a pair or the Vec", not bad, detail="%d reachable signatures inspected; offending: %s" % (nsig, bad))
    for im in facts.impls:
        if im.get("self_adt") == "qualifiers::QualifierKey" and im.get("trait_def") in ("std::ops::DerefMut", "std::convert::AsMut", "std::borrow::BorrowMut"):
            ctx.ob(R("KEYREF"), "no %s impl on QualifierKey" % im["trait_def"], False, fn=im["path"], detail="")
    qk = facts.adts.get("qualifiers::QualifierKey")
    ctx.ob(R("KEYREF"), "QualifierKey's field is private", qk is not None and all(f["vis"] != "pub" for f in qk["variants"][0]["fields"]), fn="qualifiers::QualifierKey", detail="")
    # IterMut yields (&QualifierKey, &mut SmallString)
    for k, f in facts.fns.items():
        if f.get("impl_self", "").startswith("qualifiers::IterMut<") and f.get("name") in ("next", "next_back"):
            out = facts.body(k).locals[0]["ty"]
            ctx.ob(R("KEYREF"), "IterMut::%s yields (&QualifierKey, &mut value)" % f["name"], "(&'a qualifiers::QualifierKey, &'a mut " in out or "(&qualifiers::QualifierKey, &mut " in out, fn=k, site=fn_site(facts, k), detail=out)


def rule_invariant(ctx):
    invariant_obligations(ctx, ctx.facts())


def rule_dup(ctx):
    facts = ctx.facts()
    ks = [k for k, f in facts.fns.items() if f.get("name") == "try_from_iter" and f.get("impl_self") == "qualifiers::Qualifiers"]
    if len(ks) != 1:
        raise AnchorError("Qualifiers::try_from_iter not found")
    rows = [r for r in models.rejections(facts, ks[0]) if r["kind"] == "err"]
    ok = len(rows) == 1 and rows[0]["error"] == "ParseError::InvalidQualifier" and any(t[0] == "is" and t[-1] == "Occupied" for t in rows[0]["triggers"])
    ctx.ob("DUP", "try_from_iter refuses a key that is already present (Occupied) with InvalidQualifier", ok, fn=ks[0], site=fn_site(facts, ks[0]), detail="; ".join("%s when %s" % (r["error"], [show_canon(t)[:80] for t in r["triggers"]]) for r in rows))
    bs = models.body_summary(facts, ks[0])
    ins = [e for e in bs["effects"] if e["path"].startswith("qualifiers::VacantEntry") and e["path"].endswith("::insert")]
    ctx.ob("DUP", "try_from_iter inserts only through a vacant entry", len(ins) == 1 and any(c[0] == "is" and c[-1] == "Vacant" for c in ins[0]["catoms"]), fn=ks[0], detail="")


def rule_derives(ctx):
    facts = ctx.facts()
    for tr in ("std::cmp::PartialEq", "std::cmp::Eq", "std::hash::Hash", "std::cmp::PartialOrd", "std::cmp::Ord"):
        ims = [im for im in facts.impls if im.get("self_adt") == "qualifiers::Qualifiers" and im.get("trait_def") == tr]
        ctx.ob("DERIVES", "%s for Qualifiers is derived" % tr.split("::")[-1], len(ims) == 1 and ims[0]["derived"], fn="qualifiers::Qualifiers", detail=str([(im["path"], im["derived"]) for im in ims]))
    for tr in ("std::cmp::Eq", "std::hash::Hash", "std::cmp::Ord"):
        ims = [im for im in facts.impls if im.get("self_adt") == "qualifiers::QualifierKey" and im.get("trait_def") == tr]
        ctx.ob("DERIVES", "%s for QualifierKey is derived" % tr.split("::")[-1], len(ims) == 1 and ims[0]["derived"], fn="qualifiers::QualifierKey", detail="")


def rule_witness(ctx):
    if ctx.tier == 'thorough':
        from . import witness
        witness.run_witnesses(ctx)


THOROUGH_FS = ["pt", "none", "serde"]

RULES = [
    ("WITNESS", rule_witness, 0),
    # floors: what a minimal correct implementation still yields (one insertion site, one search call site ...), not the
    # count on today's tree -- merging two insertion paths into one must not look like a lost anchor
    ("MUTATORS", rule_invariant, 25),
    ("IDX", lambda ctx: None, 12),
    ("KEYCTOR", lambda ctx: None, 5),
    ("KEYCHECK", lambda ctx: None, 3),
    ("CMP-LOWER", lambda ctx: None, 3),
    ("KEYREF", lambda ctx: None, 4),
    ("DUP", rule_dup, 2),
    ("DERIVES", rule_derives, 4),
]

MANIFEST = {
    "text": "Static decision that no operation sequence can break the representation invariant (strictly ascending, valid lower-case keys): whole-crate whitelist of calls on the key/value Vec, provenance of every insertion index from the binary search for the key being inserted, single construction sites of keys and entry objects with their guards (char-class translated), key check dominating every search, comparator lower-casing the probe, no mutable exposure of keys, derived Eq/Hash/Ord. This is a necessary condition of every clause of C11; returned values are NOT decided.",
    "note": "Trusted: rustc (borrowck, privacy, MIR), extractor, semantics of binary_search_by / Vec::insert / retain. Clause-limited: functional equivalence with a reference map (returned values, Entry combinators) is not decided.",
    "technique": "who-may-call whitelist over resolved call sites; index/key provenance by origin resolution; constructor-site and guard analysis; signature scan",
    "design_ref": "DESIGN.md 5.11",
}
