"""C04 -- every PURL value handed out is valid and normalised (DESIGN.md 5.4)."""
from purlsa.core import AnchorError, strip
from purlsa.sem import norm, nshow
from purlsa import models, boolsum
from purlsa.models import show_canon
from .common import fn_site, VALID_TYPE_SET

LEVEL = "other"
EXPLANATION = (
    "Static decision of the gatekeeping structure that makes the invariants hold for every input, call sequence and PurlShape implementation: "
    "the only non-derived construction of GenericPurl is in build(), in the block that returns Ok; GenericPurl exposes no mutable access to its "
    "private fields; build() is a dominance chain finish -> name test -> retain(non-empty) -> checksum canonicalisation -> construction with no other "
    "write to the parts after the hook; the retain predicate and the name guard are summarised; the qualifier representation invariant (C11 rules) and "
    "the checksum serialiser summary (C12 rules) are re-checked here; the built-in shapes establish a valid lower-case type."
)
RULE_TEXT = "obligations = construction sites, exposure (fields, signatures, trait impls), stage order by dominance, post-hook write set, guard and predicate summaries, re-used invariant rules of C11/C12/C13/C15"
ASSUMPTIONS = [
    "Vec::retain keeps exactly the elements for which the predicate is true, preserving order",
    "a user-supplied finish may write anything into the parts: nothing is assumed about it",
]
TRUSTED_BASE = ["callee semantics table (DESIGN.md section 3)", "Rust privacy and borrow checking (rustc)"]


def rule_construct(ctx):
    facts = ctx.facts()
    bm = models.builder_model(facts)
    sites = models.aggregates_of(facts, "GenericPurl")
    nonderived = []
    for (k, bb, line) in sites:
        root = facts.bodies[k].j.get("root", k)
        f = facts.fns.get(root, {})
        if f.get("derived"):
            ctx.ob("CONSTRUCT", "derived impl constructs GenericPurl from an existing one: %s" % f.get("impl_trait", "?"), f.get("impl_trait_def") in ("std::clone::Clone",), fn=k, site="%s:%s" % (facts.bodies[k].file(), line), detail="automatically_derived impl")
        else:
            nonderived.append((k, bb, line))
    ok = len(nonderived) == 1 and nonderived[0][0] == bm["key"]
    ctx.ob("CONSTRUCT", "the only non-derived construction of GenericPurl is in GenericPurlBuilder::build", ok, fn=bm["key"], site=fn_site(facts, bm["key"]), detail="construction sites: %s" % [(k, l) for k, _, l in nonderived])
    if ok:
        body = bm["body"]
        bb = nonderived[0][1]
        oks = [r for r in bm["rejections"] if r["kind"] == "ok"]
        inok = len(oks) == 1 and oks[0]["bb"] == bb and oks[0]["payload"][0] == "agg"
        ctx.ob("CONSTRUCT", "the construction is the payload of the single Ok return", inok, fn=bm["key"], site=body.site(bb), detail="")
    # serde Deserialize etc. must go through from_str: any fn returning GenericPurl other than build/clone
    # (checked through the aggregate search above: no other aggregate exists)


def rule_expose(ctx):
    facts = ctx.facts()
    adt = facts.adts.get("GenericPurl")
    if not adt:
        raise AnchorError("ADT GenericPurl not found")
    for f in adt["variants"][0]["fields"]:
        ctx.ob("EXPOSE", "field GenericPurl.%s is private" % f["name"], f["vis"] not in ("pub",) and not f["vis"].startswith("restricted:") or f["vis"] == "crate" or f["vis"].startswith("restricted"), fn="GenericPurl", detail="visibility %s" % f["vis"])
        ctx.ob("EXPOSE", "field GenericPurl.%s is not pub" % f["name"], f["vis"] != "pub", fn="GenericPurl", detail="visibility %s" % f["vis"])
    n = 0
    for k, f in facts.fns.items():
        if not f.get("impl_self", "").startswith("GenericPurl<"):
            continue
        if f.get("derived"):
            continue
        n += 1
        ins = f["inputs"]
        out = f["output"]
        mut_self = bool(ins) and ins[0].startswith("&mut ") and "GenericPurl<" in ins[0]
        mut_out = "&mut" in out or "*mut" in out
        ctx.ob("EXPOSE", "%s takes no &mut self and returns no mutable reference" % f["name"], not mut_self and not mut_out, fn=k, site=fn_site(facts, k), detail="(%s) -> %s" % (", ".join(ins), out))
    for im in facts.impls:
        if im.get("self_adt") == "GenericPurl" and im.get("trait_def") in ("std::ops::DerefMut", "std::convert::AsMut", "std::borrow::BorrowMut", "std::ops::IndexMut", "std::ops::Deref"):
            ctx.ob("EXPOSE", "no %s impl on GenericPurl" % im["trait_def"], False, fn=im["path"], detail="would hand out access to the validated storage")
    ctx.ob("EXPOSE", "no DerefMut/AsMut/BorrowMut/IndexMut impl on GenericPurl", True, fn="GenericPurl", detail="%d impls inspected, %d methods" % (len(facts.impls), n))
    # into_builder consumes self
    ks = [k for k, f in facts.fns.items() if f.get("name") == "into_builder" and f.get("impl_self", "").startswith("GenericPurl<")]
    if len(ks) == 1:
        f = facts.fns[ks[0]]
        ctx.ob("EXPOSE", "into_builder consumes self", f["inputs"] and f["inputs"][0].startswith("GenericPurl<"), fn=ks[0], site=fn_site(facts, ks[0]), detail=str(f["inputs"]))


def rule_order(ctx):
    facts = ctx.facts()
    bm = models.builder_model(facts)
    body = bm["body"]
    key = bm["key"]
    st = bm["stages"]
    one = lambda name, lst: ctx.ob("BM-ORDER", "exactly one %s site in build()" % name, len(lst) == 1, fn=key, site=fn_site(facts, key), detail="found %d" % len(lst))  # noqa: E731
    ok = all([
        one("finish (S1)", st["S1"]),
        one("empty-name refusal (S2)", st["S2"]),
        one("retain (S3)", st["S3"]),
        one("checksum get (S4)", st["S4get"]),
        one("checksum serialise (S4)", st["S4ser"]),
        one("checksum insert (S4)", st["S4ins"]),
        one("Ok return (S5)", st["S5"]),
    ])
    if not ok:
        return
    s1 = st["S1"][0]["bb"]
    s2 = [gb for gb, c in st["S2"][0]["gatoms"]][-1] if st["S2"][0]["gatoms"] else None
    # the block that tests the name: the predecessor switch of the error block
    trig_blocks = [p for p, c in models.edge_triggers(body, st["S2"][0]["bb"])]
    s2 = trig_blocks[0] if len(trig_blocks) == 1 else None
    s3 = st["S3"][0]["bb"]
    s4g = st["S4get"][0]["bb"]
    s4s = st["S4ser"][0]["bb"]
    s4i = st["S4ins"][0]["bb"]
    s5 = st["S5"][0]["bb"]
    chain = [("finish", s1), ("name test", s2), ("retain", s3), ("checksum get", s4g), ("Ok construction", s5)]
    for (na, a), (nb, b) in zip(chain, chain[1:]):
        ctx.ob("BM-ORDER", "%s dominates %s" % (na, nb), a is not None and b is not None and a != b and body.dominates(a, b), fn=key, site=body.site(b) if b is not None else "", detail="bb%s -> bb%s" % (a, b))
    ctx.ob("BM-ORDER", "checksum get dominates serialise dominates insert", body.dominates(s4g, s4s) and body.dominates(s4s, s4i), fn=key, site=body.site(s4i), detail="bb%d bb%d bb%d" % (s4g, s4s, s4i))
    ctx.ob("BM-ORDER", "no stage is inside a loop", not body.loops(), fn=key, detail="loops: %d" % len(body.loops()))
    # the hook's `?` Continue edge dominates everything after
    s2atoms = [c for c in (models.canon_atom(a) for _, a in __import__("purlsa.sem", fromlist=["atoms_at"]).atoms_at(body, s2))] if s2 is not None else []
    ctx.ob("BM-ORDER", "the name test runs only after finish returned Ok", any(c[0] == "callres" and c[1] == "PurlShape::finish" and c[-1] in ("Ok?", "Ok") for c in s2atoms), fn=key, site=body.site(s2) if s2 is not None else "", detail="; ".join(show_canon(c) for c in s2atoms))
    # finish receives &mut self.package_type and &mut self.parts
    a = st["S1"][0]["args"]
    ctx.ob("BM-ORDER", "finish(&mut self.package_type, &mut self.parts)", len(a) == 2 and models.field_path(a[0]) == "package_type" and models.field_path(a[1]) == "parts", fn=key, site=st["S1"][0]["site"], detail=", ".join(nshow(x) for x in a))
    # the only finish call site in the crate
    allfin = []
    for k, b in facts.bodies.items():
        for bb, t in b.calls(include_cleanup=True):
            if t["callee"].get("path") == "PurlShape::finish" or (t["callee"].get("trait") == "PurlShape" and t["callee"].get("item") == "finish"):
                allfin.append((k, bb))
    ctx.ob("BM-ORDER", "build() holds the only PurlShape::finish call site of the crate", allfin == [(key, s1)], fn=key, detail=str(allfin))
    # post-hook write set: after S1 the only effects on self are S3 and S4ins
    allowed = {s1, s3, s4i}
    extra = [e for e in bm["effects"] if e["bb"] not in allowed and e["target"][0] == "arg"]
    ctx.ob("BM-ORDER", "no other mutable access to self.parts / self.package_type in build()", not extra, fn=key, detail="; ".join("%s on %s" % (e["path"], e["target"]) for e in extra))
    # a direct store to namespace / version / subpath cannot break an invariant of this property (the accessors filter empty
    # strings, EXPOSE); one to the name, the qualifiers or the type can bypass the guard, the clean-ups or the hook
    from .common import build_direct_writes
    harmless = ("parts.namespace", "parts.version", "parts.subpath")
    pw = [(b, f) for (b, f) in build_direct_writes(body) if f not in harmless]
    ctx.ob("BM-ORDER", "no direct store into name, qualifiers or type in build()", not pw, fn=key, detail=str([f for _, f in pw]))
    # S5 payload moves exactly the two fields
    pay = st["S5"][0]["payload"]
    okp = pay[0] == "agg" and pay[1][1] == "GenericPurl" and [models.field_path(x) for x in pay[2]] == ["package_type", "parts"] and pay[1][3] == ("package_type", "parts")
    ctx.ob("BM-ORDER", "the result is GenericPurl { package_type: self.package_type, parts: self.parts }", okp, fn=key, site=st["S5"][0]["site"], detail=nshow(pay))
    # S4: the inserted key is Checksum::KEY and the value the serialiser's Ok payload of the typed get
    ins = st["S4ins"][0]
    kterm = ins["args"][1]
    keyc = kterm[0] in ("named", "const") and ("checksum" == (kterm[3] if kterm[0] == "named" else kterm[1]) or (kterm[0] == "named" and kterm[1].endswith("KnownQualifierKey::KEY")))
    vterm = ins["args"][2]
    while vterm[0] == "conv":
        vterm = vterm[1]
    okv = vterm[0] == "ok" and vterm[1][0] == "call" and vterm[1][1] == st["S4ser"][0]["path"]
    src = vterm[1][2][0] if okv else None
    oks = okv and src[0] == "some" and src[1][0] == "ok" and src[1][1][0] == "call" and src[1][1][1].endswith("try_get_typed")
    ctx.ob("BM-ORDER", "S4 re-inserts serialise(typed checksum) under the checksum key", keyc and okv and oks, fn=key, site=ins["site"], detail="key=%s value=%s" % (nshow(kterm)[:60], nshow(vterm)[:160]))
    gt = facts.body(key).term(s4g)["callee"].get("args", [])
    ctx.ob("BM-ORDER", "the typed get is instantiated for Checksum", any("Checksum" in a for a in gt), fn=key, site=body.site(s4g), detail=str(gt))


def rule_guards(ctx):
    facts = ctx.facts()
    bm = models.builder_model(facts)
    key = bm["key"]
    body = bm["body"]
    st = bm["stages"]
    if len(st["S2"]) != 1 or len(st["S3"]) != 1:
        raise AnchorError("stages S2/S3 not unique", key)
    r = st["S2"][0]
    ok = r["error"] == "ParseError::MissingRequiredField(PurlField::Name)" and r["triggers"] == [("empty", ("Field", "arg1.parts.name"), True)]
    ctx.ob("NAME-GUARD", "empty parts.name -> Err(T::Error::from(MissingRequiredField(Name)))", ok, fn=key, site=r["site"], detail="%s when %s" % (r["error"], "; ".join(show_canon(t) for t in r["triggers"])))
    e = st["S3"][0]
    ctx.ob("RETAIN-PRED", "retain is applied to self.parts.qualifiers", e["target"] == ("arg", 1, "parts.qualifiers"), fn=key, site=e["site"], detail=str(e["target"]))
    clo = e["args"][1]
    summ = boolsum.Summarizer(facts)
    if clo[0] != "closure":
        raise AnchorError("retain argument is not a local closure", key)
    f = summ.summary(clo[1])
    # closure params: env, key, value  -> value is arg3
    okf = f[0] == "not" and f[1][0] == "p" and f[1][1].endswith("is_empty") and norm(f[1][2][0]) == ("arg", 3)
    ctx.ob("RETAIN-PRED", "retain predicate = |_, v| !v.is_empty()", okf, fn=clo[1], site=fn_site(facts, key), detail=boolsum.show_formula(f))
    # Qualifiers::retain forwards to Vec::retain with f(&q.0, &q.1)
    rk = e["path"]
    rb = facts.body(rk)
    calls = [(bb, t) for bb, t in rb.calls() if models.callee_name(t["callee"]).endswith("Vec::<T, A>::retain")]
    okr = len(calls) == 1
    det = ""
    if okr:
        clos = facts.closures_of(rk)
        okr = len(clos) == 1
        if okr:
            cb = facts.body(clos[0])
            t = norm(cb.resolve_local(0))
            det = nshow(t)
            # call_mut(f, (&q.0, &q.1))
            okr = t[0] == "call" and t[1] == "std::ops::FnMut::call_mut" and t[2][1][0] == "agg" and [x[0] == "field" and x[2] for x in t[2][1][2]] == ["0", "1"]
    ctx.ob("RETAIN-PRED", "Qualifiers::retain = Vec::retain(|q| f(&q.0, &q.1))", okr, fn=rk, site=fn_site(facts, rk), detail=det[:200])


def rule_typevalid(ctx, rule="TYPE-VALID", alphabet=True):
    facts = ctx.facts()
    # built-in string shapes: finish refuses !valid_type and lower-cases (details in C13); PackageType names valid (C15)
    from . import C13
    C13.sibling_obligations(ctx, facts, rule=rule)
    if alphabet:
        # .. and what they validate with is the alphabet the property names ("made only of letters, digits, '.', '+', '-'")
        from .common import type_alphabet_obligation
        type_alphabet_obligation(ctx, facts, rule)
    if "package_type::PackageType::name" in facts.bodies:
        from . import C15
        C15.name_table_obligations(ctx, facts, rule=rule)


def rule_qminv(ctx):
    from . import C11
    facts = ctx.facts()
    C11.invariant_obligations(ctx, facts, rule="QM-INV")


def rule_cmcanon(ctx):
    from . import C12
    facts = ctx.facts()
    C12.serializer_obligations(ctx, facts, rule="CM-CANON", scope="parsed")


def rule_witness(ctx):
    if ctx.tier == 'thorough':
        from . import witness
        witness.run_witnesses(ctx)


RULES = [
    ("WITNESS", rule_witness, 0),
    ("CONSTRUCT", rule_construct, 2),
    ("EXPOSE", rule_expose, 10),
    ("BM-ORDER", rule_order, 12),
    ("NAME-GUARD", rule_guards, 1),
    ("RETAIN-PRED", lambda ctx: None, 3),
    ("TYPE-VALID", rule_typevalid, 4),
    ("QM-INV", rule_qminv, 8),
    ("CM-CANON", rule_cmcanon, 4),
]

MANIFEST = {
    "text": "Static decision of the gatekeeping structure: single construction site of GenericPurl (MIR aggregate search), no mutable exposure (HIR visibilities, signatures, trait impls), build() stage order by dominance with a post-hook write whitelist, guard/predicate summaries, plus the representation-invariant rules of the qualifier map and the checksum serialiser. Because every GenericPurl passes through build() after the hook, the invariants hold for every input, call sequence and PurlShape implementation. The type predicate the built-in shapes validate with admits exactly [0-9A-Za-z.+-] (computed alphabet).",
    "note": "Trusted: rustc (privacy, borrowck, MIR), extractor, callee semantics of Vec::retain / binary search. Nothing is assumed about user finish hooks. Not decided: value-level behaviour of dependencies.",
    "technique": "who-may-construct / who-may-mutate rules over MIR aggregates and HIR signatures; dominance chain over build() stages; effect (write-set) analysis; boolean summaries",
    "design_ref": "DESIGN.md 5.4",
}
