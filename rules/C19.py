"""C19 -- equality, hashing and ordering agree with the canonical string (DESIGN.md 5.19)."""
from purlsa.core import AnchorError
from purlsa import models
from .common import fn_site
from . import agree, C11, C15

LEVEL = "other"
EXPLANATION = (
    "Static decision in two parts. DERIVE: GenericPurl, PurlParts, Qualifiers and PackageType have PartialEq, Eq, Hash, PartialOrd and Ord all as "
    "automatically-derived impls (HIR attribute), so equality, hash and order are structural over the same field list, mutually consistent and total; "
    "QualifierKey's derived Eq/Hash/Ord coincide with its hand-written case-insensitive comparisons on lower-case keys, which is the key-construction "
    "invariant of C11 (re-checked here). INJECTIVITY: Display is injective on the parts - the agreement simulation over the builder domain shows that every "
    "separator position is determined by the emitted string alone and '%' is escaped in every component, so equal strings imply equal component texts; the "
    "converse is trivial because Display reads only package_type() and the parts. For PackageType the type component is injective by the name table."
)
RULE_TEXT = "obligations = per (type, trait): derived; field lists; key invariant obligations; agreement (injectivity) obligations; name-table bijection"
ASSUMPTIONS = [
    "derived PartialEq/Eq/Hash/PartialOrd/Ord are structural and lexicographic over the fields in declaration order (rustc derive semantics)",
    "String / Cow<str> / SmartString compare and hash as str; hash VALUES are not decided, only consistency",
]
TRUSTED_BASE = ["rustc built-in derives", "callee semantics table (DESIGN.md section 3)"]

TRAITS = ("std::cmp::PartialEq", "std::cmp::Eq", "std::hash::Hash", "std::cmp::PartialOrd", "std::cmp::Ord")


def rule_derive(ctx):
    facts = ctx.facts()
    types = ["GenericPurl", "PurlParts", "qualifiers::Qualifiers"]
    if "package_type::PackageType" in facts.adts:
        types.append("package_type::PackageType")
    for ty in types:
        for tr in TRAITS:
            ims = [im for im in facts.impls if im.get("self_adt") == ty and im.get("trait_def") == tr]
            ok = len(ims) == 1 and ims[0]["derived"]
            ctx.ob("DERIVE", "%s: %s is derived" % (ty.split("::")[-1], tr.split("::")[-1]), ok, fn=ty, site="%s:%s" % (ims[0]["span"]["file"], ims[0]["span"]["line"]) if ims else "", detail=str([(im["trait"], im["derived"]) for im in ims]))
    # no field is skipped: derived impls range over all fields (structural); field lists
    gp = facts.adts["GenericPurl"]["variants"][0]["fields"]
    ctx.ob("DERIVE", "GenericPurl = { package_type, parts }", [f["name"] for f in gp] == ["package_type", "parts"], fn="GenericPurl", detail=str([f["name"] for f in gp]))
    # hand-written impls on QualifierKey coincide with the derived ones on lower-case keys
    C11.invariant_obligations(ctx, facts, rule="KEY-INV")


def rule_injective(ctx):
    nq = 2 if ctx.tier == "quick" else 3
    m = agree.run_agree(ctx, "AGREE-INJ", "builder", nq, reference_parser=True)
    # the type token is written raw: injective only if the type predicate admits no separator / nothing needing an escape
    from .common import raw_type_alphabet_obligation
    raw_type_alphabet_obligation(ctx, ctx.facts(), "AGREE-INJ")
    facts = ctx.facts()
    # converse: Display reads only package_type() and the parts (through accessors / the qualifiers field)
    body = m.fm["body"]
    reads = set()
    for bb, t in body.calls():
        for a in t["args"]:
            n = models.norm(body.resolve_operand(a))
            fp = models.field_path(n)
            if fp:
                reads.add(fp)
    ctx.ob("AGREE-INJ", "Display reads no state other than the type and the parts", reads <= {"parts.qualifiers", "parts", "package_type"}, fn=m.fm["key"], detail=str(sorted(reads)))
    if "package_type::PackageType" in facts.adts:
        C15.name_table_obligations(ctx, facts, rule="TYPE-INJ")


RULES = [
    ("DERIVE", rule_derive, 16),
    ("KEY-INV", lambda ctx: None, 40),
    ("AGREE-INJ", rule_injective, 11),
    ("TYPE-INJ", lambda ctx: None, 7),
]

MANIFEST = {
    "text": "Static decision: all five comparison traits of GenericPurl, PurlParts, Qualifiers and PackageType are compiler-derived over the same fields (structural, consistent, total); the qualifier-key invariant makes the hand-written case-insensitive comparisons coincide with the derived ones; Display is injective on the parts by the agreement simulation over the builder domain (every separator position determined by the string, '%' escaped everywhere), and reads nothing but the type and the parts. Injectivity of the raw type token rests on the computed type alphabet (no separator, nothing that needs escaping).",
    "note": "Trusted: rustc derive semantics, MIR/HIR extraction, callee semantics of encoding. Hash values are not decided, only consistency of equality/hash/order.",
    "technique": "HIR automatically_derived attribute check over a (type x trait) table; representation-invariant rules; agreement simulation as an injectivity argument",
    "design_ref": "DESIGN.md 5.19",
}
