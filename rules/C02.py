"""C02 -- parsing recovers exactly the components of any legal spelling (DESIGN.md 5.2)."""
from purlsa.core import AnchorError, strip
from purlsa.sem import norm, nshow, fmt_pieces
from purlsa import models, boolsum
from purlsa.models import show_canon, show_region
from . import faults
from .common import VALID_TYPE_SET, VALID_KEY_SET, fn_site

LEVEL = "other"
EXPLANATION = (
    "Static decision that the parser IS the grammar the property states: the parser model (region term of every sink, computed by term dataflow "
    "over the loop-free MIR of from_str; segment-loop and qualifier-loop summaries of the helpers found by role) equals the reference grammar "
    "table (strip `pkg:`, trim leading '/', rsplit '#', rsplit '?', type at first '/', rsplit '@', rsplit '/'; per-segment skip sets; '&' items, first '='); "
    "every decoded sink passes through the strict decoder after its last split, the type and the qualifier key do not; the two alphabets are computed "
    "by char-class translation; the rejection lists contain no row beyond the fault table of C05 (no additional refusal of a legal spelling)."
)
RULE_TEXT = "obligations = per sink: region term and decoding discipline equal R-GRAMMAR; per loop: item region, skip set, key/value regions; per predicate: alphabet; per extracted rejection row: present in R-FAULT"
ASSUMPTIONS = [
    "str::rsplit_once / split_once split at the last / first occurrence, None iff absent; str::split yields all pieces; trim_start_matches / trim_matches remove maximal runs",
    "percent_decode_str accepts %XX with either hex case and leaves any other '%' literal",
    "value-level equality of the recovered components follows from these obligations only under the callee semantics table; the independent left-to-right recogniser named in the quantifier is a dynamic oracle and is not reproduced",
]
TRUSTED_BASE = ["callee semantics table (DESIGN.md section 3)"]


def rule_grammar(ctx):
    facts = ctx.facts()
    pm = models.parser_model(facts)
    rl = faults.roles(facts, pm)
    key = pm["key"]
    body = pm["body"]
    G = faults.R_GRAMMAR
    # field sinks
    want_field = {"subpath": "subpath", "version": "version", "namespace": "namespace", "name": "name"}
    for comp, fld in want_field.items():
        sinks = pm["sinks"].get(fld, [])
        how, reg = G[comp]
        ok = len(sinks) == 1 and sinks[0]["region"] == reg
        det = "; ".join("%s via %s" % (show_region(s["region"]), s["via"]) for s in sinks) or "no store"
        ctx.ob("GRAMMAR", "%s <- %s of %s" % (comp, how, show_region(reg)), ok, fn=key, site=sinks[0]["site"] if sinks else fn_site(facts, key), detail="extracted: " + det)
        if ok:
            s = sinks[0]
            if how == "strict decode":
                ctx.ob("DECODE-ALL", "%s passes through the strict decoder after its last split" % comp, s["decoded"] and s["via"] == rl.get("decoder"), fn=key, site=s["site"], detail="via %s" % s["via"])
            else:
                ctx.ob("GRAMMAR", "%s is produced by the segment decoder for that region" % comp, s["via"] == rl.get(comp + "-decoder"), fn=key, site=s["site"], detail="via %s" % s["via"])
    other_fields = [f for f in pm["sinks"] if f not in want_field.values()]
    ctx.ob("GRAMMAR", "no other field of the parts is written by the parser directly", not other_fields, fn=key, detail="extra stores: %s" % other_fields)
    # parts start from Default
    init = pm["parts_init"]
    ctx.ob("GRAMMAR", "parts start as PurlParts::default()", init[0] == "call" and init[1].endswith("Default>::default") and not init[2], fn=key, detail=nshow(init))
    # qualifiers
    qd = rl.get("qualifier-decoder")
    ctx.ob("GRAMMAR", "qualifiers <- qualifier-decoder of %s" % show_region(faults.QUAL), qd is not None, fn=key, detail="callee receiving that region and &mut parts: %s" % qd)
    # type
    tcalls = [c for c in pm["calls"] if c["path"] == "std::str::FromStr::from_str"]
    ok = len(tcalls) == 1 and models._region(tcalls[0]["args"][0]) == faults.TYPE
    ctx.ob("GRAMMAR", "type <- T::from_str of the raw region %s" % show_region(faults.TYPE), ok, fn=key, site=tcalls[0]["site"] if tcalls else "", detail="; ".join(show_region(models._region(c["args"][0])) for c in tcalls))
    ctx.ob("DECODE-ALL", "the type substring is NOT percent-decoded or re-cased before T::from_str", ok, fn=key, site=tcalls[0]["site"] if tcalls else "", detail="argument is a plain region of the input")
    # the builder receives the converted type and the parts
    tails = [r for r in pm["returns"] if r["cls"][0] == "tail"]
    okb = False
    det = ""
    if len(tails) == 1:
        ct = tails[0]["cls"][1]
        det = nshow(ct)[:200]
        if ct[1] == rl["build"] and ct[2][0][0] == "agg":
            ops = ct[2][0][2]
            okb = ops[0][0] == "ok" and ops[0][1][0] == "call" and ops[0][1][1] == "std::str::FromStr::from_str" and ops[1][0] == "var" and ops[1][1] == pm["parts_local"]
    ctx.ob("GRAMMAR", "result = GenericPurlBuilder { T::from_str(TYPE)?, parts }.build()", okb, fn=key, site=tails[0]["site"] if tails else "", detail=det)


def rule_segments(ctx):
    facts = ctx.facts()
    pm = models.parser_model(facts)
    rl = faults.roles(facts, pm)
    spec = {"subpath": {"", ".", ".."}, "namespace": {""}}
    for comp, want_skip in spec.items():
        key = rl.get(comp + "-decoder")
        if not key:
            raise AnchorError("no %s decoder" % comp)
        bs = models.body_summary(facts, key)
        body = bs["body"]
        loops = bs["loops"]
        if len(loops) != 1:
            raise AnchorError("%s decoder: expected one Iterator::next loop" % comp, key)
        h, (nb, it, npath) = next(iter(loops.items()))
        item = models._region(("some", ("call", npath, (it,), nb)))
        ctx.ob("GRAMMAR", "%s: segments = split('/') of the region (ends trimmed or empty segments skipped)" % comp, item == faults.SEG, fn=key, site=body.site(nb), detail=show_region(item))
        # skip set and decode, read off the append
        apps = []
        for e in bs["effects"]:
            if e["path"] == "std::fmt::Write::write_fmt":
                pieces = fmt_pieces(e["raw"][1])
                if pieces and len(pieces) == 1 and pieces[0][0] == "display":
                    apps.append((e, models._region(norm(pieces[0][1]))))
            elif e["path"].endswith("::push_str"):
                apps.append((e, models._region(e["args"][1])))
        if len(apps) != 1:
            raise AnchorError("%s decoder: expected one append site" % comp, key)
        e, reg = apps[0]
        skipped = set()
        for c in e["catoms"]:
            if c[0] == "inlist" and c[2] == faults.SEG and c[3] is False:
                skipped |= set(c[1])
            if c[0] == "empty" and c[1] == faults.SEG and c[2] is False:
                skipped.add("")
        ctx.ob("GRAMMAR", "%s: raw segments skipped = %s" % (comp, sorted(want_skip)), skipped == want_skip, fn=key, site=e["site"], detail="skipped: %s" % sorted(skipped))
        ctx.ob("DECODE-ALL", "each %s segment passes through the strict decoder after the split" % comp, reg == faults.SEGD, fn=key, site=e["site"], detail=show_region(reg))
        # the only successful result is the text that loop built: a second `Ok(..)` (a shortcut returning the input as it
        # is) would hand out segments that were neither skipped nor decoded
        oks = [r for r in bs["returns"] if r["cls"][0] == "ok"]
        okacc = False
        det = "; ".join(nshow(r["cls"][1])[:60] for r in oks)
        if len(oks) == 1:
            pay = oks[0]["cls"][1]
            while pay[0] == "conv":
                pay = pay[1]
            if pay[0] == "var" and len(pay) > 2:
                init = pay[2]
                okacc = e["target"][:2] == ("var", pay[1]) and init[0] == "call" and init[1].split("::")[-1] in ("new", "default", "with_capacity") and all(x[0] != "arg" for x in init[2])
        ctx.ob("GRAMMAR", "%s: the decoder succeeds only with the text its segment loop built (started empty)" % comp, okacc, fn=key, site=oks[0]["site"] if oks else body.site(0), detail=det)


def rule_qloop(ctx):
    facts = ctx.facts()
    pm = models.parser_model(facts)
    rl = faults.roles(facts, pm)
    key = rl.get("qualifier-decoder")
    if not key:
        raise AnchorError("qualifier decoder not found by role")
    bs = models.body_summary(facts, key)
    body = bs["body"]
    loops = bs["loops"]
    if len(loops) != 1 or len(body.loops()) != 1:
        raise AnchorError("qualifier decoder: expected exactly one loop", key)
    h, (nb, it, npath) = next(iter(loops.items()))
    item = models._region(("some", ("call", npath, (it,), nb)))
    ctx.ob("GRAMMAR", "qualifiers: items = split('&') of the raw region", item == faults.QITEM, fn=key, site=body.site(nb), detail=show_region(item))
    entries = [e for e in bs["effects"] if e["path"] == rl.get("entry")]
    ok = len(entries) == 1 and models._region(entries[0]["args"][1]) == faults.QKEY
    ctx.ob("GRAMMAR", "qualifiers: key = text before the FIRST '=' of the item, looked up through Qualifiers::entry", ok, fn=key, site=entries[0]["site"] if entries else "", detail="; ".join(show_region(models._region(e["args"][1])) for e in entries))
    ctx.ob("DECODE-ALL", "the qualifier key is NOT percent-decoded", ok, fn=key, site=entries[0]["site"] if entries else "", detail="entry() receives a plain region of the input")
    ins = [e for e in bs["effects"] if e["path"].startswith("qualifiers::VacantEntry") and e["path"].endswith("::insert")]
    DV = ("Decode", faults.QVAL)
    okv = len(ins) == 1 and models._region(ins[0]["args"][1]) == DV
    ctx.ob("GRAMMAR", "qualifiers: value = text after the first '=' of the item", okv, fn=key, site=ins[0]["site"] if ins else "", detail="; ".join(show_region(models._region(e["args"][1])) for e in ins))
    ctx.ob("DECODE-ALL", "each qualifier value passes through the strict decoder", okv, fn=key, site=ins[0]["site"] if ins else "", detail="inserted value: " + ("; ".join(show_region(models._region(e["args"][1])) for e in ins)))
    if len(ins) == 1:
        ca = ins[0]["catoms"]
        need = [("found", "Split", "=", faults.QITEM, True), ("empty", DV, False)]
        for n in need:
            ctx.ob("GRAMMAR", "qualifiers: insertion happens under %s" % show_canon(n), n in ca, fn=key, site=ins[0]["site"], detail="; ".join(show_canon(c) for c in ca)[:400])
        vac = any(c[0] == "is" and c[-1] == "Vacant" for c in ca)
        ctx.ob("GRAMMAR", "qualifiers: insertion happens only into a vacant entry", vac, fn=key, site=ins[0]["site"], detail="")
        # empty decoded value -> skip (continue), not an error
        for gb, c in ins[0]["gatoms"]:
            if c == ("empty", DV, False):
                tgts = [tg for (lab, tg) in body.edges(gb) if not (tg == ins[0]["bb"] or ins[0]["bb"] in body.reachable_feasible(tg, avoid={gb}))]
                rets = dict(models.returns(body))
                cont = bool(tgts) and all(h in body.reachable_feasible(tg, avoid={gb}) and not any(b in rets for b in body.reachable_feasible(tg, avoid={gb, h})) for tg in tgts)
                ctx.ob("GRAMMAR", "qualifiers: an empty decoded value is skipped (loop continues, no error)", cont, fn=key, site=body.site(gb), detail="")
    others = [e for e in bs["effects"] if e["target"][0] == "arg" and e["path"] not in (rl.get("entry"),) and not e["path"].startswith("qualifiers::VacantEntry")]
    ctx.ob("GRAMMAR", "qualifiers: no other write to the parts in the qualifier decoder", not others, fn=key, detail=", ".join(e["path"] for e in others))


def rule_alphabet(ctx):
    facts = ctx.facts()
    pm = models.parser_model(facts)
    rl = faults.roles(facts, pm)
    summ = boolsum.Summarizer(facts)
    from .common import type_alphabet_obligation
    type_alphabet_obligation(ctx, facts, "ALPHABET")
    kc = rl.get("keycheck")
    keypred = None
    for row in models.rejections(facts, kc):
        for t in row.get("triggers", []):
            if t[0] == "pred" and t[1] in facts.bodies:
                keypred = t[1]
    if not keypred:
        raise AnchorError("key predicate not found")
    c = boolsum.strpred_canon(summ.summary(keypred), facts)
    ctx.ob("ALPHABET", "valid_key = [0-9A-Za-z._-]+", c["nonempty"] and c["all"] == VALID_KEY_SET and not c["other"], fn=keypred, site=fn_site(facts, keypred), detail="all={%s}" % boolsum.set_to_ranges(c["all"] or 0))


def rule_reject_complete(ctx):
    facts = ctx.facts()
    pm = models.parser_model(facts)
    rl = faults.roles(facts, pm)
    role_list = ["parser", "subpath-decoder", "namespace-decoder", "qualifier-decoder", "entry", "keycheck", "build"]
    matched, missing, extra = faults.match_rows(facts, pm, rl, role_list)
    for (role, ref, desc, site, key) in matched:
        ctx.ob("REJECT-COMPLETE", "%s: refusal is one of the documented faults: %s" % (role, ref), True, fn=key, site=site, detail=desc)
    for (role, desc, site, key) in extra:
        if implied_refusal(facts, pm, rl, role, key, site):
            ctx.ob("REJECT-COMPLETE", "%s: refusal is implied by a documented one: %s" % (role, desc), True, fn=key, site=site, detail="an emptiness test on a region that contains the documented region refuses only strings the documented test refuses too")
            continue
        ctx.ob("REJECT-COMPLETE", "%s: undocumented refusal: %s" % (role, desc), False, fn=key, site=site, detail="this return is not in the fault table of C05: a legal spelling may be refused")
    # string shapes: the only refusal is !valid_type
    for role in ("string-finish", "smartstring-finish"):  # the type parameters a string can be parsed into
        k = rl.get(role)
        if not k:
            continue
        for key in facts.reachable_bodies([k]):
            if key not in facts.fns and facts.bodies[key].kind != "fn":
                continue
            for row in models.rejections(facts, key):
                if row["kind"] == "err":
                    ok = row["error"] == "ParseError::InvalidPackageType" and len(row["triggers"]) == 1 and row["triggers"][0][0] == "pred" and row["triggers"][0][1] == "is_valid_package_type" and row["triggers"][0][3] is False
                    ctx.ob("REJECT-COMPLETE", "%s: only refusal is an invalid type" % role, ok, fn=key, site=row["site"], detail=faults.describe_row(row))


def contains_region(big, small):
    """is `small` derived from `big` by further splitting/trimming (then: big empty => small empty)?"""
    t = small
    while isinstance(t, tuple) and len(t) == 3 and t[0] not in ("Input",):
        if t == big:
            return True
        t = t[2]
    return t == big


def implied_refusal(facts, pm, rl, role, key, site):
    """`Err(E) when empty(X)` is harmless for legal spellings if R-FAULT has `Err(E') when empty(Y)` with Y cut out of X:
    every string it refuses is refused anyway (only the error kind may differ, which is C05's business)."""
    for row in models.rejections(facts, key):
        if row["kind"] != "err" or row["site"] != site:
            continue
        trigs = row.get("triggers", [])
        if len(trigs) == 1 and trigs[0][0] == "empty" and trigs[0][2] is True:
            X = trigs[0][1]
            for ref in faults.reference_rows(rl):
                if ref["role"] == role and ref["kind"] == "err" and "trigger" in ref and ref["trigger"][0] == "empty" and ref["trigger"][2] is True:
                    if contains_region(X, ref["trigger"][1]):
                        return True
    return False


THOROUGH_FS = ["pt", "none", "serde"]

def rule_build_frame(ctx):
    """The parser hands its sinks to build(): the components reported are the parsed ones only if build() and the type's
    finish hook change nothing but what the property allows (the type's own name rule, empty qualifiers, checksum form)."""
    from .common import build_frame_obligations
    build_frame_obligations(ctx, "BUILD-FRAME")
    if "package_type::PackageType" in ctx.facts().adts:
        from . import C08
        C08.rule_frame(ctx)


def rule_qm(ctx):
    """'any letter case in the qualifier keys' is honoured by the qualifier map: the keys reported are the stored ones, found
    and ordered by its comparator (C11's representation invariant)."""
    from . import C11
    from .common import ScopedCtx, parser_scope
    # only the part of the invariant the parser can reach (entry / insert / lookups / retain), not e.g. remove
    C11.invariant_obligations(ScopedCtx(ctx, parser_scope(ctx.facts())), ctx.facts(), rule="QM-INV")


def rule_type_case(ctx):
    """'any letter case in the type': the string-like type parameters store the type ASCII-lower-cased after validating it
    (C13's sibling obligations: every Ok path of each finish lower-cases or is provably free of [A-Z]); for PackageType the
    name table is case-insensitive (C15, rule TYPED below)."""
    from . import C04
    C04.rule_typevalid(ctx, rule="TYPE-CASE", alphabet=False)


def rule_alg_case(ctx):
    """'any letter case in .. checksum algorithm names': two spellings of one algorithm name must end up as one stored name,
    i.e. the lower-caser that keys the checksum parser's map is char-wise to_lowercase on every char (the obligations C05
    uses for 'algorithm repeated in any case', under this property's rule name)."""
    from . import C05
    C05.rule_dup_case(ctx, rule="ALG-CASE")


RULES = [
    ("QM-INV", rule_qm, 25),
    ("GRAMMAR", lambda ctx: (rule_grammar(ctx), rule_segments(ctx), rule_qloop(ctx)), 14),
    ("DECODE-ALL", lambda ctx: None, 4),
    ("ALPHABET", rule_alphabet, 2),
    ("ALG-CASE", rule_alg_case, 4),
    ("TYPE-CASE", rule_type_case, 4),
    ("REJECT-COMPLETE", rule_reject_complete, 20),
    ("BUILD-FRAME", rule_build_frame, 4),
    ("FRAME", lambda ctx: None, 3),
]

MANIFEST = {
    "text": "Static decision that the parser's structure equals the stated grammar for every input: region terms of all sinks (term dataflow over the loop-free MIR of from_str), segment/qualifier loop summaries, decoding discipline (decode after the last split; type and key raw), predicate alphabets by char-class translation, and absence of any refusal beyond the documented fault table.",
    "note": "Trusted: rustc MIR, extractor, callee semantics of the str splitting/trimming API and of percent_decode_str. Not decided: value-level equality (follows only under those semantics); the dynamic recogniser oracle of the quantifier is not reproduced.",
    "technique": "path-insensitive term dataflow (phi-terms) yielding region terms per sink, compared with a reference grammar table; loop-body summaries; rejection-list completeness",
    "design_ref": "DESIGN.md 5.2",
}
