"""E5: compile-fail witnesses (thorough tier).  The witness crate is instantiated in a scratch directory under .cache
with a path dependency on the repository under analysis and a copy of its Cargo.lock; `cargo +nightly test --doc`."""
import os, re, shutil, subprocess
from purlsa import extract as ex


def run_witnesses(ctx, rule="WITNESS"):
    src = os.path.join(ex.VERIF, "witness", "src", "lib.rs")
    wd = os.path.join(ex.CACHE, "witness-run-%d" % os.getpid())
    shutil.rmtree(wd, ignore_errors=True)
    os.makedirs(os.path.join(wd, "src"))
    try:
        shutil.copy(src, os.path.join(wd, "src", "lib.rs"))
        open(os.path.join(wd, "Cargo.toml"), "w").write('[package]\nname = "purl-witness"\nversion = "0.0.0"\nedition = "2021"\n\n[workspace]\n\n[dependencies]\npurl = { path = "%s" }\n' % os.path.join(os.path.abspath(ctx.repo), "purl"))
        lock = os.path.join(ctx.repo, "Cargo.lock")
        if os.path.exists(lock):
            shutil.copy(lock, os.path.join(wd, "Cargo.lock"))
        env = ex.base_env()
        env["CARGO_TARGET_DIR"] = os.path.join(ex.CACHE, "target-witness")
        r = subprocess.run(["cargo", "+nightly", "test", "--doc", "--offline"], cwd=wd, env=env, capture_output=True, text=True)
        out = r.stdout + r.stderr
        tests = re.findall(r"test src/lib.rs - (\w+) \(line (\d+)\)( - compile fail)? \.\.\. (\w+)", out)
        if not tests:
            ctx.ob(rule, "witness doctests ran", False, detail=out[-600:])
            return
        per = {}
        for name, line, cf, res in tests:
            per.setdefault(name, []).append((bool(cf), res))
        for name, lst in sorted(per.items()):
            cfs = [res for cf, res in lst if cf]
            twins = [res for cf, res in lst if not cf]
            ok = cfs == ["ok"] and twins == ["ok"]
            ctx.ob(rule, "%s: the violating program is rejected with the expected error code and its twin compiles" % name, ok, fn="witness::" + name, detail="compile_fail: %s, twin: %s" % (cfs, twins))
        ctx.ob(rule, "seven witnesses present", len(per) == 7, detail=str(sorted(per)))
    finally:
        shutil.rmtree(wd, ignore_errors=True)
