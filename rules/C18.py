"""C18 -- combined names split and join at the ecosystem separator (DESIGN.md 5.18)."""
from purlsa.core import AnchorError
from purlsa.sem import norm, nshow, fmt_pieces
from purlsa import models, paths
from purlsa.models import show_canon, show_region
from .common import fn_site

LEVEL = "other"
EXPLANATION = (
    "Table-level static decision: the per-variant split table of Purl::builder_with_combined_name (path-sensitive outcomes of its MIR: which split call, "
    "which half feeds the name, which the namespace, what happens when the separator is absent) and the per-variant join table of Purl::combined_name "
    "(format template and arguments) are extracted and compared with the documented table and with each other: join character = split character per "
    "variant, direction as required by the property's side condition (last '/' with 'name has no /', first ':' with 'namespace has no :'), namespace only "
    "through with_namespace(left half) so that an empty left half is unset by the accessor."
)
RULE_TEXT = "obligations = per variant: split row equals R-COMBINED, join row equals R-COMBINED, split char = join char; argument plumbing of both functions"
ASSUMPTIONS = ["str::rsplit_once / split_once semantics; GenericPurl::namespace() maps an empty namespace to None (checked by C03 ACCESSOR)"]
TRUSTED_BASE = ["callee semantics table (DESIGN.md section 3)"]

R_COMBINED = {
    "Cargo": ("Whole", None), "Gem": ("Whole", None), "NuGet": ("Whole", None), "PyPI": ("Whole", None),
    "Golang": ("RSplit", "/"), "Npm": ("RSplit", "/"),
    "Maven": ("Split", ":"),
}

IN2 = ("Input", 2)


def variants_of(atoms, subj):
    for a in atoms:
        if a[0] == "is" and a[1] == subj:
            return [a[2]]
        if a[0] == "isin" and a[1] == subj:
            return list(a[2])
    return []


def split_table(ctx, facts):
    ks = [k for k, f in facts.fns.items() if f.get("name") == "builder_with_combined_name"]
    if len(ks) != 1:
        raise AnchorError("Purl::builder_with_combined_name not found")
    key = ks[0]
    newk = [k for k, f in facts.fns.items() if f.get("name") == "new" and f.get("impl_self", "").startswith("builder::GenericPurlBuilder<")]
    wns = [k for k, f in facts.fns.items() if f.get("name") == "with_namespace" and f.get("impl_self", "").startswith("builder::GenericPurlBuilder<")]
    table = {}
    for o in paths.outcomes(facts, key):
        vs = variants_of(o["atoms"], "arg1")
        if not vs or o["ret"][0] == "diverge":
            continue
        val = paths.outcome_values(facts, key, o)
        # val = with_namespace(new(type, NAME), NS)  |  new(type, NAME)
        ns = None
        t = val
        if t[0] == "call" and wns and t[1] == wns[0]:
            ns = t[2][1]
            t = t[2][0]
        if not (t[0] == "call" and newk and t[1] == newk[0] and t[2][0] == ("arg", 1)):
            row = ("?", nshow(val)[:120])
        else:
            name_r = models._region(t[2][1])
            ns_r = models._region(ns) if ns is not None else None
            found = [a for a in o["atoms"] if a[0] == "found"]
            row = (name_r, ns_r, tuple((a[1], a[2], a[4]) for a in found))
        for v in vs:
            table.setdefault(v, set()).add(row)
    return key, table


def join_table(ctx, facts):
    ks = [k for k, f in facts.fns.items() if f.get("name") == "combined_name"]
    if len(ks) != 1:
        raise AnchorError("Purl::combined_name not found")
    key = ks[0]
    body = facts.body(key)
    table = {}
    for o in paths.outcomes(facts, key):
        vs = variants_of(o["atoms"], "arg1.package_type")
        if not vs:
            continue
        nsat = [a for a in o["atoms"] if a[0] == "callres" and a[1].endswith("::namespace")]
        nsstate = nsat[0][3] if nsat else None
        view = paths.body_on_path(body, o["path"])
        rv = view.resolve_local(0)
        n = norm(rv, keep_conv=True)
        while n[0] == "conv":
            n = n[1]
        row = None
        if n[0] == "agg" and n[1][0] == "adt" and n[1][2] == "Borrowed" and len(n[2]) == 1:
            n = n[2][0]  # Cow::Borrowed(self.name()) is what `self.name().into()` builds
            while n[0] == "conv":
                n = n[1]
        if n[0] == "call" and n[1].endswith("::name") and n[2] == (("arg", 1),):
            row = ("Name", nsstate)
        elif n[0] == "agg" and n[1][0] == "adt" and n[1][2] == "Owned":
            inner = n[2][0]
            if inner[0] == "call" and inner[1] == "std::fmt::format":
                # find the Arguments::new term un-normalised to decode the template
                from purlsa.core import strip
                raw = strip(rv)
                fa = strip(raw[2][0]) if raw[0] == "agg" else None
                pieces = fmt_pieces(strip(fa)[2][0]) if fa is not None and strip(fa)[0] == "call" else None
                if pieces and len(pieces) == 3 and pieces[0][0] == "display" and pieces[1][0] == "lit" and pieces[2][0] == "display":
                    a0 = norm(pieces[0][1])
                    a2 = norm(pieces[2][1])
                    ok0 = a0[0] == "some" and a0[1][0] == "call" and a0[1][1].endswith("::namespace")
                    ok2 = a2[0] == "call" and a2[1].endswith("::name")
                    row = ("Join", pieces[1][1], nsstate) if ok0 and ok2 else ("?", nshow(n)[:100])
                elif pieces and len(pieces) == 3 and all(p_[0] == "display" for p_ in pieces):
                    # "{}{}{}" with the separator passed as a char that is a constant on this path
                    a0 = norm(pieces[0][1])
                    a1 = norm(pieces[1][1])
                    a2 = norm(pieces[2][1])
                    ok0 = a0[0] == "some" and a0[1][0] == "call" and a0[1][1].endswith("::namespace")
                    ok2 = a2[0] == "call" and a2[1].endswith("::name")
                    sep = models.cchar(a1)
                    row = ("Join", sep, nsstate) if ok0 and ok2 and sep is not None else ("?", nshow(n)[:100])
            elif inner[0] == "var" and len(inner) > 2 and inner[2][0] == "call" and inner[2][1].split("::")[-1] in ("new", "with_capacity"):
                # a String built by pushes on this path: push_str(namespace) push(sep) push_str(name)
                effs = [e for e in models.mut_effects(view) if e["bb"] in o["path"] and e["target"][:2] == ("var", inner[1]) and not e["path"].endswith("deref_mut")]
                effs.sort(key=lambda e: o["path"].index(e["bb"]))
                if len(effs) == 3 and [e["path"].split("::")[-1] for e in effs] == ["push_str", "push", "push_str"]:
                    def sv(x):
                        while x[0] == "conv":
                            x = x[1]
                        return x
                    a0, a1, a2 = sv(effs[0]["args"][1]), sv(effs[1]["args"][1]), sv(effs[2]["args"][1])
                    ok0 = a0[0] == "some" and a0[1][0] == "call" and a0[1][1].endswith("::namespace")
                    ok2 = a2[0] == "call" and a2[1].endswith("::name") and a2[2] == (("arg", 1),)
                    sep = models.cchar(a1)   # `view` is the body on this path: a separator chosen by an earlier match is a constant here
                    row = ("Join", sep, nsstate) if ok0 and ok2 and sep is not None else ("?", "pushes: " + "; ".join(nshow(x)[:40] for x in (a0, a1, a2)))
        if row is None:
            row = ("?", nshow(n)[:100])
        for v in vs:
            table.setdefault(v, set()).add(row)
    return key, table


def rule_combined(ctx):
    facts = ctx.facts()
    adt = facts.adts.get("package_type::PackageType")
    if not adt:
        raise AnchorError("enum PackageType not found")
    variants = [v["name"] for v in adt["variants"]]
    sk, st = split_table(ctx, facts)
    jk, jt = join_table(ctx, facts)
    for v in variants:
        want = R_COMBINED.get(v)
        if want is None:
            ctx.ob("COMBINED-TABLE", "variant %s has a documented combined-name rule" % v, False, fn=sk, detail="extend R_COMBINED when the property enumerates a new type")
            continue
        kind, ch = want
        rows = st.get(v, set())
        if kind == "Whole":
            oks = rows == {(IN2, None, ())}
            desc = "whole string is the name, no namespace"
        else:
            d = "R" if kind == "RSplit" else ""
            oks = rows == {((d + "SplitR", ch, IN2), (d + "SplitL", ch, IN2), ((d + "Split", ch, True),)), (IN2, None, ((d + "Split", ch, False),))}
            desc = "%s at %r: right half -> name, left half -> with_namespace; separator absent -> whole string is the name" % ("last" if d else "first", ch)
        ctx.ob("COMBINED-TABLE", "split %s: %s" % (v, desc), oks, fn=sk, site=fn_site(facts, sk), detail="extracted: %s" % sorted((show_region(r[0]) if isinstance(r[0], tuple) and r[0][0] != "?" else str(r[0]), show_region(r[1]) if len(r) > 1 and isinstance(r[1], tuple) else None, r[2] if len(r) > 2 else None) for r in rows))
        jrows = jt.get(v, set())
        if kind == "Whole":
            okj = jrows == {("Name", None)}
            jdesc = "name()"
        else:
            okj = jrows == {("Join", ch, "Some"), ("Name", "None")}
            jdesc = "namespace %r name if namespace() is Some, else name()" % ch
        ctx.ob("COMBINED-TABLE", "join %s: %s" % (v, jdesc), okj, fn=jk, site=fn_site(facts, jk), detail="extracted: %s" % sorted(jrows, key=str))
        # sibling agreement, independent of the reference table
        sch = set(f[1] for r in rows if len(r) > 2 for f in r[2])
        jch = set(r[1] for r in jrows if r[0] == "Join")
        ctx.ob("COMBINED-TABLE", "%s: join character = split character" % v, sch == jch, fn=jk, site=fn_site(facts, jk), detail="split %s join %s" % (sorted(sch), sorted(jch)))
    extra = [v for v in list(st) + list(jt) if v not in variants]
    ctx.ob("COMBINED-TABLE", "no arm for a non-variant", not extra, detail=str(extra))
    # the input is used as given (as_ref only)
    body = facts.body(sk)
    others = [models.callee_name(t["callee"]) for _, t in body.calls() if models.callee_name(t["callee"]).startswith("core::str::<impl str>::") and not models.callee_name(t["callee"]).endswith(("rsplit_once", "split_once", "::find", "::rfind"))]
    ctx.ob("COMBINED-TABLE", "the combined name is not trimmed or otherwise rewritten before splitting", not others, fn=sk, detail=str(others))


def rule_rebuild(ctx):
    """'feeding combined_name() back through that constructor reproduces the same namespace and name': the constructor runs
    build() and with it the type's finish rules a second time, on a name they have already normalised -- the clause holds
    only if those rules are idempotent (C10's IDEMP obligations for the finish rules; the checksum stage is not involved)."""
    from . import C10
    C10.rule_idemp(ctx, finish_only=True)


RULES = [
    ("COMBINED-TABLE", rule_combined, 7 * 3 + 2),
    ("IDEMP", rule_rebuild, 2),
    ("IDEMP-LOWER", lambda ctx: None, 3),
    ("IDEMP-PYPI", lambda ctx: None, 4),
    ("FRAME", lambda ctx: None, 3),
]

MANIFEST = {
    "text": "Table-level static decision over all seven variants: the split table of builder_with_combined_name (path-sensitive outcomes: split call, which half goes where, absent-separator case) and the join table of combined_name (decoded format template and argument origins) equal the documented table and agree with each other (join char = split char, direction per the property's side condition). The re-build clause additionally needs the type's finish rules to be idempotent on an already normalised name: C10's finish-rule obligations (nuget lower-caser char by char, pypi transducer composed with itself, frame of the other types) are part of this check.",
    "note": "Trusted: rustc MIR, extractor, rsplit_once/split_once semantics. Exhaustive over the finite variant table; string-level behaviour follows under those semantics.",
    "technique": "path-sensitive outcome tables of two sibling functions compared with a reference table and with each other",
    "design_ref": "DESIGN.md 5.18",
}
