"""C05 -- invalid input is refused, with the matching error (DESIGN.md 5.5)."""
from purlsa.core import AnchorError, callee_name, strip
from purlsa.sem import norm, nshow
from purlsa import models, boolsum
from purlsa.models import show_canon, show_region
from . import faults
from .common import VALID_TYPE_SET, VALID_KEY_SET, fn_site

LEVEL = "other"
EXPLANATION = (
    "Static decision of guard presence: for every fault class of the statement the rejection lists extracted from MIR (every definition of the "
    "return place that is an Err, with the canonical atoms of the edges entering it, and every `?` propagation with its callee and argument region) "
    "contain a row with the documented error constant, evaluated on the documented component region; error conversions are checked structurally; "
    "lossy decoding APIs do not occur. Decides presence and error constant of each guard on every path, not precedence among simultaneous faults."
)
RULE_TEXT = "obligations = one per R-FAULT row (present in the extracted rejection list of the function playing that role), plus predicate alphabets, decoder strictness, error-wrapping impls and the lossy-API denylist over all call sites"
ASSUMPTIONS = [
    "percent_decode_str(s).decode_utf8() is strict: Err on any byte sequence that is not valid UTF-8 (incl. overlong forms, surrogates, > U+10FFFF)",
    "str::strip_prefix compares byte-wise (case-sensitive)",
    "precedence among several simultaneous faults is not decided",
]
TRUSTED_BASE = ["callee semantics table (DESIGN.md section 3)"]

ROLES = ["parser", "subpath-decoder", "namespace-decoder", "qualifier-decoder", "entry", "insert", "keycheck", "build", "checksum-parse", "checksum-serialize"]

LOSSY = ("decode_utf8_lossy", "from_utf8_lossy", "from_utf8_unchecked", "from_utf8_lossy_owned", "to_string_lossy")


def rule_reject_sound(ctx):
    facts = ctx.facts()
    pm = models.parser_model(facts)
    rl = faults.roles(facts, pm)
    weak = []
    matched, missing, extra = faults.match_rows(facts, pm, rl, ROLES, weak_out=weak)
    for (role, ref, desc, site, key) in matched:
        ctx.ob("REJECT-SOUND", "%s: %s" % (role, ref), True, fn=key, site=site, detail="extracted: " + desc)
    for (role, ref, _, key) in missing:
        w = [x for x in weak if x[0] == role and x[1] == ref]
        if w:
            ctx.ob("REJECT-SOUND", "%s: %s" % (role, ref), False, fn=key, site=w[0][3], detail="the refusal exists only on a narrower path: " + w[0][2])
        else:
            ctx.ob("REJECT-SOUND", "%s: %s" % (role, ref), False, fn=key, site=fn_site(facts, key), detail="no matching row in the rejection list extracted from this function (the guard is missing, evaluates another component, or returns another error)")
    # every way out of the parser that is not a refusal has passed every unconditional test
    accept = [r for r in models.rejections(facts, pm["key"]) if r["kind"] in ("tail", "ok")]
    must = [r["trigger"] for r in faults.reference_rows(rl) if r["role"] == "parser" and r["kind"] == "err" and "trigger" in r]
    for r in accept:
        have = set(faults.loosen(set(r["catoms"])))
        for a in list(have):  # a string in which a separator was found is not empty
            if a[0] == "found" and a[-1] is True:
                have.add(("empty", a[3], False))
            if a[0] == "contains" and a[-1] is True:
                have.add(("empty", a[2], False))
        lacking = [t for t in must if faults.loosen(faults.neg(t)) not in have]
        ctx.ob("REJECT-SOUND", "parser: the accepting exit is reached only past every unconditional test (scheme, type present, '/' present, valid type)", not lacking, fn=pm["key"], site=r["site"], detail="not on the path condition: %s" % [show_canon(faults.neg(t)) for t in lacking])
    ctx.ob("REJECT-SOUND", "parser: exactly one accepting exit (the call of build)", len(accept) == 1 and accept[0]["kind"] == "tail", fn=pm["key"], detail="%d" % len(accept))
    # the strict decoder
    dec = rl.get("decoder")
    if not dec:
        raise AnchorError("no unique strict percent-decoder found", pm["key"])
    d = pm["decoders"][dec]
    ctx.ob("REJECT-SOUND", "decoder: percent_decode_str(x).decode_utf8() mapped to InvalidEscape", d["kind"] == "strict" and d["error"] == "ParseError::InvalidEscape", fn=dec, site=fn_site(facts, dec), detail=str(d))
    # predicates
    summ = boolsum.Summarizer(facts)
    vt = summ.summary("is_valid_package_type") if "is_valid_package_type" in facts.bodies else None
    if vt is None:
        raise AnchorError("is_valid_package_type not found")
    c = boolsum.strpred_canon(vt, facts)
    ctx.ob("REJECT-SOUND", "type predicate = non-empty and all chars in [0-9A-Za-z.+-]", c["nonempty"] and c["all"] == VALID_TYPE_SET and not c["other"] and c["subject"] == ("arg", 1), fn="is_valid_package_type", site=fn_site(facts, "is_valid_package_type"), detail="nonempty=%s all={%s} other=%s" % (c["nonempty"], boolsum.set_to_ranges(c["all"] or 0), c["other"]))
    kc = rl.get("keycheck")
    keypred = None
    for row in models.rejections(facts, kc):
        for t in row.get("triggers", []):
            if t[0] == "pred" and t[1] in facts.bodies:
                keypred = t[1]
    if not keypred:
        raise AnchorError("key predicate not found in the key check", kc)
    c = boolsum.strpred_canon(summ.summary(keypred), facts)
    ctx.ob("REJECT-SOUND", "key predicate = non-empty and all chars in [0-9A-Za-z._-]", c["nonempty"] and c["all"] == VALID_KEY_SET and not c["other"] and c["subject"] == ("arg", 1), fn=keypred, site=fn_site(facts, keypred), detail="nonempty=%s all={%s} other=%s" % (c["nonempty"], boolsum.set_to_ranges(c["all"] or 0), c["other"]))
    # the type guard dominates the conversion, on the same text
    for call in pm["calls"]:
        if call["path"] == "std::str::FromStr::from_str":
            atoms = [models.canon_atom(a) for a in call["atoms"]]
            areg = models._region(call["args"][0])
            ok = ("pred", "is_valid_package_type", (areg,), True) in atoms
            # which occurrence of a separator delimits the type is C02's business: compare modulo split direction
            ctx.ob("REJECT-SOUND", "valid_type(TYPE) dominates T::from_str(TYPE)", ok and faults.loosen(areg) == faults.loosen(faults.TYPE), fn=pm["key"], site=call["site"], detail="; ".join(show_canon(a) for a in atoms)[:300])


def rule_typed(ctx):
    facts = ctx.facts()
    pm = models.parser_model(facts)
    rl = faults.roles(facts, pm)
    # unknown type -> UnsupportedType
    k = rl.get("pt-fromstr")
    if not k:
        raise AnchorError("impl FromStr for PackageType not found")
    from . import C15
    ok, err, det = C15.fromstr_shape(facts, k)
    ctx.ob("TYPED", "PackageType::from_str = the table lookup of UniCase::new(s), Ok(found) or Err(UnsupportedPackageType)", ok and (err or "").startswith("UnsupportedPackageType"), fn=k, site=fn_site(facts, k), detail=det)
    # conversions
    for (src, want) in (("package_type::UnsupportedPackageType", "PackageError::UnsupportedType"), ("parse::ParseError", "PackageError::Parse(arg1)")):
        ks = [kk for kk, f in facts.fns.items() if f.get("impl_trait_def") == "std::convert::From" and f.get("impl_self") == "package_type::PackageError" and f.get("inputs") == [src]]
        if len(ks) != 1:
            raise AnchorError("From<%s> for PackageError not found" % src)
        b = facts.body(ks[0])
        t = norm(b.resolve_local(0))
        got = models.error_const(t)
        ctx.ob("ERR-WRAP", "From<%s> for PackageError = %s" % (src.split("::")[-1], want), got == want.replace("(arg1)", "(?arg1)") or got == want, fn=ks[0], site=fn_site(facts, ks[0]), detail=got)
    # Maven rule
    k = rl.get("pt-finish")
    rows = [r for r in models.rejections(facts, k) if r["kind"] == "err"]
    ok = len(rows) == 1 and rows[0]["error"] == "PackageError::MissingRequiredField(PurlField::Namespace)"
    maven = False
    if ok:
        body = facts.body(k)
        for gb, a in rows[0]["gatoms"]:
            if a[0] in ("other",) and "Maven" in str(a):
                maven = True
        from purlsa.sem import atoms_at
        for _, a in atoms_at(body, rows[0]["bb"]):
            if a[0] in ("is", "isin") and "Maven" in str(a[2]):
                maven = a[0] == "is"
    ctx.ob("TYPED", "Maven arm: empty namespace -> MissingRequiredField(Namespace), no other refusal in finish", ok and maven, fn=k, site=fn_site(facts, k), detail="; ".join(faults.describe_row(r) for r in rows))


def rule_nolossy(ctx):
    facts = ctx.facts()
    n = 0
    bad = []
    for k, b in facts.bodies.items():
        root = b.j.get("root", k)
        if facts.fns.get(root, {}).get("derived") or "::_::" in k:
            continue  # compiler-derived impls (serde derive uses from_utf8_lossy only to print an unknown variant name)
        for bb, t in b.calls(include_cleanup=True):
            ce = t["callee"]
            if "path" not in ce:
                continue
            n += 1
            p = callee_name(ce)
            if any(x in p or x in ce["path"] for x in LOSSY) or p.endswith("::unwrap_or_default") and "Utf8" in str(ce.get("args")):
                bad.append((k, b.site(bb), p))
    for (k, site, p) in bad:
        ctx.ob("NO-LOSSY", "lossy or unchecked decoding API: %s" % p, False, fn=k, site=site, detail="a decode that cannot fail cannot refuse invalid UTF-8")
    ctx.ob("NO-LOSSY", "no lossy/unchecked UTF-8 API among all call sites", not bad, detail="%d call sites inspected" % n)


def rule_controls(ctx):
    from . import controls
    if ctx.tier == 'thorough':
        controls.control_lossy(ctx)


def rule_qm(ctx):
    """'two non-empty values for one key in any letter case' are refused through Qualifiers::entry reporting Occupied: that
    is only as good as the map's lookup, i.e. its representation invariant and comparator (C11)."""
    from . import C11
    from .common import ScopedCtx, parser_scope
    # only the part of the invariant the parser can reach (entry / insert / lookups / retain), not e.g. remove
    C11.invariant_obligations(ScopedCtx(ctx, parser_scope(ctx.facts())), ctx.facts(), rule="QM-INV")


def rule_dup_case(ctx, rule="DUP-CASE"):
    """'algorithm repeated in any case' is refused: the text parser detects the repetition by inserting the lower-cased
    algorithm into a map, so it sees every case variant only if that lower-caser is char-wise to_lowercase on every char
    (C12's GUARDXFORM obligations on the same helper); 'two values for one key in any letter case' rests on the key
    comparator the same way (QM-INV above)."""
    from . import C12, lowercase
    facts = ctx.facts()
    rl = C12.roles(facts)
    if "lower" not in rl or "parse" not in rl:
        raise AnchorError("checksum parser / lower-caser not found by role")
    pb = facts.body(rl["parse"])
    uses = [bb for bb, t in pb.calls() if callee_name(t["callee"]) == rl["lower"]]
    ctx.ob(rule, "the checksum text parser keys its entries by the lower-cased algorithm", len(uses) >= 1, fn=rl["parse"], site=pb.site(uses[0]) if uses else fn_site(facts, rl["parse"]), detail="%d call(s) of %s" % (len(uses), rl["lower"]))
    lowercase.guardxform_obligations(ctx, facts, rl["lower"], rule=rule)


RULES = [
    ("QM-INV", rule_qm, 25),
    ("DUP-CASE", rule_dup_case, 4),
    ("CONTROL", rule_controls, 0),
    ("REJECT-SOUND", rule_reject_sound, 30),
    ("TYPED", rule_typed, 2),
    ("NO-LOSSY", rule_nolossy, 1),
]

MANIFEST = {
    "text": "Static decision that each listed fault has a guard on the right component region with the listed error constant: rejection lists (Err definitions of the return place with the canonical atoms of their incoming edges; `?` propagations with callee role and argument region) are extracted from MIR for parser, decoders, qualifier map entry points, build(), checksum parse/serialise and the built-in package type, and matched row by row against the fault table transcribed from the property; predicate alphabets are computed by char-class translation; lossy UTF-8 APIs are absent from all call sites. The 'repeated in any letter case' clauses additionally rest on the case folding behind the duplicate tests: the qualifier-key comparator (C11's invariant obligations, rule QM-INV) and the lower-caser that keys the checksum parser's map (char-wise to_lowercase on every char, rule DUP-CASE).",
    "note": "Trusted: rustc MIR, extractor, callee semantics (strict decode_utf8, strip_prefix byte-wise, split/rsplit_once). Not decided: precedence among simultaneous faults; behaviour inside dependencies.",
    "technique": "rejection-list extraction (return-place definitions + edge guard atoms over region terms) matched against a reference fault table; boolean/char-class summaries; call-site denylist",
    "design_ref": "DESIGN.md 5.5",
}
