"""C15 -- package type names map one-to-one, case-insensitively (DESIGN.md 5.15)."""
from purlsa.core import AnchorError, simplify_val, strip, callee_name
from purlsa.sem import norm, nshow, fmt_pieces, atoms_at
from purlsa import models, paths
from .common import fn_site, VALID_TYPE_SET

LEVEL = "other"
EXPLANATION = (
    "Table-level static decision: the arms of PackageType::name() (per-path outcomes of its MIR) and the entries of the perfect-hash map (read from "
    "the compiler-evaluated static) are mutually inverse bijections over the enum's full variant list; every name is non-empty ASCII lower case and a "
    "valid type; keys are built with UniCase::ascii; every string view (From, AsRef, Display, PurlShape::package_type) is a single call of name(); "
    "FromStr is a single table lookup with UniCase::new; the serde names equal name() per variant; no name contains a character sequence that is the "
    "case folding of a non-ASCII string, so no look-alike can fold to a name."
)
RULE_TEXT = "obligations = per variant: name arm, phf entry, inverse, validity, serde constants; per view fn: delegation shape; per name x fold-sensitive sequence: absence"
ASSUMPTIONS = [
    "phf::Map::get returns the entry whose key equals the probe; unicase::UniCase equality is Unicode case-folding equality (ASCII case-insensitive when both sides are ASCII)",
    "the only ASCII strings that are the full case folding of some non-ASCII string contain one of: k (U+212A), s (U+017F), ss, ff, fi, fl, ffi, ffl, st (Unicode CaseFolding.txt; cross-checked against unicase's table in the thorough tier)",
]
TRUSTED_BASE = ["callee semantics table (DESIGN.md section 3)", "phf perfect hashing, unicase folding (dependencies)"]

FOLD_SEQS = ["k", "s", "ff", "fi", "fl", "st"]  # ss, ffi, ffl contain s / ff


def name_table(facts):
    k = "package_type::PackageType::name"
    if k not in facts.bodies:
        ks = [x for x, f in facts.fns.items() if f.get("name") == "name" and f.get("impl_self") == "package_type::PackageType"]
        if len(ks) != 1:
            raise AnchorError("PackageType::name not found")
        k = ks[0]
    tab = {}
    # table form: NAMES[*self as usize] with a constant array -- the i-th variant (default discriminants 0, 1, ..) maps
    # to the i-th string
    t0 = norm(facts.body(k).resolve_local(0))
    if t0[0] == "index" and t0[1][0] in ("named", "const") and t0[2][0] == "cast" and t0[2][2][0] == "discr" and t0[2][2][1] == ("arg", 1):
        arr = t0[1][3] if t0[1][0] == "named" else t0[1][1]
        variants = list(t0[2][2][2])
        default_discr = False
        for bl in facts.body(k).blocks:
            for st in bl["stmts"]:
                if st.get("s") == "assign" and st["rv"].get("r") == "discr" and st["rv"].get("discrs") is not None:
                    default_discr = st["rv"]["discrs"] == list(range(len(variants)))
        if isinstance(arr, tuple) and arr and arr[0] == "array" and len(arr[1]) == len(variants) and all(isinstance(x, str) for x in arr[1]) and default_discr:
            return k, dict(zip(variants, arr[1]))
        raise AnchorError("name(): table lookup whose table does not line up with the variants", k)
    for o in paths.outcomes(facts, k):
        vs = [a for a in o["atoms"] if a[0] in ("is", "isin")]
        r = o["ret"]
        val = r[1] if r[0] == "other" else None
        s = val[1] if val and val[0] == "const" and isinstance(val[1], str) else None
        if len(vs) != 1 or s is None:
            raise AnchorError("name(): a path is not `Variant => \"literal\"`", k)
        names = [vs[0][2]] if vs[0][0] == "is" else list(vs[0][2])
        for v in names:
            if v in tab:
                raise AnchorError("name(): variant %s matched twice" % v, k)
            tab[v] = s
    return k, tab


def phf_table(facts):
    k = "package_type::PACKAGE_TYPES"
    if k not in facts.consts:
        cands = [x for x, c in facts.consts.items() if c["ty"].startswith("phf::Map<unicase::UniCase<")]
        if len(cands) != 1:
            raise AnchorError("the perfect-hash table of package types was not found")
        k = cands[0]
    v = simplify_val(facts.consts[k]["v"])
    if not (v[0] == "struct" and v[1] == "phf::Map"):
        raise AnchorError("PACKAGE_TYPES is not a phf::Map")
    entries = dict(v[2])["entries"]
    out = []
    for e in entries[1]:
        key, val = e[1]
        # UniCase(Encoding::Ascii(Ascii("name")))
        enc = dict(key[2])["0"]
        encoding = enc[2]
        inner = dict(enc[3])["0"]
        s = dict(inner[2])["0"]
        out.append((s, encoding, val[2]))
    return k, out


def name_table_obligations(ctx, facts, rule="TYPE-TABLE"):
    adt = facts.adts.get("package_type::PackageType")
    if not adt:
        raise AnchorError("enum PackageType not found")
    variants = [v["name"] for v in adt["variants"]]
    nk, names = name_table(facts)
    site = fn_site(facts, nk)
    for v in variants:
        ctx.ob(rule, "name() has an arm for %s" % v, v in names, fn=nk, site=site, detail="arms: %s" % sorted(names))
    ctx.ob(rule, "name() has no arm for a non-variant", set(names) <= set(variants), fn=nk, site=site, detail="")
    inv = {}
    for v, s in names.items():
        inv.setdefault(s, []).append(v)
    for s, vs in sorted(inv.items()):
        ctx.ob(rule, "name %r belongs to one variant" % s, len(vs) == 1, fn=nk, site=site, detail=str(vs))
    for v, s in sorted(names.items()):
        okc = len(s) > 0 and all(ord(c) < 128 and (VALID_TYPE_SET >> ord(c)) & 1 for c in s) and s == s.lower()
        ctx.ob(rule, "name of %s is a non-empty, valid, ASCII lower-case type string" % v, okc, fn=nk, site=site, detail=repr(s))
    return variants, names


def rule_type_table(ctx):
    facts = ctx.facts()
    variants, names = name_table_obligations(ctx, facts)
    pk, entries = phf_table(facts)
    psite = "%s:%s" % (facts.consts[pk]["span"]["file"], facts.consts[pk]["span"]["line"])
    ctx.ob("TYPE-TABLE", "the lookup table has one entry per variant", len(entries) == len(variants), fn=pk, site=psite, detail="%d entries, %d variants" % (len(entries), len(variants)))
    seen = {}
    for (s, enc, var) in entries:
        ctx.ob("TYPE-TABLE", "table entry %r -> %s is the inverse of name()" % (s, var), names.get(var) == s, fn=pk, site=psite, detail="name(%s) = %r" % (var, names.get(var)))
        ctx.ob("TYPE-TABLE", "table key %r is built with UniCase::ascii" % s, enc == "Ascii", fn=pk, site=psite, detail="encoding %s" % enc)
        seen.setdefault(s.lower(), []).append(var)
    for v in variants:
        ctx.ob("TYPE-TABLE", "variant %s is reachable through the lookup table" % v, any(var == v for _, _, var in entries), fn=pk, site=psite, detail="")
    for s, vs in seen.items():
        ctx.ob("TYPE-TABLE", "table key %r occurs once (ignoring case)" % s, len(vs) == 1, fn=pk, site=psite, detail=str(vs))


def rule_views(ctx):
    facts = ctx.facts()
    nk, _ = name_table(facts)

    def is_name_call(t):
        return t[0] == "call" and t[1] == nk and len(t[2]) == 1 and t[2][0] == ("arg", 1)

    views = {
        "From<PackageType> for &str": [k for k, f in facts.fns.items() if f.get("impl_trait_def") == "std::convert::From" and f.get("inputs") == ["package_type::PackageType"] and f.get("impl_self") == "&'static str"],
        "AsRef<str>": [k for k, f in facts.fns.items() if f.get("impl_trait_def") == "std::convert::AsRef" and f.get("impl_self") == "package_type::PackageType"],
        "PurlShape::package_type": [k for k, f in facts.fns.items() if f.get("impl_trait_def") == "PurlShape" and f.get("impl_self") == "package_type::PackageType" and f.get("name") == "package_type"],
    }
    view_keys = {}
    for nm, ks in views.items():
        if len(ks) != 1:
            raise AnchorError("view %s not found" % nm)
        view_keys[nm] = ks[0]

    def self_arg(a):
        a = strip(a)
        return a == ("arg", 1)

    def view_target(k):
        """what a view returns: 'name' (name() of self, possibly wrapped in Cow::Borrowed), ('view', other) (another view of
        self), or None"""
        b = facts.body(k)
        if b.back_edges():
            return None
        t = norm(b.resolve_local(0))
        if t[0] == "agg" and t[1][0] == "adt" and t[1][1] == "std::borrow::Cow" and t[1][2] == "Borrowed" and len(t[2]) == 1:
            t = t[2][0]
        if is_name_call(t):
            return "name"
        if t[0] == "call" and t[1] in view_keys.values() and len(t[2]) == 1 and self_arg(t[2][0]):
            return ("view", t[1])
        return None

    def resolves_to_name(k, seen=()):
        v = view_target(k)
        if v == "name":
            return True
        if isinstance(v, tuple) and v[1] not in seen:
            return resolves_to_name(v[1], seen + (k,))
        return False
    for nm, k in view_keys.items():
        b = facts.body(k)
        t = norm(b.resolve_local(0))
        ctx.ob("VIEWS", "%s is name()" % nm, resolves_to_name(k), fn=k, site=fn_site(facts, k), detail="returns %s" % nshow(t))
    ks = [k for k, f in facts.fns.items() if f.get("impl_trait_def") == "std::fmt::Display" and f.get("impl_self") == "package_type::PackageType"]
    if len(ks) != 1:
        raise AnchorError("Display for PackageType not found")
    b = facts.body(ks[0])
    t = norm(b.resolve_local(0))

    def is_name_like(x):
        x = norm(x)
        return is_name_call(x) or (x[0] == "call" and x[1] in view_keys.values() and len(x[2]) == 1 and self_arg(x[2][0]) and resolves_to_name(x[1]))
    ok = False
    writes = [(bb, tt) for bb, tt in b.calls() if any(strip(b.resolve_operand(a)) == ("arg", 2) for a in tt["args"])]
    if len(writes) == 1:
        bb, tt = writes[0]
        p = callee_name(tt["callee"])
        args = [b.resolve_operand(a) for a in tt["args"]]
        if p in ("std::fmt::Formatter::<'a>::write_str", "<std::fmt::Formatter<'_> as std::fmt::Write>::write_str", "std::fmt::Formatter::<'a>::pad") and is_name_like(args[1]):
            ok = True
        elif p == "std::fmt::Formatter::<'a>::write_fmt":
            pieces = fmt_pieces(args[1])
            ok = pieces is not None and len(pieces) == 1 and pieces[0][0] == "display" and is_name_like(pieces[0][1])
        elif p in ("<str as std::fmt::Display>::fmt", "std::fmt::Display::fmt") and is_name_like(args[0]):
            ok = True
    ctx.ob("VIEWS", "Display writes exactly name()", ok and not b.back_edges(), fn=ks[0], site=fn_site(facts, ks[0]), detail=nshow(t))
    # FromStr
    ks = [k for k, f in facts.fns.items() if f.get("impl_trait_def") == "std::str::FromStr" and f.get("impl_self") == "package_type::PackageType"]
    if len(ks) != 1:
        raise AnchorError("FromStr for PackageType not found")
    ok, err, det = fromstr_shape(facts, ks[0])
    ctx.ob("VIEWS", "FromStr is one lookup of UniCase::new(s) in the table", ok, fn=ks[0], site=fn_site(facts, ks[0]), detail=det)


def fromstr_shape(facts, key):
    """(is `PACKAGE_TYPES.get(&UniCase::new(s))` mapped to Ok(found) / Err(e)?, error constant, shown term) -- as the
    combinator chain `.copied().ok_or(e)` or as the equivalent `match`"""
    b = facts.body(key)
    t = norm(b.resolve_local(0))

    def is_lookup(x):
        if x[0] == "call" and x[1] == "phf::Map::<K, V>::get":
            tbl, probe = x[2]
            return probe[0] == "call" and probe[1] == "unicase::UniCase::<S>::new" and probe[2] == (("arg", 1),)
        return False
    ok = False
    err = None
    if t[0] == "call" and t[1] == "std::option::Option::<T>::ok_or":
        x = t[2][0]
        if x[0] == "call" and x[1] == "std::option::Option::<&T>::copied":
            x = x[2][0]
        ok = is_lookup(x)
        err = models.error_const(t[2][1])
    else:
        # match table.get(key) { Some(t) => Ok(*t), None => Err(Unsupported) }
        rets = [(bb, models.classify_return(n)) for (bb, n) in models.returns(b)]
        lookups = [bb for bb, tt in b.calls() if callee_name(tt["callee"]) == "phf::Map::<K, V>::get"]
        if len(rets) == 2 and len(lookups) == 1 and sorted(c[0] for _, c in rets) == ["err", "ok"]:
            (be, ce), (bo, co) = sorted(rets, key=lambda r: r[1][0])
            # (the passing side of an `assert!` / `debug_assert!` on the way is not a condition of the result)
            ae = [models.canon_atom(a) for gb_, a in atoms_at(b, be) if not models.is_assertion_guard(b, gb_)]
            ao = [models.canon_atom(a) for gb_, a in atoms_at(b, bo) if not models.is_assertion_guard(b, gb_)]
            pay = co[1]
            look = pay[1] if pay[0] == "some" else None
            if look is not None and look[0] == "call" and look[1] == "std::option::Option::<&T>::copied":
                look = look[2][0]   # Some(&t) -> Some(t): the same variant, the value copied
            LOOK = ("phf::Map::<K, V>::get", "std::option::Option::<&T>::copied")
            ok = look is not None and is_lookup(look) and len(ae) == 1 and ae[0][0] == "callres" and ae[0][1] in LOOK and ae[0][-1] == "None" \
                and len(ao) == 1 and ao[0][0] == "callres" and ao[0][1] in LOOK and ao[0][-1] == "Some"
            err = models.error_const(ce[1])
    return ok and not b.back_edges(), err, nshow(t)[:200]


def rule_nolookalike(ctx):
    facts = ctx.facts()
    nk, names = name_table(facts)
    site = fn_site(facts, nk)
    for v, s in sorted(names.items()):
        for seq in FOLD_SEQS:
            ctx.ob("NO-LOOKALIKE", "%r does not contain %r" % (s, seq), seq not in s, fn=nk, site=site, detail="a name containing %r would be matched by a non-ASCII string whose case folding is that name" % seq)
    if ctx.tier == "thorough":
        crosscheck_unicase(ctx)


def crosscheck_unicase(ctx):
    """Recompute the fold-sensitive ASCII sequences from unicase's own table (vendored in the cargo registry)."""
    import glob, os, re
    cands = glob.glob(os.path.expanduser("~/.cargo/registry/src/*/unicase-2.6.0/src/unicode/map.rs"))
    if not cands:
        ctx.ob("NO-LOOKALIKE", "cross-check against unicase-2.6.0/src/unicode/map.rs", False, detail="source not found in the cargo registry")
        return
    txt = open(cands[0]).read()
    seqs = set()
    n = 0

    def ev(expr, f):
        e = expr.strip().rstrip(",")
        m = re.match(r"if \((.*?)\) == 1 \{(.*?)\} else \{(.*?)\}$", e)
        if m:
            return ev(m.group(2), f) if eval(m.group(1).replace("from", str(f))) == 1 else ev(m.group(3), f)
        e = re.sub(r"from\.wrapping_add\((0x[0-9a-fA-F]+)\)", r"((F+\1)&0xFFFFFFFF)", e)
        e = re.sub(r"from\.wrapping_sub\((0x[0-9a-fA-F]+)\)", r"((F-\1)&0xFFFFFFFF)", e)
        e = e.replace("!1", "~1").replace("from", "F")
        if not re.fullmatch(r"[F0-9a-fA-Fx+\-&|~() ]+", e):
            raise ValueError("unparsed fold expression: " + expr)
        return eval(e, {"F": f})

    high = None
    for line in txt.splitlines():
        l = line.strip()
        m = re.match(r"(0x[0-9a-fA-F]{2}) => \{$", l)
        if m:
            high = int(m.group(1), 16)
            continue
        if l.startswith("let single_char: u32") or l.startswith("let single_char = match orig"):
            high = None
            continue
        m = re.match(r"(0x[0-9a-fA-F]+) => return Fold::(?:Two|Three)\((.*)\),?$", l)
        if m:
            lo = int(m.group(1), 16)
            src = (high << 8 | lo) if high is not None and lo < 0x100 else lo
            chars = [chr(int(x, 16)) for x in re.findall(r"\\u\{([0-9a-fA-F]+)\}", m.group(2))]
            n += 1
            if src >= 128 and chars and all(ord(c) < 128 for c in chars):
                seqs.add("".join(chars))
            continue
        m = re.match(r"(0x[0-9a-fA-F]+) => (0x[0-9a-fA-F]+),?$", l)
        if m:
            lo = int(m.group(1), 16)
            src = (high << 8 | lo) if high is not None and lo < 0x100 else lo
            dst = int(m.group(2), 16)
            n += 1
            if src >= 128 and dst < 128:
                seqs.add(chr(dst))
            continue
        m = re.match(r"x @ _ if (?:(0x[0-9a-fA-F]+) <= x)?(?: && )?(?:x <= (0x[0-9a-fA-F]+))?\s*=> (.*)$", l)
        if m:
            a = int(m.group(1), 16) if m.group(1) else 0
            top = 0xFF if high is not None else 0x10FFFF
            b = int(m.group(2), 16) if m.group(2) else top
            for x in range(a, b + 1):
                src = (high << 8 | x) if high is not None else x
                dst = ev(m.group(3), src)
                n += 1
                if src >= 128 and dst < 128:
                    seqs.add(chr(dst))
            continue
    covered = all(any(q in s_ for q in FOLD_SEQS) for s_ in seqs)
    present = all(q in seqs for q in FOLD_SEQS)
    ctx.ob("NO-LOOKALIKE", "fold-sensitive ASCII sequences recomputed from unicase's own table are covered by %s" % FOLD_SEQS, covered and present and n > 1000, detail="%d mappings read; ASCII images of non-ASCII sources: %s" % (n, sorted(seqs)))


def rule_serde(ctx):
    facts = ctx.facts("serde")
    nk, names = name_table(facts)
    adt = facts.adts["package_type::PackageType"]
    variants = [v["name"] for v in adt["variants"]]
    ser = [k for k, f in facts.fns.items() if f.get("impl_trait", "").endswith("Serialize") and f.get("impl_self") == "package_type::PackageType" and f.get("name") == "serialize"]
    if len(ser) != 1:
        raise AnchorError("Serialize for PackageType not found in the serde feature set")
    tab = {}
    for o in paths.outcomes(facts, ser[0]):
        vs = [a for a in o["atoms"] if a[0] == "is"]
        r = o["ret"]
        if len(vs) == 1 and r[0] == "tail" and r[1][1].endswith("serialize_unit_variant"):
            a = r[1][2]
            tab[vs[0][2]] = (a[2][1] if a[2][0] == "const" else None, a[3][1] if a[3][0] == "const" else None)
    for i, v in enumerate(variants):
        got = tab.get(v)
        ctx.ob("SERDE-NAMES", "Serialize writes %s as unit variant %r" % (v, names.get(v)), got is not None and got[1] == names.get(v), fn=ser[0], site=fn_site(facts, ser[0]), detail=str(got))
    # Deserialize: VARIANTS and the field visitor
    vk = [k for k in facts.consts if k.endswith("::VARIANTS") and "PackageType" in k]
    if len(vk) != 1:
        raise AnchorError("derived VARIANTS const not found")
    vv = simplify_val(facts.consts[vk[0]]["v"])
    lst = list(vv[1]) if vv[0] in ("slice", "array") else None
    ctx.ob("SERDE-NAMES", "Deserialize VARIANTS = names in variant order", lst == [names.get(v) for v in variants], fn=vk[0], detail=str(lst))
    vs = [k for k in facts.bodies if k.endswith("::visit_str") and "__FieldVisitor" in k and "PackageType" in k]
    if len(vs) != 1:
        raise AnchorError("derived field visitor visit_str not found")
    acc = {}
    for o in paths.outcomes(facts, vs[0]):
        pos = [a for a in o["atoms"] if (a[0] == "inlist" and a[3] is True and len(a[1]) == 1) or (a[0] == "empty" and a[2] is True)]
        r = o["ret"]
        if len(pos) == 1 and r[0] == "ok" and r[1][0] == "agg":
            lit = pos[0][1][0] if pos[0][0] == "inlist" else ""
            acc[lit] = r[1][1][2]
    for i, v in enumerate(variants):
        ctx.ob("SERDE-NAMES", "Deserialize accepts %r as variant #%d (%s)" % (names.get(v), i, v), acc.get(names.get(v)) == "__field%d" % i, fn=vs[0], detail=str(acc.get(names.get(v))))
    ctx.ob("SERDE-NAMES", "Deserialize accepts no other string", set(acc) == set(names.values()), fn=vs[0], detail=str(sorted(x for x in acc if x not in names.values())))


THOROUGH_FS = []

RULES = [
    ("TYPE-TABLE", rule_type_table, 7 * 6),
    ("VIEWS", rule_views, 3),
    ("NO-LOOKALIKE", rule_nolookalike, 7 * 6),
    ("SERDE-NAMES", rule_serde, 7 * 2 + 2),
]

MANIFEST = {
    "text": "Table-level static decision over all variants: name() arms (MIR path outcomes) and the phf entries (compiler-evaluated static memory) are mutually inverse bijections; names are valid ASCII lower-case; every string view is a single call of name(); FromStr is one UniCase::new lookup; serde constants (serde feature set) equal name(); no name contains a fold-sensitive sequence, so no non-ASCII look-alike folds to a name.",
    "note": "Trusted: rustc const evaluation and MIR, extractor, phf lookup and unicase folding semantics (dependencies). Exhaustive over the finite tables; the 'all strings' side follows from unicase equality semantics, which is assumed.",
    "technique": "evaluated-constant table vs. match-arm table bijection check; delegation-shape check of views; fold-sequence exclusion",
    "design_ref": "DESIGN.md 5.15",
}
