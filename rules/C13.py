"""C13 -- all built-in type parameters behave identically (DESIGN.md 5.13)."""
from purlsa.core import AnchorError
from purlsa.sem import norm, nshow
from purlsa import models, boolsum, paths
from purlsa.models import show_canon
from .common import fn_site

LEVEL = "other"
EXPLANATION = (
    "Sibling agreement decided statically: every `impl PurlShape` whose Self is a string-like type (String, Cow<str> with its two branches, "
    "SmartString<M>) is summarised path by path (branch atoms, effects on the text, result) with local helpers inlined, and every summary must be the "
    "same (guard, error, transform) triple: refuse exactly when !valid_type(text) with InvalidPackageType, otherwise ASCII-lower-case the text - or leave it "
    "untouched only under a guard whose character class excludes [A-Z]; `parts` is never used; package_type() borrows the text; Error = ParseError. "
    "The parser side is one generic body (no per-type code)."
)
RULE_TEXT = "obligations = per impl and per path: guard/transform/result triple equals the common reference; per impl: package_type() view, error type, parts unused; one obligation for genericity of from_str/build/Display"
ASSUMPTIONS = [
    "str::make_ascii_lowercase / to_ascii_lowercase map exactly [A-Z] to [a-z] and fix every other char",
    "String, Cow<str> and SmartString deref to the same str view of their content",
]
TRUSTED_BASE = ["callee semantics table (DESIGN.md section 3)"]

TEXT_SHOWN = ("(arg1 as Owned).0", "(arg1 as Borrowed).0")
AZ = sum(1 << c for c in range(65, 91))


def is_text(v):
    return v == ("Input", 1) or (isinstance(v, tuple) and v and v[0] == "?" and v[1] in TEXT_SHOWN)


def string_shape_impls(facts):
    out = {}
    for k, f in facts.fns.items():
        if f.get("impl_trait_def") == "PurlShape":
            st = f.get("impl_self", "")
            if st == "std::string::String" or st.startswith("std::borrow::Cow<") or st.startswith("smartstring::SmartString<"):
                out.setdefault(st, {})[f["name"]] = k
    return out


def flat_outcomes(facts, key, summ, depth=0):
    """[(conds, transform, result, parts_used, unknowns, variant)]"""
    if depth > 3:
        raise AnchorError("helper nesting too deep", key)
    res = []
    for o in paths.outcomes(facts, key):
        alts = [{"conds": set(), "transform": "id", "unknown": [], "parts": False, "variant": None}]
        for a in o["atoms"]:
            if a[0] == "is" and a[1] in ("arg1", "*arg1") and a[2] in ("Owned", "Borrowed"):
                for x in alts:
                    x["variant"] = a[2]
            elif a[0] == "pred" and a[1] == "is_valid_package_type" and len(a[2]) == 1 and is_text(a[2][0]):
                for x in alts:
                    x["conds"].add(("valid_type", a[3]))
            elif a[0] in ("all", "any") and is_text(a[1]):
                cs = boolsum.charset(boolsum.pred_formula(facts, summ, a[2]), facts)
                kind, pos = a[0], a[3]
                if kind == "any":  # any(P) == !all(!P)
                    kind, cs, pos = "all", boolsum.universe() & ~cs, not pos
                for x in alts:
                    x["conds"].add((kind, cs, pos))
            elif a[0] == "callres" and a[1] in facts.bodies and len(a[2]) == 1 and is_text(a[2][0]):
                want = "ok" if a[3] == "Ok?" else "err"
                sub = [s for s in flat_outcomes(facts, a[1], summ, depth + 1) if (s["result"][0] == "ok") == (want == "ok")]
                new = []
                for x in alts:
                    for s in sub:
                        y = {"conds": set(x["conds"]) | s["conds"], "transform": s["transform"] if s["transform"] != "id" else x["transform"], "unknown": x["unknown"] + s["unknown"], "parts": x["parts"] or s["parts"], "variant": x["variant"], "sub_result": s["result"]}
                        new.append(y)
                alts = new
            else:
                for x in alts:
                    x["unknown"].append("guard " + show_canon(a))
        for e in o["effects"]:
            if e[0] == "call":
                p, tgt = e[1], e[2]
                if tgt[0] == "arg" and tgt[1] == 2:
                    for x in alts:
                        x["parts"] = True
                elif p.endswith("::make_ascii_lowercase") and tgt[0] == "arg" and tgt[1] == 1:
                    for x in alts:
                        x["transform"] = "ascii_lower"
                elif p.endswith("DerefMut>::deref_mut") or p == "std::ops::DerefMut::deref_mut" or p.endswith("::as_mut_str"):
                    pass
                elif (p in ("std::iter::Iterator::all", "std::iter::Iterator::any") or p.startswith("<std::str::Bytes<'_> as std::iter::Iterator>::a")) and tgt[0] == "var":
                    pass
                elif p in facts.bodies and tgt[0] == "arg" and tgt[1] == 1:
                    pass  # handled through the callres atom
                else:
                    for x in alts:
                        x["unknown"].append("effect %s on %s" % (p, tgt))
            elif e[0] == "store":
                pl, val = e[1], e[2]
                v = val
                while v[0] == "conv":
                    v = v[1]
                if pl == ("arg", 1) and v[0] == "agg" and v[1][0] == "adt" and v[1][2] == "Owned" and v[2][0][0] == "call" and v[2][0][1].endswith("::to_ascii_lowercase") and is_text(models._value(v[2][0][2][0])):
                    for x in alts:
                        x["transform"] = "ascii_lower"
                else:
                    for x in alts:
                        x["unknown"].append("store %s <- %s" % (nshow(pl), nshow(val)[:80]))
        for c in o["calls"]:
            for a in c[1]:
                if a == ("arg", 2) or (a[0] == "field" and models.field_path(a) is None and "arg2" in nshow(a)):
                    for x in alts:
                        x["parts"] = True
        r = o["ret"]
        if r[0] == "tail" and r[1][0] == "call" and r[1][1] in facts.bodies and len(r[1][2]) == 1 and is_text(models._value(r[1][2][0])):
            # `helper(self)` as the tail expression: this path's outcome is whatever the helper's is
            sub = flat_outcomes(facts, r[1][1], summ, depth + 1)
            for x in alts:
                for s in sub:
                    y = {"conds": set(x["conds"]) | s["conds"], "transform": s["transform"] if s["transform"] != "id" else x["transform"], "unknown": x["unknown"] + s["unknown"], "parts": x["parts"] or s["parts"], "variant": x["variant"], "result": s["result"], "path": o["path"] + ("tail",) + tuple(s["path"])}
                    res.append(y)
            continue
        for x in alts:
            if r[0] == "ok":
                x["result"] = ("ok",)
            elif r[0] == "err":
                x["result"] = ("err", models.error_const(r[1]))
            elif r[0] == "propagate":
                x["result"] = x.get("sub_result", ("err", "?propagated"))
            else:
                x["result"] = (r[0],)
                x["unknown"].append("return shape %s" % r[0])
            x["path"] = o["path"]
            res.append(x)
    return res


def sibling_obligations(ctx, facts, rule="SIBLING"):
    summ = boolsum.Summarizer(facts)
    impls = string_shape_impls(facts)
    want = ["std::string::String", "std::borrow::Cow<'_, str>"]
    if "smartstring" in facts.features:
        want.append("smartstring::SmartString<M>")
    for w in want:
        ctx.ob(rule, "impl PurlShape for %s exists" % w, w in impls, fn=w, detail="string-like PurlShape impls: %s" % sorted(impls))
    for st, fns in sorted(impls.items()):
        k = fns.get("finish")
        if not k:
            raise AnchorError("no finish in impl PurlShape for %s" % st)
        site = fn_site(facts, k)
        outs = flat_outcomes(facts, k, summ)
        if st.startswith("std::borrow::Cow<") and any(o["variant"] is None for o in outs):
            # a path that returns before the variant is looked at (a validity test hoisted above the match) is a path of
            # both variants
            exp = []
            for o in outs:
                if o["variant"] is None:
                    for v in ("Borrowed", "Owned"):
                        exp.append(dict(o, variant=v))
                else:
                    exp.append(o)
            outs = exp
        variants = set(o["variant"] for o in outs)
        for o in outs:
            tag = "%s%s path %s" % (st, "::" + o["variant"] if o["variant"] else "", "-".join(str(b) for b in o["path"][:6]))
            vt = [c for c in o["conds"] if c[0] == "valid_type"]
            det = "conds=%s transform=%s result=%s" % (sorted((c[0], c[-1]) for c in o["conds"]), o["transform"], o["result"])
            if o["unknown"]:
                ctx.ob(rule, "%s: only recognised guards and effects" % tag, False, fn=k, site=site, detail="; ".join(o["unknown"])[:300])
                continue
            if o["result"] == ("ok",):
                okv = ("valid_type", True) in o["conds"]
                low = o["transform"] == "ascii_lower"
                if not low:
                    # untouched only under a guard excluding [A-Z]
                    low = any(c[0] == "all" and c[2] is True and (c[1] & AZ) == 0 for c in o["conds"])
                ctx.ob(rule, "%s: Ok only if valid_type, text ASCII-lower-cased (or provably free of [A-Z])" % tag, okv and low, fn=k, site=site, detail=det)
            elif o["result"][0] == "err":
                ok = o["result"][1] == "ParseError::InvalidPackageType" and ("valid_type", False) in o["conds"] and o["transform"] == "id"
                ctx.ob(rule, "%s: the only refusal is !valid_type -> InvalidPackageType, text untouched" % tag, ok, fn=k, site=site, detail=det)
            else:
                ctx.ob(rule, "%s: returns Ok or Err" % tag, False, fn=k, site=site, detail=det)
            ctx.ob(rule, "%s: `parts` is not used" % tag, not o["parts"], fn=k, site=site, detail="")
        if st.startswith("std::borrow::Cow<"):
            ctx.ob(rule, "%s: both Cow variants are handled" % st, variants == {"Owned", "Borrowed"}, fn=k, site=site, detail=str(variants))
        # every text is decided: some path with valid_type True and some with False (per variant)
        for v in variants:
            sub = [o for o in outs if o["variant"] == v]
            t = any(("valid_type", True) in o["conds"] for o in sub)
            f_ = any(("valid_type", False) in o["conds"] for o in sub)
            ctx.ob(rule, "%s%s: valid_type is evaluated on the text" % (st, "::" + v if v else ""), t and f_, fn=k, site=site, detail="")
        # package_type()
        pk = fns.get("package_type")
        if not pk:
            raise AnchorError("no package_type in impl PurlShape for %s" % st)
        t = norm(facts.body(pk).resolve_local(0))
        okp = t[0] == "agg" and t[1][0] == "adt" and t[1][1] == "std::borrow::Cow" and t[1][2] == "Borrowed" and t[2][0] == ("arg", 1)
        ctx.ob(rule, "%s: package_type() = Cow::Borrowed(&**self)" % st, okp, fn=pk, site=fn_site(facts, pk), detail=nshow(t))
        out = facts.body(k).locals[0]["ty"]  # MIR return place type (normalised by the compiler)
        ctx.ob(rule, "%s: Error = ParseError" % st, out == "std::result::Result<(), parse::ParseError>", fn=k, site=site, detail=out)


def rule_sibling(ctx):
    facts = ctx.facts()
    sibling_obligations(ctx, facts)
    if ctx.tier == "thorough":
        for fs in ("pt", "none"):
            sibling_obligations(ctx, ctx.facts(fs), rule="SIBLING")


def rule_generic(ctx):
    facts = ctx.facts()
    # parser/builder/formatter are single generic bodies: no per-type specialisation exists
    for finder, nm in ((models.from_str_fn, "from_str"), (models.build_fn, "build"), (models.display_fn, "Display::fmt")):
        k = finder(facts)
        f = facts.fns[k]
        generic = "<T>" in f.get("impl_self", "") or "GenericPurl<T>" in f.get("impl_self", "") or "GenericPurlBuilder<T>" in f.get("impl_self", "")
        ctx.ob("GENERIC", "%s is one body generic over T" % nm, generic, fn=k, site=fn_site(facts, k), detail="impl self type %s" % f.get("impl_self"))
    # <String as FromStr> and <SmartString as FromStr> are std/dependency impls (total); nothing local converts the type
    local_fromstr = [k for k, f in facts.fns.items() if f.get("impl_trait_def") == "std::str::FromStr" and (f.get("impl_self", "").startswith("std::string::String") or "SmartString" in f.get("impl_self", ""))]
    ctx.ob("GENERIC", "no local FromStr impl for the string type parameters", not local_fromstr, detail=str(local_fromstr))


THOROUGH_FS = []

RULES = [("SIBLING", rule_sibling, 20), ("GENERIC", rule_generic, 4)]

MANIFEST = {
    "text": "Static sibling agreement: per-path summaries (guard atoms, effects on the text, result) of the finish/package_type bodies of all string-like PurlShape impls, with helpers inlined, are all equal to one (guard, error, transform) reference; the no-op branch is accepted only under a guard whose computed character class excludes [A-Z]. Parser, builder and formatter are single generic bodies, so nothing else can differ between the type parameters.",
    "note": "Trusted: rustc MIR, extractor, semantics of make_ascii_lowercase/to_ascii_lowercase and of the Deref views of String/Cow/SmartString. Not decided: behaviour inside smartstring.",
    "technique": "per-path outcome summaries of sibling trait impls compared against a common reference triple; char-class translation of guards",
    "design_ref": "DESIGN.md 5.13",
}


def idempotence_obligations(ctx, facts, rule="IDEMP-SHAPES", only=None):
    """What C10 needs from the string shapes: finish(finish(x)) = finish(x) on values that passed once.
    Weaker than SIBLING: a shape that validates differently but idempotently is not reported here."""
    summ = boolsum.Summarizer(facts)
    impls = string_shape_impls(facts)
    for st, fns in sorted(impls.items()):
        if only is not None and not st.startswith(only):
            continue
        k = fns.get("finish")
        if not k:
            continue
        site = fn_site(facts, k)
        outs = flat_outcomes(facts, k, summ)
        oks = [o for o in outs if o["result"] == ("ok",)]
        errs = [o for o in outs if o["result"][0] == "err"]
        unknown = [u for o in outs for u in o["unknown"]]
        ctx.ob(rule, "%s: finish is understood (guards and effects)" % st, not unknown, fn=k, site=site, detail="; ".join(unknown)[:200])
        if unknown:
            continue
        ts = set(o["transform"] for o in oks)
        ctx.ob(rule, "%s: every successful path applies an idempotent transform (none or ASCII lower-casing)" % st, ts <= {"id", "ascii_lower"}, fn=k, site=site, detail=str(sorted(ts)))
        if "ascii_lower" in ts:
            for o in oks:
                if o["transform"] == "id":
                    guarded = any(c[0] == "all" and c[2] is True and (c[1] & AZ) == 0 for c in o["conds"])
                    ctx.ob(rule, "%s%s: the untouched path is taken only for text without [A-Z] (so a second pass cannot change it)" % (st, "::" + o["variant"] if o["variant"] else ""), guarded, fn=k, site=site, detail=str(sorted((c[0], c[-1]) for c in o["conds"])))
        for o in errs:
            stable = ("valid_type", False) in o["conds"]
            ctx.ob(rule, "%s: a refusal depends only on the valid-type predicate, which is invariant under ASCII lower-casing" % st, stable, fn=k, site=site, detail=str(sorted((c[0], c[-1]) for c in o["conds"])))
