"""C03 -- canonical string has exactly the documented shape and escaping (DESIGN.md 5.3)."""
from purlsa.core import AnchorError, strip
from purlsa.sem import norm, nshow, show_atom
from purlsa import models, boolsum
from .common import R_ESCSET, VALID_KEY_SET, VALID_TYPE_SET, ch, fn_site, bits_list

LEVEL = "other"
EXPLANATION = (
    "Static model-level decision. The formatter model FM (ordered write sites of `impl Display for GenericPurl`, their "
    "format_args templates, argument origins and dominating guards) is extracted from MIR and compared with the documented "
    "shape R-SHAPE; each AsciiSet passed to utf8_percent_encode is read from the compiler's evaluated constant and compared "
    "bit for bit (both directions) with the documented escape set of that component; the accessors are summarised. "
    "Decides the structure for all PURL values; does not execute purl."
)
RULE_TEXT = "obligations = per write site: template/argument/guard equality with R-SHAPE; per encode site x 128 ASCII bytes: membership equals the documented set; per accessor: summary equals Some(field).filter(!is_empty)"
ASSUMPTIONS = [
    "percent_encoding::utf8_percent_encode(s, SET) writes every byte >= 0x80 and every ASCII byte in SET as %XX with upper-case hex and leaves every other byte unchanged",
    "AsciiSet is { mask: [u32; 4] } with bit b of the little-endian 128-bit mask <=> byte b in the set (layout re-read from the evaluated constant on every run)",
    "core::fmt::Arguments byte-template encoding as documented in rust-src core/src/fmt/mod.rs",
]
TRUSTED_BASE = ["callee semantics table (DESIGN.md section 3) for percent-encoding and core::fmt"]

FIELD_COMPONENT = {"parts.namespace": "namespace", "parts.name": "name", "parts.version": "version", "parts.subpath": "subpath", "parts.qualifiers": "qualifiers", "package_type": "type"}


def component_of(facts, comp, summ):
    """component name for a classified FM component"""
    if comp[0] == "accessor":
        s = models.accessor_summary(facts, comp[1], summ)
        fp = models.field_path(s["field"]) if s["field"] is not None else None
        name = FIELD_COMPONENT.get(fp)
        if name is None:
            raise AnchorError("accessor %s does not read a known field (reads %s)" % (comp[1], fp))
        want_kind = "some" if s["kind"] == "some-filter" else "plain"
        if comp[2] != want_kind:
            raise AnchorError("accessor %s used as %s but summarised as %s" % (comp[1], comp[2], s["kind"]))
        return name
    if comp[0] == "loopitem":
        src = comp[2]
        # source must be an iteration over arg1.parts.qualifiers
        inner = src
        hops = []
        while inner[0] == "call" and len(inner[2]) >= 1:
            hops.append(inner[1])
            inner = inner[2][0]
        fp = models.field_path(inner)
        if fp != "parts.qualifiers":
            raise AnchorError("qualifier loop iterates over %s, not self.parts.qualifiers" % nshow(src))
        for h in hops:
            if "rev" in h.lower() or "Rev" in h:
                raise AnchorError("qualifier loop iterates in reverse: %s" % h)
        if comp[1] == "0":
            return "qualifier-key"
        if comp[1] == "1":
            return "qualifier-value"
    if comp[0] == "field":
        fp = models.field_path(comp[1])
        if fp in FIELD_COMPONENT:
            return FIELD_COMPONENT[fp] + "-field"
    raise AnchorError("cannot tell which component is written: %r" % (comp,))


def canon_guard(facts, a, summ):
    if a[0] == "pred" and a[1] == "is_valid_package_type":
        return "valid_type" if a[3] else "!valid_type"
    if a[0] == "pred" and a[1] in ("qualifiers::Qualifiers::is_empty",) and not a[3]:
        fp = models.field_path(a[2][0])
        if fp == "parts.qualifiers":
            return "quals_nonempty"
    if a[0] == "is" and a[2] in ("Ok?", "Ok"):   # `?`, or an explicit `match r { Ok(()) => {}, Err(e) => return Err(e) }`
        x = a[1]
        if x[0] == "call" and ("write_fmt" in x[1] or "write_str" in x[1] or "write_char" in x[1] or x[1].endswith(" as std::fmt::Display>::fmt") or x[1] == "std::fmt::Display::fmt"):
            return None  # an earlier write succeeded
    if a[0] == "is" and a[2] == "Some":
        x = a[1]
        if x[0] == "call" and x[2] == (("arg", 1),) and x[1] in facts.bodies:
            return "some:" + component_of(facts, ("accessor", x[1], "some"), summ)
        if x[0] == "call" and x[1].endswith("::next"):
            return "loop_item"
    if a[0] == "is" and a[2] == "None":
        x = a[1]
        if x[0] == "call" and x[1].endswith("::next"):
            return None  # the loop ran to exhaustion: holds on every path that leaves the loop (its termination is C06's LOOP rule)
    return "unknown:" + show_atom(a)


def flatten(facts, fm, summ):
    out = []
    for e in fm["emits"]:
        gs = set()
        for a in e["atoms"]:
            g = canon_guard(facts, a, summ)
            if g is not None:
                gs.add(g)
        if "loop_item" in gs:
            gs.discard("quals_nonempty")
        for it in e["items"]:
            if it[0] == "lit":
                item = ("lit", it[1])
            elif it[0] == "enc":
                item = ("enc", component_of(facts, it[1], summ))
            elif it[0] == "type":
                s = models.accessor_summary(facts, it[1], summ)
                fp = models.field_path(s["field"]) if s["field"] is not None else None
                item = ("type",) if fp == "package_type" else ("raw", "type-from:" + str(fp))
            elif it[0] == "prefix":
                item = ("prefix", it[1][0], it[1][1])
            elif it[0] == "debug":
                item = ("debug", it[1])
            else:
                item = ("raw", repr(it[1])[:120])
            if out and item[0] == "lit" and out[-1][1][0] == "lit" and out[-1][0] == frozenset(gs):
                out[-1] = (out[-1][0], ("lit", out[-1][1][1] + item[1]), out[-1][2])
            else:
                out.append((frozenset(gs), item, e["site"]))
    return out


def G(*xs):
    return frozenset(("valid_type",) + xs)


R_SHAPE = [
    (G(), ("lit", "pkg:")),
    (G(), ("type",)),
    (G(), ("lit", "/")),
    (G("some:namespace"), ("enc", "namespace")),
    (G("some:namespace"), ("lit", "/")),
    (G(), ("enc", "name")),
    (G("some:version"), ("lit", "@")),
    (G("some:version"), ("enc", "version")),
    (G("loop_item"), ("prefix", ord("?"), ord("&"))),
    (G("loop_item"), ("enc", "qualifier-key")),
    (G("loop_item"), ("lit", "=")),
    (G("loop_item"), ("enc", "qualifier-value")),
    (G("some:subpath"), ("lit", "#")),
    (G("some:subpath"), ("enc", "subpath")),
]


def show_item(g, item):
    return "[%s] %s" % (",".join(sorted(g)), " ".join(str(x) for x in item))


def rule_shape(ctx):
    facts = ctx.facts()
    summ = boolsum.Summarizer(facts)
    fm = models.formatter_model(facts)
    flat = flatten(facts, fm, summ)
    key = fm["key"]
    n = max(len(flat), len(R_SHAPE))
    for i in range(n):
        exp = R_SHAPE[i] if i < len(R_SHAPE) else None
        act = flat[i] if i < len(flat) else None
        inst = "piece %d: %s" % (i, show_item(*exp) if exp else "<nothing more>")
        ok = exp is not None and act is not None and exp[0] == act[0] and exp[1] == act[1]
        ctx.ob("SHAPE", inst, ok, fn=key, site=act[2] if act else fn_site(facts, key), detail="extracted: %s" % (show_item(act[0], act[1]) if act else "<missing>"))
    # the qualifier loop is the only loop and the sites inside it are in one loop
    loops = set(e["loop"] for e in fm["emits"] if e["loop"] is not None)
    ctx.ob("SHAPE", "exactly one emitting loop (the qualifier loop)", len(loops) == 1, fn=key, detail="loops with write sites: %d" % len(loops))


def rule_typeguard(ctx):
    facts = ctx.facts()
    fm = models.formatter_model(facts)
    body = fm["body"]
    key = fm["key"]
    # the block taken when valid_type is false must diverge (documented panic), never reach a write or a return
    found = 0
    for b in range(body.n):
        t = body.term(b)
        if t["t"] != "switch" or body.is_cleanup(b):
            continue
        c = strip(body.resolve_operand(t["discr"]))
        if c[0] == "call" and c[1] == "is_valid_package_type":
            found += 1
            false_targets = [tg for (lab, tg) in body.edges(b) if lab == ("sw", 0)]
            for ft in false_targets:
                reach = body.reachable_from(ft)
                rets = [x for x in reach if body.term(x)["t"] == "return"]
                writes = [e["bb"] for e in fm["emits"] if e["bb"] in reach]
                ctx.ob("TYPE-GUARD", "invalid type diverges before any write", not rets and not writes, fn=key, site=body.site(b), detail="blocks reachable from the !valid_type edge: %d, returns %d, writes %d" % (len(reach), len(rets), len(writes)))
            # guard argument is the same text that is printed
            arg = norm(c[2][0])
            ctx.ob("TYPE-GUARD", "guard argument is package_type().package_type()", arg[0] == "call" and arg[1] == "PurlShape::package_type", fn=key, site=body.site(b), detail=nshow(arg))
    ctx.ob("TYPE-GUARD", "a valid_type test exists in Display::fmt", found == 1, fn=key, detail="found %d" % found)
    from .common import raw_type_alphabet_obligation
    raw_type_alphabet_obligation(ctx, facts, "TYPE-GUARD")
    # "`pkg:` + lower-case type": what Display prints is what the type parameter stored, and the built-in ones store it
    # ASCII-lower-cased (C13's sibling obligations; PackageType's names are lower-case by the table rules of C15)
    from . import C04
    C04.rule_typevalid(ctx, rule="TYPE-GUARD", alphabet=False)


def rule_escset(ctx):
    facts = ctx.facts()
    summ = boolsum.Summarizer(facts)
    fm = models.formatter_model(facts)
    key = fm["key"]
    nsites = 0
    for e in fm["emits"]:
        for it in e["items"]:
            if it[0] != "enc":
                continue
            nsites += 1
            comp = component_of(facts, it[1], summ)
            sname, bits = it[2], it[3]
            if comp == "qualifier-key":
                # keys are validated to [0-9A-Za-z._-]; the set must leave that alphabet raw
                for c in bits_list(VALID_KEY_SET):
                    ctx.ob("ESCSET", "%s|raw:%s" % (comp, ch(c)), not (bits >> c) & 1, fn=key, site=e["site"], detail="set %s; a key character must be written raw" % sname)
                continue
            if comp not in R_ESCSET:
                raise AnchorError("no documented escape set for component %s" % comp, key)
            want = R_ESCSET[comp]
            for c in range(128):
                w = (want >> c) & 1
                h = (bits >> c) & 1
                if w:
                    ctx.ob("ESCSET", "%s|missing:0x%02X" % (comp, c), h == 1, fn=key, site=e["site"], detail="byte %s must be escaped in %s; set %s = %032x" % (ch(c), comp, sname, bits))
                else:
                    ctx.ob("ESCSET", "%s|extra:0x%02X" % (comp, c), h == 0, fn=key, site=e["site"], detail="byte %s must NOT be escaped in %s; set %s = %032x" % (ch(c), comp, sname, bits))
    ctx.ob("ESCSET", "six encode sites", nsites == 6, fn=key, detail="found %d utf8_percent_encode sites" % nsites)


def rule_accessor(ctx):
    facts = ctx.facts()
    summ = boolsum.Summarizer(facts)
    want = {"namespace": ("parts.namespace", True), "version": ("parts.version", True), "subpath": ("parts.subpath", True), "name": ("parts.name", False)}
    for name, (fp, filt) in want.items():
        ks = [k for k in facts.find_fns(name=name, inherent=True) if facts.fns[k].get("impl_self", "").startswith("GenericPurl<")]
        if len(ks) != 1:
            raise AnchorError("accessor GenericPurl::%s not found" % name)
        k = ks[0]
        s = models.accessor_summary(facts, k, summ)
        got_fp = models.field_path(s["field"]) if s["field"] is not None else None
        ok = got_fp == fp
        if filt:
            f = s["filter"]
            # filter closure must be  !is_empty(param)  -- param is arg2 of the closure (a &&str)
            okf = f is not None and f[0] == "not" and f[1][0] == "p" and f[1][1].endswith("is_empty") and norm(f[1][2][0]) == ("arg", 2)
            ok = ok and s["kind"] == "some-filter" and okf
            det = "field %s, filter %s" % (got_fp, boolsum.show_formula(f) if f else None)
        else:
            ok = ok and s["kind"] == "plain"
            det = "field %s, kind %s" % (got_fp, s["kind"])
        ctx.ob("ACCESSOR", "%s() = %s" % (name, "Some(&%s).filter(!is_empty)" % fp if filt else "&" + fp), ok, fn=k, site=fn_site(facts, k), detail=det)


THOROUGH_FS = ["pt", "none", "serde"]

def rule_qm(ctx):
    """'key=value pairs joined by & in ascending key order': Display walks the qualifier list as stored, so the order printed is
    the map's representation invariant (C11): keys strictly ascending by the comparator that agrees with the printed keys."""
    from . import C11
    C11.invariant_obligations(ctx, ctx.facts(), rule="QM-INV")


RULES = [
    ("QM-INV", rule_qm, 40),
    ("SHAPE", rule_shape, 9),
    ("TYPE-GUARD", rule_typeguard, 3),
    ("ESCSET", rule_escset, 5 * 128 + 1),
    ("ACCESSOR", rule_accessor, 4),
]

MANIFEST = {
    "text": "Model-level static decision: the formatter model (write sites, templates, argument origins, guards) extracted from the MIR of Display::fmt equals the documented shape, and each compile-time evaluated escape set equals the documented set bit for bit in both directions; accessor summaries are Some(field).filter(!is_empty). Holds for every PURL value because the emitter is straight-line code over five fields; value-level facts of percent-encoding/core::fmt are assumed, not analysed. The type is written raw, so the type predicate must admit nothing that needs escaping and no separator (computed alphabet disjoint from the name escape set).",
    "note": "Trusted: rustc front end and const evaluator, the extractor/analyses, the callee semantics of utf8_percent_encode (bytes >= 0x80 and set members become %XX upper-case) and of core::fmt templates. Not decided: behaviour inside dependencies.",
    "technique": "MIR-derived formatter model vs. reference shape table; evaluated AsciiSet constants vs. documented escape sets (bitwise); boolean summaries of accessors",
    "design_ref": "DESIGN.md 5.3",
}
