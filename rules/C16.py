"""C16 -- serde form is exactly the string form (DESIGN.md 5.16).  Analysed in the feature set {default, serde}."""
from purlsa.core import AnchorError, callee_name
from purlsa.sem import norm, nshow
from purlsa import models
from .common import fn_site

LEVEL = "other"
EXPLANATION = (
    "Static delegation check in the serde feature set: Serialize::serialize for GenericPurl is a single call collect_str(serializer, self) (or the "
    "equivalent serialize_str(&self.to_string())); Deserialize::deserialize is a single call deserialize_str(deserializer, visitor); the visitor's impl "
    "defines exactly `expecting` and `visit_str` (read from the HIR associated-item list, so every non-string visit_* keeps serde's refusing default); "
    "visit_str is from_str(v).map_err(Error::custom). Hence the serde form is the Display form and acceptance equals FromStr acceptance."
)
RULE_TEXT = "obligations = shape of the two impl bodies, the visitor's associated-item list, the visit_str body, absence of other Serialize/Deserialize impls for GenericPurl"
ASSUMPTIONS = [
    "serde::Serializer::collect_str(v) serialises v.to_string() as one string value; Deserializer::deserialize_str hints a string; every Visitor::visit_* that is not overridden returns an invalid_type error, except visit_string / visit_borrowed_str which forward to visit_str",
    "serde's and serde_json's own behaviour is not analysed",
]
TRUSTED_BASE = ["serde default methods (dependency)", "callee semantics table (DESIGN.md section 3)"]


def rule_delegate(ctx):
    facts = ctx.facts("serde")
    ser = [k for k, f in facts.fns.items() if f.get("impl_self", "").startswith("GenericPurl<") and f.get("impl_trait", "").endswith("Serialize") and f.get("name") == "serialize"]
    de = [k for k, f in facts.fns.items() if f.get("impl_self", "").startswith("GenericPurl<") and "Deserialize<" in f.get("impl_trait", "") and f.get("name") == "deserialize"]
    ctx.ob("DELEGATE", "one Serialize and one Deserialize impl for GenericPurl", len(ser) == 1 and len(de) == 1, detail="%s %s" % (ser, de))
    if len(ser) != 1 or len(de) != 1:
        return
    fromstr = models.from_str_fn(facts)
    display = models.display_fn(facts)
    # Serialize
    b = facts.body(ser[0])
    t = norm(b.resolve_local(0))
    ncalls = len(list(b.calls()))
    ok = False
    if t[0] == "call" and t[1].endswith("Serializer::collect_str") and t[2] == (("arg", 2), ("arg", 1)):
        ok = ncalls == 1
    elif t[0] == "call" and t[1].endswith("Serializer::serialize_str") and t[2][0] == ("arg", 2):
        s_ = t[2][1]
        while s_[0] == "conv":
            s_ = s_[1]
        others = [callee_name(tt["callee"]) for _, tt in b.calls() if not (callee_name(tt["callee"]).endswith("Serializer::serialize_str") or callee_name(tt["callee"]).endswith("ToString::to_string") or "Deref" in callee_name(tt["callee"]) or callee_name(tt["callee"]).endswith("::as_str"))]
        ok = (s_ == ("arg", 1) or s_[0] == "call" and s_[1].endswith("ToString::to_string") and s_[2] == (("arg", 1),)) and not others
    ctx.ob("DELEGATE", "serialize = serializer.collect_str(self)  [the Display form as one string]", ok and not b.back_edges(), fn=ser[0], site=fn_site(facts, ser[0]), detail="%s (%d calls)" % (nshow(t)[:160], ncalls))
    # Deserialize
    b = facts.body(de[0])
    t = norm(b.resolve_local(0))
    ok = t[0] == "call" and t[1].endswith("Deserializer::deserialize_str") and t[2][0] == ("arg", 1) and len(list(b.calls())) == 1
    vis_adt = None
    if ok and t[2][1][0] == "agg":
        vis_adt = t[2][1][1][1]
    elif ok:
        # the visitor value may be a constant (`PurlVisitor::<T>::NEW`): its type is the call's second generic argument
        cargs = [tt["callee"].get("args", []) for _, tt in b.calls()][0]
        vty = cargs[-1] if cargs else ""
        cand = [a for a in facts.adts if vty.split("<")[0] == a]
        vis_adt = cand[0] if len(cand) == 1 else None
        ok = vis_adt is not None
    ctx.ob("DELEGATE", "deserialize = deserializer.deserialize_str(visitor)", ok and not b.back_edges(), fn=de[0], site=fn_site(facts, de[0]), detail=nshow(t)[:160])
    if not ok:
        return
    vims = [im for im in facts.impls if im.get("self_adt") == vis_adt and "Visitor<" in (im.get("trait") or "")]
    ctx.ob("DELEGATE", "the visitor type has exactly one Visitor impl", len(vims) == 1, fn=vis_adt, detail=str([im["trait"] for im in vims]))
    if len(vims) != 1:
        return
    items = sorted(i["name"] for i in vims[0]["items"] if i["kind"] in ("Fn", "AssocFn") or "Fn" in i["kind"])
    allitems = sorted(i["name"] for i in vims[0]["items"])
    ctx.ob("DELEGATE", "the visitor overrides exactly `expecting` and `visit_str` (every other visit_* keeps serde's default)", items == ["expecting", "visit_str"], fn=vims[0]["path"], detail="associated items: %s" % allitems)
    vs = [i["path"] for i in vims[0]["items"] if i["name"] == "visit_str"]
    if not vs:
        return
    b = facts.body(vs[0])
    t = norm(b.resolve_local(0))
    ok = False
    if t[0] == "call" and t[1] == "std::result::Result::<T, E>::map_err" and t[2][0][0] == "call" and t[2][0][2] == (("arg", 2),):
        src, conv = t[2]
        # GenericPurl::from_str(v)  or  v.parse::<GenericPurl<T>>()  (str::parse is FromStr::from_str)
        parse_call = [tt for _, tt in b.calls() if callee_name(tt["callee"]) == "core::str::<impl str>::parse"]
        oksrc = src[1] == fromstr or (src[1] == "core::str::<impl str>::parse" and len(parse_call) == 1 and parse_call[0]["callee"].get("args", [""])[0].startswith("GenericPurl<"))
        okconv = conv[0] == "fn" and conv[1].endswith("de::Error::custom")
        if conv[0] == "closure" and conv[1] in facts.bodies:
            ct = norm(facts.body(conv[1]).resolve_local(0))
            okconv = ct[0] == "call" and ct[1].endswith("de::Error::custom") and ct[2] == (("arg", 2),)
        ok = oksrc and okconv
    if not ok and t[0] == "phi" and len(t[1]) == 2:
        # the same as an explicit match: Ok(p) => Ok(p), Err(e) => Err(E::custom(e))
        oks_ = [m for m in t[1] if m[0] == "agg" and m[1][1:3] == ("std::result::Result", "Ok") and m[2][0][0] == "ok"]
        ers_ = [m for m in t[1] if m[0] == "agg" and m[1][1:3] == ("std::result::Result", "Err") and m[2][0][0] == "call" and m[2][0][1].endswith("de::Error::custom") and len(m[2][0][2]) == 1 and m[2][0][2][0][0] == "err"]
        if len(oks_) == 1 and len(ers_) == 1:
            src = oks_[0][2][0][1]
            parse_call = [tt for _, tt in b.calls() if callee_name(tt["callee"]) == "core::str::<impl str>::parse"]
            oksrc = src[0] == "call" and src[2] == (("arg", 2),) and (src[1] == fromstr or (src[1] == "core::str::<impl str>::parse" and len(parse_call) == 1 and parse_call[0]["callee"].get("args", [""])[0].startswith("GenericPurl<")))
            ok = oksrc and ers_[0][2][0][2][0][1] == src
    ctx.ob("DELEGATE", "visit_str(v) = GenericPurl::from_str(v).map_err(Error::custom)  [input passed through unmodified]", ok and len(list(b.calls())) == 2 and not b.back_edges(), fn=vs[0], site=fn_site(facts, vs[0]), detail=nshow(t)[:200])
    # no serde attribute-derived impl on GenericPurl / PurlParts (would serialise the fields instead)
    derived = [im for im in facts.impls if im.get("self_adt") in ("GenericPurl", "PurlParts", "qualifiers::Qualifiers") and ("Serialize" in (im.get("trait") or "") or "Deserialize" in (im.get("trait") or "")) and im["derived"]]
    ctx.ob("DELEGATE", "no derived (field-wise) Serialize/Deserialize on GenericPurl, PurlParts or Qualifiers", not derived, detail=str([im["path"] for im in derived]))


THOROUGH_FS = []

RULES = [("DELEGATE", rule_delegate, 4)]

MANIFEST = {
    "text": "Static delegation check (serde feature set): Serialize is collect_str(self), Deserialize is deserialize_str(visitor), the visitor defines only expecting and visit_str (HIR associated-item list), visit_str is from_str(v).map_err(Error::custom). The serde form is therefore the Display/FromStr form for all values; non-strings hit serde's refusing defaults.",
    "note": "Trusted: rustc HIR/MIR, extractor, serde's default Visitor methods and collect_str semantics (dependency). serde/serde_json themselves are not analysed.",
    "technique": "delegation-shape rule over MIR return terms + HIR associated-item list of the visitor impl",
    "design_ref": "DESIGN.md 5.16",
}
