"""C08 -- package-type rules: pypi and nuget names, maven namespace, others untouched (DESIGN.md 5.8)."""
from purlsa.core import AnchorError, callee_name
from purlsa.sem import norm, nshow
from purlsa import models, boolsum, paths
from purlsa.models import show_canon
from .common import fn_site
from . import lowercase, faults

LEVEL = "other"
EXPLANATION = (
    "Static decision: the per-variant effect table of PackageType::finish (per-path outcomes of its MIR) equals the reference table (cargo/gem/golang/npm "
    "nothing; maven only reads namespace to refuse; nuget lower-cases name; pypi runs the pypi normaliser on name); its transitive write set is {parts.name}; "
    "parser and builder share the single finish call site in build(); the type parameter is used in parser/builder/formatter only at T::from_str, finish and "
    "package_type() (so every other component is computed identically for every T); the pypi loop's transition table equals the reference transducer; the "
    "scan-then-act lower-caser equals char::to_lowercase on every char class (Unicode tables); unknown types map to UnsupportedType."
)
RULE_TEXT = "obligations = per variant: effect row; write set; call-site uniqueness; generic call sites; per transducer transition; per scan state x char class; lookup shape"
ASSUMPTIONS = [
    "char::to_lowercase is the Unicode lower-case mapping (python unicodedata, Unicode 14, as data; DESIGN 3.3)",
    "str::contains(&[char]) is true iff one of the chars occurs",
]
TRUSTED_BASE = ["callee semantics table (DESIGN.md section 3)", "Unicode data tables"]

R_TYPE = {
    "Cargo": "nothing", "Gem": "nothing", "Golang": "nothing", "Npm": "nothing",
    "Maven": "refuse-if-namespace-empty",
    "NuGet": "lowercase-name",
    "PyPI": "pypi-name",
}


def finish_key(facts):
    ks = [k for k, f in facts.fns.items() if f.get("impl_trait_def") == "PurlShape" and f.get("impl_self") == "package_type::PackageType" and f.get("name") == "finish"]
    if len(ks) != 1:
        raise AnchorError("impl PurlShape for PackageType not found")
    return ks[0]


def variants_on_path(atoms):
    """the variants of `self` a path is a path of: the intersection of all its tests of `self` (the type may be looked at
    more than once: `requires_namespace(self)`, then `match name_rule(self)`); [] if `self` is never tested, None if the
    tests contradict each other (an infeasible combination of branches)"""
    cur = None
    for a in atoms:
        if a[0] == "is" and a[1] in ("arg1", "*arg1"):
            s_ = {a[2]}
        elif a[0] == "isin" and a[1] in ("arg1", "*arg1"):
            s_ = set(a[2])
        else:
            continue
        cur = s_ if cur is None else (cur & s_)
    if cur is None:
        return []
    if not cur:
        return None
    return sorted(cur)


def helper_roles(facts, fk):
    """nuget and pypi helpers by role: callees receiving &mut parts.name in the NuGet / PyPI arm."""
    r = {}
    for o in paths.outcomes(facts, fk):
        vs = variants_on_path(o["atoms"])
        for v in vs or []:
            for e in o["effects"]:
                if e[0] == "call" and e[2] == ("arg", 2, "name") and e[1] in facts.bodies:
                    r[v] = e[1]
    return r


def rule_shape_table(ctx):
    facts = ctx.facts()
    fk = finish_key(facts)
    site = fn_site(facts, fk)
    adt = facts.adts["package_type::PackageType"]
    variants = [v["name"] for v in adt["variants"]]
    helpers = helper_roles(facts, fk)
    rows = {}
    for o in paths.outcomes(facts, fk):
        vs = variants_on_path(o["atoms"])
        if vs is None:
            continue      # the tests of `self` on this path contradict each other: not a path of any variant
        conds = [a for a in o["atoms"] if not (a[0] in ("is", "isin") and a[1] in ("arg1", "*arg1"))]
        # effects on a local temporary (an iterator being advanced) are not effects of the hook: only what is reachable
        # from its arguments counts
        effs = [(e[1], e[2]) for e in o["effects"] if e[0] == "call" and e[2][0] == "arg"] + [("store", nshow(e[1])) for e in o["effects"] if e[0] != "call"]
        r = o["ret"]
        res = "ok" if r[0] == "ok" else ("err:" + models.error_const(r[1]) if r[0] == "err" else r[0])
        for v in vs:
            rows.setdefault(v, []).append((tuple(conds), tuple(effs), res))
    for v in variants:
        want = R_TYPE.get(v)
        got = rows.get(v, [])
        if want is None:
            ctx.ob("SHAPE-TABLE", "variant %s has a documented rule" % v, False, fn=fk, site=site, detail="not in the reference table transcribed from property C08 (extend R_TYPE when the property enumerates a new type)")
            continue
        uniq = sorted(set(got), key=str)
        if want == "nothing":
            ok = uniq == [((), (), "ok")]
        elif want == "refuse-if-namespace-empty":
            # one emptiness test that speaks about parts.namespace (raw, or with the separators trimmed): true -> refuse, false -> accept
            def ns_empty(c, pos):
                return len(c) == 1 and c[0][0] == "empty" and c[0][2] is pos and "arg2.namespace" in str(c[0][1]) and (c[0][1][0] == "Field" or c[0][1][0] in ("Trim", "TrimStart", "TrimEnd") and c[0][1][1] == "/")
            ok = len(uniq) == 2 and any(ns_empty(u[0], True) and u[1] == () and u[2] == "err:PackageError::MissingRequiredField(PurlField::Namespace)" for u in uniq) and any(ns_empty(u[0], False) and u[1] == () and u[2] == "ok" for u in uniq)
        elif want == "lowercase-name":
            ok = len(uniq) == 1 and uniq[0][0] == () and uniq[0][2] == "ok" and len(uniq[0][1]) == 1 and uniq[0][1][0][1] == ("arg", 2, "name") and uniq[0][1][0][0] == helpers.get("NuGet")
        elif want == "pypi-name":
            ok = len(uniq) == 1 and uniq[0][0] == () and uniq[0][2] == "ok" and len(uniq[0][1]) == 1 and uniq[0][1][0][1] == ("arg", 2, "name") and uniq[0][1][0][0] == helpers.get("PyPI")
        else:
            ok = False
        ctx.ob("SHAPE-TABLE", "%s: %s" % (v, want), ok, fn=fk, site=site, detail="extracted: %s" % [(tuple(show_canon(c) for c in u[0]), u[1], u[2]) for u in uniq])
    extra = [v for v in rows if v not in variants]
    ctx.ob("SHAPE-TABLE", "no arm for a non-variant", not extra, fn=fk, site=site, detail=str(extra))


def rule_frame(ctx):
    facts = ctx.facts()
    fk = finish_key(facts)
    site = fn_site(facts, fk)
    targets = set()
    fb = facts.body(fk)
    for e in models.mut_effects(fb):
        tg = e["target"]
        if tg[0] == "var" and isinstance(tg[1], int) and tg[1] < len(fb.locals) and "&mut" not in fb.locals[tg[1]]["ty"] and "Mut<" not in fb.locals[tg[1]]["ty"] and tg[1] > fb.arg_count:
            # `&mut` of a by-value local that holds no mutable borrow (an iterator being advanced: `ns.chars().all(..)`)
            continue
        targets.add(tg)
    stores = [w for l in (1, 2) for w in facts.body(fk).partial_writes(l) if not facts.body(fk).is_cleanup(w[0])]
    ctx.ob("FRAME", "finish takes mutable access only to parts.name", targets <= {("arg", 2, "name")} and not stores, fn=fk, site=site, detail="mutable targets: %s; direct stores: %d" % (sorted(targets), len(stores)))
    helpers = helper_roles(facts, fk)
    for v, hk in sorted(helpers.items()):
        for k in sorted(facts.reachable_bodies([hk])):
            b = facts.body(k)
            if b.kind != "fn":
                continue
            t2 = set(e["target"] for e in models.mut_effects(b) if e["target"][0] == "arg")
            okk = all(t[1] == 1 for t in t2)
            st = [w for l in range(2, b.arg_count + 1) for w in b.partial_writes(l)]
            ctx.ob("FRAME", "%s helper %s writes only through its own text argument" % (v, k), okk and not st, fn=k, site=fn_site(facts, k), detail=str(sorted(t2)))
    # reads: the Maven arm reads namespace; nothing reads version/qualifiers/subpath
    reads = set()
    for o in paths.outcomes(facts, fk):
        for c in o["calls"]:
            for a in c[1]:
                s_ = nshow(a)
                for fld in ("version", "qualifiers", "subpath"):
                    if "arg2." + fld in s_:
                        reads.add(fld)
    ctx.ob("FRAME", "finish does not look at version, qualifiers or subpath", not reads, fn=fk, site=site, detail=str(sorted(reads)))


def rule_parity(ctx):
    facts = ctx.facts()
    pm = models.parser_model(facts)
    bk = models.build_fn(facts)
    tails = [r for r in pm["returns"] if r["cls"][0] == "tail" and r["cls"][1][1] == bk]
    ctx.ob("PARITY", "the parser ends in build() (same hook, same generic checks as the builder)", len(tails) == 1, fn=pm["key"], site=tails[0]["site"] if tails else "", detail="")
    allfin = []
    for k, b in facts.bodies.items():
        for bb, t in b.calls(include_cleanup=True):
            if t["callee"].get("path") == "PurlShape::finish":
                allfin.append(k)
    ctx.ob("PARITY", "build() is the only caller of PurlShape::finish", allfin == [bk], fn=bk, detail=str(allfin))
    newk = [k for k, f in facts.fns.items() if f.get("name") == "new" and f.get("impl_self", "").startswith("GenericPurl<")]
    if newk:
        t = norm(facts.body(newk[0]).resolve_local(0))
        ctx.ob("PARITY", "GenericPurl::new = builder(..).build()", t[0] == "call" and t[1] == bk, fn=newk[0], site=fn_site(facts, newk[0]), detail=nshow(t)[:120])


ALLOWED_GENERIC = {"std::str::FromStr::from_str", "PurlShape::finish", "PurlShape::package_type", "std::convert::From::from", "std::convert::Into::into"}


def rule_parametric(ctx):
    facts = ctx.facts()
    for finder, nm in ((models.from_str_fn, "from_str"), (models.build_fn, "build"), (models.display_fn, "Display::fmt")):
        k = finder(facts)
        b = facts.body(k)
        gen = []
        for bb, t in b.calls():
            ce = t["callee"]
            if "path" in ce and ce.get("resolved") is None:
                gen.append((ce["path"], b.site(bb)))
            if "indirect" in ce:
                gen.append(("<indirect call>", b.site(bb)))
        for p, s_ in gen:
            ctx.ob("PARAMETRIC", "%s: type-parameter-dependent call %s is one of the three hooks (or an error conversion)" % (nm, p), p in ALLOWED_GENERIC, fn=k, site=s_, detail="")
        hooks = sorted(set(p for p, _ in gen if p in ("std::str::FromStr::from_str", "PurlShape::finish", "PurlShape::package_type")))
        want = {"from_str": ["std::str::FromStr::from_str"], "build": ["PurlShape::finish"], "Display::fmt": ["PurlShape::package_type"]}[nm]
        ctx.ob("PARAMETRIC", "%s touches T only through %s" % (nm, want), hooks == want, fn=k, site=fn_site(facts, k), detail=str(hooks))
    # the From/Into conversions in from_str/build convert errors only (argument is an error value)
    for finder in (models.from_str_fn, models.build_fn):
        k = finder(facts)
        b = facts.body(k)
        for bb, t in b.calls():
            ce = t["callee"]
            if ce.get("path") in ("std::convert::From::from", "std::convert::Into::into") and ce.get("resolved") is None:
                a = norm(b.resolve_operand(t["args"][0]))
                iserr = a[0] == "agg" and a[1][0] == "adt" and a[1][1] == "parse::ParseError"
                # or, by type: the source type of the conversion is ParseError (an error handed on from a callee:
                # `Err(e) => return Err(T::Error::from(e))`)
                targs = ce.get("args", [])
                srcty = (targs[-1] if ce["path"].endswith("From::from") else targs[0]) if targs else None
                iserr = iserr or srcty == "parse::ParseError"
                ctx.ob("PARAMETRIC", "generic conversion converts a ParseError constant", iserr, fn=k, site=b.site(bb), detail="%s : %s" % (nshow(a)[:100], srcty))


def rule_fst(ctx):
    facts = ctx.facts()
    fk = finish_key(facts)
    helpers = helper_roles(facts, fk)
    if "PyPI" not in helpers or "NuGet" not in helpers:
        raise AnchorError("nuget / pypi helpers not found by role", fk)
    lowercase.fst_pypi_obligations(ctx, facts, helpers["PyPI"], helpers["NuGet"], rule="FST-PYPI")
    lowercase.guardxform_obligations(ctx, facts, helpers["NuGet"], rule="GUARDXFORM")
    # Unicode table facts the transducer argument relies on
    lc = boolsum.set_of("lower_changes")
    bad = []
    for c in boolsum_iter(lc):
        low = chr(c).lower()
        if any(x in "-_." for x in low):
            bad.append(c)
    ctx.ob("FST-PYPI", "no lower-case mapping contains '-', '_' or '.'", not bad, detail="%d chars with a non-trivial lower-case mapping inspected" % bin(lc).count("1"))


def boolsum_iter(v):
    c = 0
    while v:
        if not (v & 0xFFFFFFFFFFFFFFFF):
            v >>= 64
            c += 64
            continue
        if v & 1:
            yield c
        v >>= 1
        c += 1


def rule_unknown(ctx):
    facts = ctx.facts()
    from . import C05
    C05.rule_typed(ctx)


RULES = [
    ("SHAPE-TABLE", rule_shape_table, 4),
    ("FRAME", rule_frame, 4),
    ("PARITY", rule_parity, 3),
    ("PARAMETRIC", rule_parametric, 6),  # 3 hook call sites + 3 "touches T only through" obligations; conversions vary
    ("FST-PYPI", rule_fst, 6),
    ("GUARDXFORM", lambda ctx: None, 3),
    ("TYPED", rule_unknown, 2),
]

MANIFEST = {
    "text": "Static decision: per-variant effect table of PackageType::finish vs. the documented rules; frame rule (only parts.name is written, transitively); single finish call site shared by parser and builder; the type parameter is touched only at three hooks; pypi loop transition table equals the reference transducer; lower-caser proven equal to char::to_lowercase per scan state and char class over Unicode tables; unknown type -> UnsupportedType by lookup shape.",
    "note": "Trusted: rustc MIR, extractor, Unicode lower-case table (python unicodedata as data), str::contains(&[char]). Not decided: that char::to_lowercase is the Unicode mapping.",
    "technique": "per-path effect table vs. reference; transitive write-set (frame) analysis; loop-body transition table vs. reference transducer; scan-then-act abstract run over char classes",
    "design_ref": "DESIGN.md 5.8",
}
