"""C07 -- namespace and subpath structure cannot be forged or climb upwards (DESIGN.md 5.7)."""
from purlsa.core import AnchorError, strip
from purlsa.sem import norm, nshow, fmt_pieces, FilterGuard
from purlsa import models
from purlsa.models import show_canon, show_region

LEVEL = "other"
EXPLANATION = (
    "Static structural decision for every input: the two segment decoders are found by role (the local functions that receive the "
    "'#' right-hand region and the namespace region in the parser model) and their loop bodies are summarised from MIR: the iterator "
    "is split('/') over the raw trimmed region (split before decode), the path condition of the append contains the raw skip set and the "
    "decoded reject atoms, whose failing edges reach only `return Err(InvalidEscape)`, the appended text is exactly decode(segment), the only "
    "other write to the accumulator is push('/') under !is_empty(acc), and the accumulator is what the parser stores in the field."
)
RULE_TEXT = "obligations = per decoder: iterator region, raw-skip atoms, decoded-reject atoms (with failing-edge targets), appended text, join discipline, write whitelist, returned accumulator, field store"
ASSUMPTIONS = [
    "str::split(c) yields all maximal c-free pieces in order; trim_matches removes only leading/trailing c",
    "percent_decode_str(..).decode_utf8() of a non-empty string is non-empty (so a kept segment is never empty)",
    "<[&str]>::contains / str::contains::<char> have their documented meaning",
]
TRUSTED_BASE = ["callee semantics table (DESIGN.md section 3)"]

ITEM = ("Item", "/", ("Input", 1))  # models._item: trimmed or not, given that '' is skipped
DEC = ("Decode", ITEM)

SPEC = {
    "subpath": {"raw_skip": {"", ".", ".."}, "decoded_reject_list": {".", ".."}, "field": "subpath"},
    "namespace": {"raw_skip": {""}, "decoded_reject_list": set(), "field": "namespace"},
}


def find_decoders(facts, pm):
    out = {}
    for fld, sinks in pm["sinks"].items():
        for s in sinks:
            if s["via"] and not s["decoded"]:
                if fld == "subpath":
                    out["subpath"] = (s["via"], s)
                elif fld == "namespace":
                    out["namespace"] = (s["via"], s)
    return out


def failing_edge_ok(body, guard_bb, site_bb, want_err):
    """The edge of guard_bb that does NOT lead to site_bb must reach only `_0 = Err(want_err)` definitions and never the site or a loop continuation."""
    good = [tg for (lab, tg) in body.edges(guard_bb) if tg == site_bb or site_bb in body.reachable_from(tg, avoid={guard_bb})]
    bad = [tg for (lab, tg) in body.edges(guard_bb) if tg not in good]
    if not bad:
        return False, "no failing edge"
    rets = dict(models.returns(body))
    for tg in bad:
        reach = body.reachable_from(tg, avoid={guard_bb})
        if site_bb in reach:
            return False, "failing edge reaches the append"
        defs = [b for b in reach if b in rets]
        if not defs:
            return False, "failing edge defines no return value"
        for b in defs:
            cls = models.classify_return(rets[b])
            if cls[0] != "err" or models.error_const(cls[1]) != want_err:
                return False, "failing edge returns %s" % (cls[0] + ":" + (models.error_const(cls[1]) if cls[0] == "err" else nshow(cls[1])[:60]))
        # must not flow back to the loop header (continue)
        for h in body.loops():
            if h in reach:
                return False, "failing edge continues the loop"
    return True, "failing edge -> return Err(%s)" % want_err


def rule_segloop(ctx):
    facts = ctx.facts()
    pm = models.parser_model(facts)
    decs = find_decoders(facts, pm)
    for comp in ("subpath", "namespace"):
        if comp not in decs:
            raise AnchorError("no segment decoder found for the %s region in the parser model" % comp, pm["key"])
    for comp, (key, sink) in decs.items():
        spec = SPEC[comp]
        bs = models.body_summary(facts, key)
        body = bs["body"]
        site0 = body.site(0)
        I = lambda s: "%s: %s" % (comp, s)  # noqa: E731
        # store in the parser
        want_region = {"subpath": ("RSplitR", "#"), "namespace": ("RSplitL", "/")}[comp]
        ctx.ob("SEGLOOP", I("the decoder receives the %s region of the parser (%s at %r)" % (comp, want_region[0], want_region[1])), sink["region"][:2] == want_region, fn=pm["key"], site=sink["site"], detail=show_region(sink["region"]))
        ctx.ob("SEGLOOP", I("parser stores Ok-payload of the decoder into parts.%s" % spec["field"]), sink["field"] == spec["field"], fn=pm["key"], site=sink["site"], detail="stored into parts.%s from %s(%s)" % (sink["field"], key, show_region(sink["region"])))
        # (i) exactly one loop, iterating split('/') over the raw trimmed argument
        loops = bs["loops"]
        ctx.ob("SEGLOOP", I("exactly one loop, headed by Iterator::next"), len(loops) == 1 and len(body.loops()) == 1, fn=key, site=site0, detail="loops=%d next-headed=%d" % (len(body.loops()), len(loops)))
        if len(loops) != 1:
            continue
        h, (nb, it, npath) = next(iter(loops.items()))
        item_region = models._region(("some", ("call", npath, (it,), nb)))
        ctx.ob("SEGLOOP", I("(i) segments = split('/') of the raw trimmed region (split before decode)"), item_region == ITEM, fn=key, site=body.site(nb), detail="iterates over %s via %s" % (show_region(item_region), npath))
        # accumulator = payload of the Ok return
        oks = [r for r in bs["returns"] if r["cls"][0] == "ok"]
        acc = None
        if len(oks) == 1 and oks[0]["cls"][1][0] == "var":
            acc = oks[0]["cls"][1][1]
            init = oks[0]["cls"][1][2]
            fresh = init[0] == "call" and (init[1].endswith("::new") or init[1].endswith("::default")) and not init[2]
            ctx.ob("SEGLOOP", I("(vi) returns Ok(accumulator), accumulator starts empty"), fresh, fn=key, site=oks[0]["site"], detail="init %s" % nshow(init))
            only_exit = [c for c in oks[0]["catoms"]] == [("next", ITEM, False)]
            ctx.ob("SEGLOOP", I("(vi) Ok is returned only when the iterator is exhausted"), only_exit, fn=key, site=oks[0]["site"], detail="; ".join(show_canon(c) for c in oks[0]["catoms"]))
        else:
            ctx.ob("SEGLOOP", I("(vi) returns Ok(accumulator), accumulator starts empty"), False, fn=key, site=site0, detail="%d Ok returns" % len(oks))
            continue
        effs = [e for e in bs["effects"] if e["target"][0] == "var" and e["target"][1] == acc]
        appends = []
        joins = []
        others = []
        for e in effs:
            p = e["path"]
            if p in ("std::fmt::Write::write_fmt",):
                pieces = fmt_pieces(e["raw"][1])
                if pieces and len(pieces) == 1 and pieces[0][0] == "display":
                    appends.append((e, models._region(norm(pieces[0][1]))))
                else:
                    others.append(e)
            elif p.endswith("::push_str") and len(e["args"]) == 2:
                appends.append((e, models._region(e["args"][1])))
            elif p.endswith("::push") and len(e["args"]) == 2 and models.cchar(e["raw"][1]) is not None:
                joins.append((e, models.cchar(e["raw"][1])))
            else:
                others.append(e)
        ctx.ob("SEGLOOP", I("(v) no write to the accumulator other than the append and the join"), not others, fn=key, site=site0, detail="other writes: %s" % ", ".join(e["path"] for e in others))
        ctx.ob("SEGLOOP", I("exactly one append site"), len(appends) == 1, fn=key, site=site0, detail="%d append sites" % len(appends))
        if len(appends) != 1:
            continue
        app, appreg = appends[0]
        # (iv)
        ctx.ob("SEGLOOP", I("(iv) appended text is exactly decode(segment)"), appreg == DEC, fn=key, site=app["site"], detail="appends %s" % show_region(appreg))
        cat = app["catoms"]
        gat = app["gatoms"]
        # (ii) raw skip
        skipped = set()
        for c in cat:
            if c[0] == "inlist" and c[2] == ITEM and c[3] is False:
                skipped |= set(c[1])
            if c[0] == "empty" and c[1] == ITEM and c[2] is False:
                skipped.add("")
        for sname in sorted(spec["raw_skip"]):
            ctx.ob("SEGLOOP", I("(ii) raw segment %r is skipped before the append" % sname), sname in skipped, fn=key, site=app["site"], detail="raw skip set on the append's path condition: %s" % sorted(skipped))
        ctx.ob("SEGLOOP", I("(ii) nothing else is skipped"), skipped <= spec["raw_skip"], fn=key, site=app["site"], detail="raw skip set: %s (documented: %s)" % (sorted(skipped), sorted(spec["raw_skip"])))
        # skipped segments continue the loop (are not errors)
        for gb, c in gat:
            if (c[0] == "inlist" or c[0] == "empty") and (c[2] == ITEM or c[1] == ITEM):
                tgts = [tg for (lab, tg) in body.edges(gb) if not (tg == app["bb"] or app["bb"] in body.reachable_feasible(tg, avoid={gb}))]
                if isinstance(gb, FilterGuard):
                    ctx.ob("SEGLOOP", I("(ii) a skipped raw segment continues the loop without touching the result"), True, fn=key, site=body.site(int(gb)), detail=show_canon(c) + " (dropped by Iterator::filter)")
                    continue
                cont = all(h in body.reachable_feasible(tg, avoid={gb}) and not any(b in dict(models.returns(body)) for b in body.reachable_feasible(tg, avoid={gb, h})) for tg in tgts) and bool(tgts)
                ctx.ob("SEGLOOP", I("(ii) a skipped raw segment continues the loop without touching the result"), cont, fn=key, site=body.site(gb), detail=show_canon(c))
        # strict decode dominates
        dec_ok = any(c[0] == "callres" and c[1] in pm["decoders"] and c[2] == (ITEM,) and c[3] in ("Ok?", "Ok") for c in cat)
        ctx.ob("SEGLOOP", I("(iii) strict decode of the raw segment succeeded on the append's path"), dec_ok, fn=key, site=app["site"], detail="; ".join(show_canon(c) for c in cat))
        # (iii) decoded rejects with failing edges
        want_atoms = [("contains", "/", DEC, False)]
        found_slash = False
        rej_list = set()
        for gb, c in gat:
            if c[0] == "contains" and c[1] == "/" and c[2] == DEC and c[3] is False:
                found_slash = True
                ok, why = failing_edge_ok(body, gb, app["bb"], "ParseError::InvalidEscape")
                ctx.ob("SEGLOOP", I("(iii) decoded segment containing '/' -> Err(InvalidEscape)"), ok, fn=key, site=body.site(gb), detail=why)
            if c[0] == "inlist" and c[2] == DEC and c[3] is False:
                rej_list |= set(c[1])
                ok, why = failing_edge_ok(body, gb, app["bb"], "ParseError::InvalidEscape")
                ctx.ob("SEGLOOP", I("(iii) decoded segment in %s -> Err(InvalidEscape)" % sorted(c[1])), ok, fn=key, site=body.site(gb), detail=why)
            if c[0] == "contains" and c[2] == ITEM:
                ctx.ob("SEGLOOP", I("(iii) '/' test must look at the decoded segment, not the raw one"), False, fn=key, site=body.site(gb), detail=show_canon(c))
        ctx.ob("SEGLOOP", I("(iii) !contains(decoded, '/') is on the append's path condition"), found_slash, fn=key, site=app["site"], detail="; ".join(show_canon(c) for c in cat))
        for sname in sorted(spec["decoded_reject_list"]):
            ctx.ob("SEGLOOP", I("(iii) decoded segment %r is refused" % sname), sname in rej_list, fn=key, site=app["site"], detail="decoded reject list: %s" % sorted(rej_list))
        # (v) join
        ctx.ob("SEGLOOP", I("(v) exactly one join site pushing '/'"), len(joins) == 1 and joins[0][1] == "/", fn=key, site=site0, detail="joins: %s" % [j[1] for j in joins])
        if len(joins) == 1:
            j = joins[0][0]
            guard = ("empty", ("Var", acc), False) in j["catoms"]
            same = all(c in j["catoms"] for c in cat)
            before = body.dominates(j["bb"], app["bb"]) or (app["bb"] in body.reachable_from(j["bb"]) and j["bb"] not in body.reachable_from(app["bb"], avoid={h}))
            ctx.ob("SEGLOOP", I("(v) '/' is pushed only when the accumulator is non-empty, under the append's own path condition, before the append"), guard and same and before, fn=key, site=j["site"], detail="guard=%s same-conditions=%s before-append=%s" % (guard, same, before))
        # every error return is InvalidEscape or the propagated decode error
        for r in bs["returns"]:
            k, v = r["cls"]
            if k == "err":
                ctx.ob("SEGLOOP", I("error return is InvalidEscape"), models.error_const(v) == "ParseError::InvalidEscape", fn=key, site=r["site"], detail=models.error_const(v))
            elif k == "propagate":
                okp = v[0] == "call" and v[1] in pm["decoders"]
                ctx.ob("SEGLOOP", I("propagated error comes from the strict decoder"), okp, fn=key, site=r["site"], detail=nshow(v)[:100])
            elif k != "ok":
                ctx.ob("SEGLOOP", I("unexpected return shape"), False, fn=key, site=r["site"], detail=k)


THOROUGH_FS = ["pt", "none", "serde"]

def rule_build_frame(ctx):
    """'for every accepted string .. (every instantiation)': what the segment decoders produced is what the PURL reports only
    if build() and the type's finish hook leave namespace and subpath alone (C02's BUILD-FRAME obligations; for the typed
    PURL, C08's FRAME: the hook takes mutable access to parts.name only)."""
    from .common import build_frame_obligations
    build_frame_obligations(ctx, "BUILD-FRAME")
    if "package_type::PackageType" in ctx.facts().adts:
        from . import C08
        C08.rule_frame(ctx)


RULES = [
    ("SEGLOOP", rule_segloop, 36),
    ("BUILD-FRAME", rule_build_frame, 2),
    ("FRAME", lambda ctx: None, 0),
]

MANIFEST = {
    "text": "Structural static decision for all inputs: both segment loops (found by dataflow role) split the raw region on '/' before decoding, skip exactly the documented raw segments, refuse a decoded segment containing '/' (and '.'/'..' for the subpath) with InvalidEscape on every path to the append, append exactly decode(segment), join with '/' only when the accumulator is non-empty; dominance and failing-edge reachability are computed on MIR. What the decoders stored is what is reported: build() and the built-in type's finish hook write neither namespace nor subpath (BUILD-FRAME / FRAME obligations shared with C02 and C08).",
    "note": "Trusted: rustc MIR, extractor, callee semantics of str::split/trim_matches/contains and of the strict decoder (non-empty in => non-empty out). Decides structure, not executions.",
    "technique": "loop-body summary from MIR (dominating guard atoms over region terms, failing-edge reachability, write whitelist on the accumulator)",
    "design_ref": "DESIGN.md 5.7",
}
