"""R-GRAMMAR and R-FAULT: reference tables transcribed from properties C02 / C05, and the
matching of extracted rejection rows against them (used by C02 REJECT-COMPLETE and C05 REJECT-SOUND)."""
from purlsa.core import AnchorError
from purlsa import models, boolsum
from purlsa.models import show_canon, show_region
from purlsa.sem import nshow

IN = ("Input", 1)
R1 = ("StripPrefix", "pkg:", IN)
R2 = ("TrimStart", "/", R1)
R3 = ("RSplitLOpt", "#", R2)
SUB = ("RSplitR", "#", R2)
R4 = ("RSplitLOpt", "?", R3)
QUAL = ("RSplitR", "?", R3)
TYPE = ("SplitL", "/", R4)
R5 = ("SplitR", "/", R4)
R6 = ("RSplitLOpt", "@", R5)
VER = ("RSplitR", "@", R5)
NS = ("RSplitL", "/", R6)
NAME = ("RSplitROpt", "/", R6)

SEG = ("Item", "/", IN)  # canonical form of an element of split('/') of the (possibly trimmed) input: models._item
SEGD = ("Decode", SEG)
QITEM = ("Item", "&", IN)
QKEY = ("SplitL", "=", QITEM)
QVAL = ("SplitR", "=", QITEM)
CITEM = ("Item", ",", IN)

# R-GRAMMAR (C02 statement + anchors): which region feeds which sink, through what
R_GRAMMAR = {
    "subpath": ("segment-decoder", SUB),
    "qualifiers": ("qualifier-decoder", QUAL),
    "type": ("T::from_str, raw", TYPE),
    "version": ("strict decode", VER),
    "namespace": ("segment-decoder", NS),
    "name": ("strict decode", NAME),
}


def roles(facts, pm):
    """Map role name -> fn key, discovered by dataflow / trait identity / public API name."""
    r = {"parser": pm["key"], "build": models.build_fn(facts)}
    for fld, sinks in pm["sinks"].items():
        for s in sinks:
            if s["via"] and not s["decoded"]:
                # role = "the local fn whose Ok-payload is stored into that field" (the region it must
                # receive is checked by GRAMMAR, so a wrong split is reported there, not as a lost anchor)
                if fld == "subpath":
                    r["subpath-decoder"] = s["via"]
                elif fld == "namespace":
                    r["namespace-decoder"] = s["via"]
    for c in pm["calls"]:
        if c.get("takes_parts") and c["path"] in facts.bodies and c["path"] != r["build"]:
            r["qualifier-decoder"] = c["path"]
    decs = list(pm["decoders"].keys())
    if len(decs) == 1:
        r["decoder"] = decs[0]
    # public API anchors
    def one(**kw):
        ks = facts.find_fns(**kw)
        return ks[0] if len(ks) == 1 else None

    r["entry"] = one(name="entry", impl_self="qualifiers::Qualifiers", inherent=True)
    r["insert"] = one(name="insert", impl_self="qualifiers::Qualifiers", inherent=True)
    # key check: the local fn both entry and insert propagate from
    if r.get("entry"):
        for row in models.rejections(facts, r["entry"]):
            if row["kind"] == "propagate" and row["callee"] in facts.bodies:
                r["keycheck"] = row["callee"]
    for k, f in facts.fns.items():
        if f.get("impl_trait_def") == "std::convert::TryFrom" and f.get("name") == "try_from":
            if f.get("impl_self", "").startswith("qualifiers::well_known::Checksum<"):
                r["checksum-parse"] = k
            elif "Checksum<" in f.get("impl_trait", ""):
                r["checksum-serialize"] = k
        if f.get("impl_trait_def") == "PurlShape" and f.get("name") == "finish":
            st = f.get("impl_self", "")
            if st == "package_type::PackageType":
                r["pt-finish"] = k
            elif st == "std::string::String":
                r["string-finish"] = k
            elif st.startswith("std::borrow::Cow<"):
                r["cow-finish"] = k
            elif st.startswith("smartstring::SmartString<"):
                r["smartstring-finish"] = k
        if f.get("impl_trait_def") == "std::str::FromStr" and f.get("impl_self") == "package_type::PackageType":
            r["pt-fromstr"] = k
    return r


def valid_type_fn(facts):
    return "is_valid_package_type" if "is_valid_package_type" in facts.bodies else None


def err_row(role, error, trig):
    return {"role": role, "kind": "err", "error": error, "trigger": trig}


def prop_row(role, callee_role, args):
    return {"role": role, "kind": "propagate", "callee_role": callee_role, "args": args}


def reference_rows(rl):
    """R-FAULT.  Each row cites the clause of C05 (or of C02/C04/C08 where C05 points there)."""
    VT = "is_valid_package_type"
    rows = [
        # "lacks the `pkg:` scheme prefix" -> UnsupportedUrlScheme
        err_row("parser", "ParseError::UnsupportedUrlScheme", ("prefix", "pkg:", IN, False)),
        # "has no type" -> MissingRequiredField(PackageType)
        err_row("parser", "ParseError::MissingRequiredField(PurlField::PackageType)", ("empty", R4, True)),
        # "has no name" (no '/' after the type) -> MissingRequiredField(Name)
        err_row("parser", "ParseError::MissingRequiredField(PurlField::Name)", ("found", "Split", "/", R4, False)),
        # "a type that is syntactically invalid or percent-encoded" -> InvalidPackageType
        err_row("parser", "ParseError::InvalidPackageType", ("pred", VT, (TYPE,), False)),
        # conversion error of the type parameter passes through (C14 / "unknown type -> UnsupportedType")
        prop_row("parser", "T::from_str", (TYPE,)),
        # "a percent-escape sequence that is not valid UTF-8 in any component" -> InvalidEscape (five decoded sinks)
        prop_row("parser", "decoder", (VER,)),
        prop_row("parser", "decoder", (NAME,)),
        prop_row("parser", "namespace-decoder", (NS,)),
        prop_row("parser", "subpath-decoder", (SUB,)),
        prop_row("parser", "qualifier-decoder", (QUAL, "parts")),
        {"role": "parser", "kind": "tail", "callee_role": "build"},
        prop_row("subpath-decoder", "decoder", (SEG,)),
        prop_row("namespace-decoder", "decoder", (SEG,)),
        # "hides a '/' inside a namespace or subpath segment behind an escape" -> InvalidEscape ; escaped dot segments
        {"role": "subpath-decoder", "kind": "err", "error": "ParseError::InvalidEscape", "triggers": {("contains", "/", SEGD, True), ("inlist", (".", ".."), SEGD, True)}},
        {"role": "namespace-decoder", "kind": "err", "error": "ParseError::InvalidEscape", "triggers": {("contains", "/", SEGD, True)}},
        # "a qualifier without '='" -> InvalidQualifier
        err_row("qualifier-decoder", "ParseError::InvalidQualifier", ("found", "Split", "=", QITEM, False)),
        # "with an invalid, empty or percent-encoded key" -> InvalidQualifier (inside entry -> key check)
        prop_row("qualifier-decoder", "entry", ("qualifiers", QKEY)),
        # "two non-empty values for one key in any letter case" -> InvalidQualifier
        {"role": "qualifier-decoder", "kind": "err", "error": "ParseError::InvalidQualifier", "trigger_kind": "occupied"},
        prop_row("qualifier-decoder", "decoder", (QVAL,)),
        prop_row("entry", "keycheck", (("Input", 2),)),
        prop_row("insert", "keycheck", (("Input", 2),)),
        {"role": "keycheck", "kind": "err", "error": "ParseError::InvalidQualifier", "trigger_kind": "invalid-key"},
        # "has no name" (empty name after the hook) -> MissingRequiredField(Name)
        err_row("build", "ParseError::MissingRequiredField(PurlField::Name)", ("empty", ("Field", "arg1.parts.name"), True)),
        prop_row("build", "finish", None),
        prop_row("build", "try_get_typed<Checksum>", None),
        prop_row("build", "checksum-serialize", None),
        prop_row("build", "insert", None),
        # "a malformed checksum (entry without ':', odd or non-hex digits, algorithm repeated in any case)" -> InvalidQualifier
        err_row("checksum-parse", "ParseError::InvalidQualifier", ("found", "RSplit", ":", CITEM, False)),
        {"role": "checksum-parse", "kind": "err", "error": "ParseError::InvalidQualifier", "trigger_kind": "duplicate-insert"},
        {"role": "checksum-serialize", "kind": "err", "error": "ParseError::InvalidQualifier", "trigger_kind": "hex"},
    ]
    return rows


def _alternatives(trigs):
    """the single alternatives of a disjunctive trigger set: an inlist over several strings counts string by string"""
    out = set()
    for t in trigs:
        if isinstance(t, tuple) and t and t[0] == "inlist" and isinstance(t[1], tuple):
            for x in t[1]:
                out.add(("inlist", (x,)) + tuple(t[2:]))
        else:
            out.add(t)
    return out


def match_rows(facts, pm, rl, role_list, weak_out=None):
    """Compare extracted rejection rows of the given roles with R-FAULT.  Returns (matched, missing, extra)
    where each entry is (role, description, site, fnkey).

    A row matches a reference row *exactly* when its error / callee / arguments agree AND its whole path condition is the
    documented trigger plus benign conjuncts only (see benign_atom).  A row that agrees but carries another conjunct
    refuses LESS than documented: it is not an extra refusal (so it is not reported by C02) but the documented refusal
    counts as missing (C05); such rows are appended to weak_out."""
    ref = [r for r in reference_rows(rl) if r["role"] in role_list]
    inv = {v: k for k, v in rl.items() if v}
    matched, extra = [], []
    used = set()
    partial = {}
    for role in role_list:
        key = rl.get(role)
        if not key:
            raise AnchorError("role %s not found in the crate" % role)
        role_refs = [r for r in reference_rows(rl) if r["role"] == role]
        pending = [r for r in models.rejections(facts, key) if r["kind"] not in ("ok", "some")]
        rows_ = []
        # a refusal handed on from another local function that is not itself a documented step (`insert` written through
        # `entry`, a helper wrapping the key check) is replaced by that function's own refusals, arguments substituted
        guard = 0
        while pending and guard < 40:
            guard += 1
            row = pending.pop(0)
            if row["kind"] in ("propagate", "tail") and row.get("callee") in facts.bodies and row.get("depth", 0) < 3 \
                    and not any(r["kind"] in ("propagate", "tail") and callee_of_ref(rl, r) == row["callee"] for r in role_refs):
                sub = expand_row(facts, row)
                if sub is not None:
                    pending = sub + pending
                    continue
            rows_.append(row)
        for row in rows_:
            desc = describe_row(row)
            hit = None
            weak = None
            for i, r in enumerate(ref):
                if r["role"] != role or (i in used and i not in partial):
                    continue
                row.pop("_partial", None)
                m = row_matches(facts, rl, inv, r, row, role_refs)
                if m is True:
                    hit = i
                    break
                if m and weak is None:
                    weak = (i, m)
            if hit is not None:
                if row.get("_partial") or hit in partial:
                    # one alternative of a documented disjunction: the reference is covered when all of them are
                    partial.setdefault(hit, set()).update(_alternatives(loosen(set(row.get("triggers", ())))))
                    used.add(hit)
                else:
                    used.add(hit)
                matched.append((role, describe_ref(ref[hit]), desc, row["site"], key))
            elif weak is not None:
                if weak_out is not None:
                    weak_out.append((role, describe_ref(ref[weak[0]]), desc + "  -- only under the further condition " + weak[1], row["site"], key))
            else:
                extra.append((role, desc, row["site"], key))
    for i, got in partial.items():
        if got != _alternatives(loosen(merge_inlists(set(ref[i]["triggers"])))):
            used.discard(i)   # some alternative of the documented condition has no refusing row
    missing = [(r["role"], describe_ref(r), "", rl.get(r["role"], "")) for i, r in enumerate(ref) if i not in used]
    return matched, missing, extra


def subst_inputs(x, mapping):
    if isinstance(x, tuple):
        if len(x) == 2 and x[0] == "Input" and x[1] in mapping:
            return mapping[x[1]]
        return tuple(subst_inputs(y, mapping) for y in x)
    return x


def expand_row(facts, row):
    """rows of the callee of a propagate/tail row, expressed in the caller's terms; None if that is not possible"""
    callee = row["callee"]
    args = row.get("args", ())
    mapping = {i + 1: a for i, a in enumerate(args)}
    out = []
    for sr in models.rejections(facts, callee):
        if sr["kind"] in ("ok", "some"):
            continue
        if sr["kind"] == "other":
            return None
        nr = dict(sr)
        nr["fn"] = row.get("fn")
        nr["site"] = row["site"]
        nr["bb"] = row["bb"]
        nr["depth"] = row.get("depth", 0) + 1
        nr["via_callee"] = callee
        own = [a for a in row.get("catoms", []) if not (a[0] == "callres" and a[1] == callee and a[-1] in ("Err?", "Err", "None"))]
        nr["catoms"] = own + [subst_inputs(a, mapping) for a in sr.get("catoms", [])]
        nr["gatoms"] = []
        if "triggers" in sr:
            nr["triggers"] = [subst_inputs(a, mapping) for a in sr["triggers"]]
        if "args" in sr:
            nr["args"] = tuple(subst_inputs(a, mapping) for a in sr["args"])
        out.append(nr)
    return out


def describe_row(row):
    if row["kind"] in ("err", "none"):
        return "%s when %s" % (row["error"], " | ".join(show_canon(t) for t in row.get("triggers", [])))
    if row["kind"] in ("propagate", "tail"):
        return "%s error of %s(%s)" % (row["kind"], row.get("callee"), ", ".join(show_region(a) if isinstance(a, tuple) else str(a) for a in row.get("args", ())))
    return row["kind"]


def describe_ref(r):
    if r["kind"] == "err":
        if "trigger" in r:
            return "%s when %s" % (r["error"], show_canon(r["trigger"]))
        if "triggers" in r:
            return "%s when %s" % (r["error"], " | ".join(sorted(show_canon(t) for t in r["triggers"])))
        return "%s when <%s>" % (r["error"], r["trigger_kind"])
    return "%s error of <%s>%s" % (r["kind"], r["callee_role"], "" if r.get("args") is None else "(%s)" % ", ".join(show_region(a) if isinstance(a, tuple) else str(a) for a in r["args"]))


def loosen(x):
    """Forget split *direction* (first/last occurrence) in region terms: which occurrence separates two
    components is the GRAMMAR rule's business (C02); the fault rows only care which component is looked at."""
    if isinstance(x, tuple):
        if len(x) == 3 and isinstance(x[0], str) and x[0] in ("RSplitL", "SplitL", "RSplitLOpt", "SplitLOpt", "RSplitR", "SplitR", "RSplitROpt", "SplitROpt"):
            k = x[0].replace("RSplit", "Split")
            return (k, x[1], loosen(x[2]))
        if len(x) == 5 and x[0] == "found":
            return ("found", "Split", x[2], loosen(x[3]), x[4])
        return tuple(loosen(y) for y in x)
    if isinstance(x, (set, frozenset)):
        return frozenset(loosen(y) for y in x)
    return x


def merge_inlists(atoms):
    """x == "a" | x == "b"  ==  x in ("a", "b"): in a disjunction, positive membership atoms on one subject are one atom"""
    groups = {}
    out = set()
    for a in atoms:
        if a[0] == "inlist" and a[-1] is True:
            groups.setdefault(a[2], set()).update(a[1])
        elif a[0] == "empty" and a[-1] is True and any(b[0] == "inlist" and b[-1] is True and b[2] == a[1] for b in atoms):
            groups.setdefault(a[1], set()).add("")
        else:
            out.add(a)
    for subj, vals in groups.items():
        out.add(("inlist", tuple(sorted(vals)), subj, True))
    return out


def neg(a):
    return a[:-1] + (not a[-1],) if isinstance(a[-1], bool) else a


def regions_in(x, out=None):
    """all region sub-terms occurring in a (nested) tuple"""
    if out is None:
        out = []
    if isinstance(x, tuple):
        if x and isinstance(x[0], str) and x[0] in ("Input", "StripPrefix", "TrimStart", "Trim", "TrimEnd", "RSplitL", "RSplitR", "SplitL", "SplitR", "RSplitLOpt", "RSplitROpt", "SplitLOpt", "SplitROpt", "Item", "Decode"):
            out.append(x)
        for y in x:
            regions_in(y, out)
    return out


def callee_of_ref(rl, r):
    cr = r.get("callee_role")
    return {"T::from_str": "std::str::FromStr::from_str", "finish": "PurlShape::finish", "try_get_typed<Checksum>": "qualifiers::Qualifiers::try_get_typed"}.get(cr, rl.get(cr))


def benign_atom(a, hits, row, role_refs, rl):
    """Is conjunct `a` of an extracted row's path condition harmless, given that the documented trigger(s) `hits` are on it?
      (i)   the negation of another documented trigger of the same function, or the success of another documented
            fallible step of it (priority among refusals: that input is refused by the other row);
      (ii)  implied by the trigger itself (an empty string contains nothing);
      (iii) structural: the existence of a region the row itself talks about (found(c, X) for a split of X at c, next() for
            an item), the payload of an earlier step, the enum variant dispatch of a per-type hook, or the documented
            skip tests of the segment loops."""
    la = loosen(a)
    for r in role_refs:
        if r["kind"] == "err":
            ts = [r["trigger"]] if "trigger" in r else list(r.get("triggers", []))
            for t in ts:
                if la == loosen(neg(t)):
                    return True
                # the negation of one alternative of a documented disjunction (`x == "." | x == ".."` tested one by one)
                if t[0] == "inlist" and a[0] == "inlist" and a[-1] is False and t[-1] is True and set(a[1]) <= set(t[1]) and loosen(tuple(a[2:-1])) == loosen(tuple(t[2:-1])):
                    return True
    if a[0] == "callres" and a[-1] in ("Ok?", "Ok", "Some"):
        for r in role_refs:
            if r["kind"] in ("propagate", "tail") and callee_of_ref(rl, r) == a[1]:
                return True
    for h in hits:
        if h[0] == "empty" and h[-1] is True:
            if a[0] == "found" and a[-1] is False and loosen(a[3]) == loosen(h[1]):
                return True
            if a[0] in ("contains", "contains-any") and a[-1] is False and loosen(a[2]) == loosen(h[1]):
                return True
    mentioned = regions_in(tuple(row.get("args", ()))) + regions_in(tuple(row.get("triggers", []))) + regions_in(tuple(hits))
    lm = [loosen(m) for m in mentioned]
    if a[0] == "found" and a[-1] is True:
        for m in lm:
            if len(m) == 3 and m[0] in ("SplitL", "SplitR") and m[1] == a[2] and m[2] == loosen(a[3]):
                return True
    if a[0] == "next" and a[-1] is True:
        return True  # "there is a (next) item": inherent to a refusal about an item; which items are visited is the loop rules' business
    if a[0] == "next" and a[-1] is False:
        return True  # an earlier loop has run to its end (it is on every path here, so exhaustion is its only way out; C06 LOOP: it ends)
    if a[0] == "is" and a[-1] in ("Some", "Vacant", "Ok", "Ok?"):
        subj = a[1]
        text = str(row.get("callterm", "")) + str(row.get("errterm", "")) + str(row.get("args", ""))
        if subj in text or subj.split("(")[0] in text:
            return True
        # negation of the 'occupied' refusal
        if a[-1] == "Vacant" and any(r.get("trigger_kind") == "occupied" for r in role_refs):
            return True
        if a[-1] == "Some" and any(r["kind"] == "propagate" and callee_of_ref(rl, r) and callee_of_ref(rl, r) in subj for r in role_refs):
            return True
    if a[0] == "is" and row.get("fn") in (rl.get("pt-finish"), rl.get("cow-finish")) and a[1] in ("arg1", "deref(arg1)"):
        return True
    if row.get("fn") in (rl.get("subpath-decoder"), rl.get("namespace-decoder")):
        skip = {"", ".", ".."} if row.get("fn") == rl.get("subpath-decoder") else {""}
        if a[0] == "inlist" and a[-1] is False and loosen(a[2]) == loosen(SEG) and set(a[1]) <= skip:
            return True
        if a[0] == "empty" and a[-1] is False and loosen(a[1]) == loosen(SEG):
            return True
    return False


def region_known(r):
    return isinstance(r, tuple) and r and r[0] != "?"


def path_ok(hits, row, role_refs, rl, own=None):
    """None if every conjunct of the row's path condition other than the hits is benign; else the shown offending atoms"""
    bad = []
    lh = [loosen(h) for h in hits]
    for a in row.get("catoms", []):
        if loosen(a) in lh:
            continue
        if own is not None and a[0] == "callres" and a[1] == own and a[-1] in ("Err?", "Err", "None"):
            continue
        if benign_atom(a, hits, row, role_refs, rl):
            continue
        if a in row.get("assert_atoms", ()):
            continue   # the passing side of an assertion: not a condition on which results depend (C06's business)
        bad.append(show_canon(a))
    return None if not bad else "; ".join(bad)[:300]


def row_matches(facts, rl, inv, ref, row, role_refs=()):
    """True (exact), a string (agrees, but only under the shown further condition), or False."""
    if ref["kind"] == "err":
        if row["kind"] != "err" or row["error"] != ref["error"]:
            return False
        trigs = merge_inlists(set(row.get("triggers", [])))
        pool = set(row.get("catoms", [])) | trigs
        hits = None
        if "trigger" in ref:
            # a single documented condition: it must be one of the conjuncts on the path (the last test may be another,
            # benign one -- `match x { None if s.is_empty() => A, None => B }`)
            t = ref["trigger"]
            if len(trigs) <= 1 and loosen(t) in loosen(pool):
                hits = [a for a in pool if loosen(a) == loosen(t)]
                rest = [a for a in trigs if loosen(a) != loosen(t)]
                for a in rest:
                    if not benign_atom(a, hits, row, role_refs, rl):
                        return "last test " + show_canon(a)
            elif loosen(trigs) == loosen({t}):
                hits = list(trigs)
        elif "triggers" in ref:
            want_ = loosen(merge_inlists(set(ref["triggers"])))
            if loosen(trigs) == want_:
                hits = list(trigs)
            elif trigs and _alternatives(loosen(trigs)) <= _alternatives(want_):
                # the documented condition is a disjunction; this row refuses on some of its alternatives (the code tests
                # them one after the other and each test has its own exit) -- match_rows collects the rows of one reference
                hits = list(trigs)
                row["_partial"] = True
        else:
            tk = ref["trigger_kind"]
            ok = False
            if tk == "occupied":
                ok = len(trigs) == 1 and all(t[0] == "is" and t[-1] == "Occupied" and "Qualifiers::entry" in t[1] for t in trigs)
            elif tk == "invalid-key":
                if len(trigs) == 1:
                    t = next(iter(trigs))
                    if t[0] == "pred" and t[2] == (IN,) and t[3] is False and t[1] in facts.bodies:
                        row["_keypred"] = t[1]
                        ok = True
            elif tk == "duplicate-insert":
                ok = len(trigs) == 1 and all((t[0] == "pred" and t[1] == "std::option::Option::<T>::is_some" and t[3] is True and "HashMap" in str(t[2]) and "::insert" in str(t[2]))
                                             or (t[0] in ("is", "callres") and t[-1] == "Occupied" and "HashMap" in str(t) and "::entry" in str(t))
                                             or (t[0] in ("is", "callres") and t[-1] == "Some" and "HashMap" in str(t) and "::insert" in str(t)) for t in trigs)
            elif tk == "hex":
                # any(!hexdigit) true | len % 2 != 0   -- details are checked by C12 HEX-GUARD
                kinds = sorted(t[0] for t in trigs)
                ok = kinds in (["cmp", "pred"], ["any", "cmp"], ["all", "cmp"])
                # validation of all values up front: `!values().all(valid)` (what `valid` tests: C12 HEX-GUARD, prevalidated)
                if not ok and len(trigs) == 1:
                    t = next(iter(trigs))
                    ok = t[0] == "pred" and t[1] == "std::iter::Iterator::all" and t[-1] is False
            if ok:
                hits = list(trigs)
        if hits is None:
            return False
        bad = path_ok(hits, row, role_refs, rl)
        return True if bad is None else bad
    if ref["kind"] in ("propagate", "tail"):
        if row["kind"] != ref["kind"]:
            return False
        cr = ref["callee_role"]
        callee = row.get("callee")
        if cr == "T::from_str":
            ok = callee == "std::str::FromStr::from_str"
        elif cr == "finish":
            ok = callee == "PurlShape::finish"
        elif cr == "try_get_typed<Checksum>":
            ok = callee == "qualifiers::Qualifiers::try_get_typed"
        else:
            ok = rl.get(cr) == callee
        if not ok:
            return False
        if ref.get("args") is not None:
            args = row.get("args", ())
            want = ref["args"]
            if len(args) != len(want):
                return False
            for a, w in zip(args, want):
                if w == "parts":
                    # the accumulator of the parser, or (a decoder that is handed only what it fills) its qualifier list
                    if not (isinstance(a, tuple) and (a[0] == "Var" or (a[0] == "Field" and a[1].endswith(".qualifiers") and a[1].startswith("var_")))):
                        return False
                elif w == "qualifiers":
                    # the qualifier list: a field of the accumulator argument, or the argument itself when the decoder
                    # receives `&mut Qualifiers`
                    isq = isinstance(a, tuple) and ((a[0] == "Field" and a[1].endswith(".qualifiers")) or (a[0] == "Input" and row.get("fn") in facts.fns and any("qualifiers::Qualifiers" in t_ for t_ in facts.fns[row["fn"]].get("inputs", [])[a[1] - 1:a[1]])))
                    if not isq:
                        return False
                elif loosen(a) != loosen(w):
                    return False
        bad = path_ok([], row, role_refs, rl, own=callee)
        return True if bad is None else bad
    return False
