"""Positive controls (E6): the generic detection functions must fire on fixtures/controls, analysed with the same driver."""
import os
from purlsa import extract as ex
from purlsa.core import callee_name
from purlsa import models

FIX = os.path.join(ex.VERIF, "fixtures", "controls")
_cache = {}


def facts():
    if "f" not in _cache:
        _cache["f"] = ex.extract("controls", repo=FIX, crate="controls", pkg_args=[])
    return _cache["f"]


def control_panic(ctx, rule="CONTROL"):
    from . import C06
    f = facts()
    sites = C06.panic_sites(f)
    unjust = {}
    for s in sites:
        jid, det = C06.justify(f, s)
        if jid is None:
            unjust.setdefault(s["fn"], []).append(s["what"])
    for fn, what in (("minus_one", "Overflow(Sub)"), ("unwrap_opt", "unwrap"), ("index", "index"), ("explicit", "panic"), ("times", "Overflow(Mul)")):
        got = unjust.get(fn, [])
        ctx.ob(rule, "PANIC audit reports the unjustified %s in controls::%s" % (what, fn), any(what in g for g in got), fn="controls::" + fn, detail=str(got))


def control_loop(ctx, rule="CONTROL"):
    f = facts()
    b = f.body("while_loop")
    heads = models.loop_of_next(b)
    ctx.ob(rule, "LOOP audit reports the non-iterator loop in controls::while_loop", bool(b.loops()) and not all(h in heads for h in b.loops()), fn="controls::while_loop", detail="loops %d, next-headed %d" % (len(b.loops()), len(heads)))
    g = f.callgraph()
    ctx.ob(rule, "NOREC reports the recursion in controls::rec", "rec" in g.get("rec", ()), fn="controls::rec", detail="")


def control_lossy(ctx, rule="CONTROL"):
    from . import C05
    f = facts()
    hit = []
    for k, b in f.bodies.items():
        for bb, t in b.calls(include_cleanup=True):
            if "path" in t["callee"] and any(x in callee_name(t["callee"]) for x in C05.LOSSY):
                hit.append(k)
    ctx.ob(rule, "NO-LOSSY reports the lossy decode in controls::lossy", hit == ["lossy"], fn="controls::lossy", detail=str(hit))


def control_sort_taint(ctx, rule="CONTROL"):
    from . import C12
    from purlsa.sem import norm
    f = facts()
    b = f.body("hash_to_string")
    its = [bb for bb, t in b.calls() if callee_name(t["callee"]) in C12.HM_ITER]
    returned = any(("@%d" % bb) in C12.mark_sites(norm(b.resolve_local(0))) for bb in its)
    sinks = [e for e in models.mut_effects(b) if e["path"].endswith("push_str")]
    ctx.ob(rule, "SORT-TAINT reports the unsorted HashMap iteration feeding a String in controls::hash_to_string", bool(its) and not returned and bool(sinks), fn="controls::hash_to_string", detail="iteration sites %s, returned=%s, string sinks=%d" % (its, returned, len(sinks)))
