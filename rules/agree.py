"""AGREE -- the agreement simulation (DESIGN.md 4.5): the extracted parser model is run on the SYMBOLIC output of the
extracted formatter model.  Nothing of purl is executed: region terms (from the MIR of from_str and its helpers) are
evaluated over token strings built from the write sites of Display::fmt; every split must be resolved by a literal that
the formatter emitted as the separator for exactly that sink, never inside a component.  Each resolution is discharged
by a set-membership fact about a compile-time evaluated escape set or a predicate alphabet."""
from purlsa.core import AnchorError
from purlsa import models, boolsum
from purlsa.models import show_region
from . import C03, faults
from .common import VALID_TYPE_SET, VALID_KEY_SET, ch, fn_site

LOWER_TYPE = VALID_TYPE_SET & ~sum(1 << c for c in range(65, 91))
LOWER_KEY = VALID_KEY_SET & ~sum(1 << c for c in range(65, 91))
ASCII = (1 << 128) - 1
HEXUP = sum(1 << ord(c) for c in "0123456789ABCDEF")


class Model:
    """FM pieces + escape sets + PM regions, extracted once per run."""

    def __init__(self, facts, reference_parser=False):
        self.facts = facts
        self.reference_parser = reference_parser
        self.summ = boolsum.Summarizer(facts)
        self.fm = models.formatter_model(facts)
        self.flat = C03.flatten(facts, self.fm, self.summ)
        self.pm = models.parser_model(facts)
        self.roles = faults.roles(facts, self.pm)
        self.esc = {}
        for e in self.fm["emits"]:
            for it in e["items"]:
                if it[0] == "enc":
                    comp = C03.component_of(facts, it[1], self.summ)
                    self.esc[comp] = (it[2], it[3], e["site"])
        need = {"namespace", "name", "version", "qualifier-key", "qualifier-value", "subpath"}
        if set(self.esc) != need:
            raise AnchorError("formatter model: encode sites found for %s, expected %s" % (sorted(self.esc), sorted(need)))
        # regions the parser gives to each sink
        self.regions = {}
        for fld, sinks in self.pm["sinks"].items():
            if len(sinks) == 1:
                self.regions[fld] = sinks[0]["region"]
        for c in self.pm["calls"]:
            if c["path"] == "std::str::FromStr::from_str":
                self.regions["type"] = models._region(c["args"][0])
            if c.get("takes_parts") and c["path"] == self.roles.get("qualifier-decoder"):
                self.regions["qualifiers"] = models._region(c["args"][0])
        for k in ("type", "namespace", "name", "version", "qualifiers", "subpath"):
            if k not in self.regions or not models.region_ok(self.regions[k]):
                raise AnchorError("parser model: no region for sink %s" % k)
        if reference_parser:
            # injectivity of Display (C19) is a property of the formatter alone: decode with the REFERENCE grammar
            # (R-GRAMMAR, transcribed from the property texts), not with whatever the crate's parser currently does
            self.regions = {"type": faults.TYPE, "namespace": faults.NS, "name": faults.NAME, "version": faults.VER, "qualifiers": faults.QUAL, "subpath": faults.SUB}
            self.kv_split = ("Split", "=")
            self.item_sep = "&"
            return
        # the qualifier decoder: item separator and which '=' separates key and value
        qd = self.roles.get("qualifier-decoder")
        if not qd:
            raise AnchorError("qualifier decoder not found by role")
        bs = models.body_summary(facts, qd)
        ent = [e for e in bs["effects"] if e["path"] == self.roles.get("entry")]
        if len(ent) != 1:
            raise AnchorError("qualifier decoder: the entry() call is not unique", qd)
        kr = models._region(ent[0]["args"][1])
        if kr[0] not in ("SplitL", "RSplitL") or kr[2][0] != "Item":
            raise AnchorError("qualifier decoder: key region not understood: %s" % models.show_region(kr), qd)
        self.kv_split = (kr[0].replace("L", ""), kr[1])      # ("Split" | "RSplit", '=')
        self.item_sep = kr[2][1]

    def raw(self, comp):
        """ASCII chars that may occur raw inside the encoded text of a component."""
        dom = {"type": LOWER_TYPE, "qualifier-key": LOWER_KEY}.get(comp, ASCII)
        if comp == "type":
            return dom
        bits = self.esc[comp][1]
        return (dom & ~bits & ASCII) | (1 << ord("%")) | HEXUP


SEGCOMP = {"namespace": "namespace", "subpath": "subpath"}


def tokens_for(model, pi, domain):
    """Token string the formatter emits for presence vector pi = (ns_class, version?, nq, sub_class).
    Tokens: ("L", text) literal written by the formatter; ("C", comp, i) encoded component text;
    ("S", "/", comp) a raw '/' that is part of a namespace/subpath value."""
    ns, ver, nq, sub = pi
    toks = []
    qi = [0]

    def comp_tokens(comp, cls):
        if comp not in SEGCOMP:
            return [("C", comp, 0)]
        # classes of segment lists
        if cls == "one":
            return [("C", comp, 0)]
        if cls == "two":
            return [("C", comp, 0), ("S", "/", comp), ("C", comp, 1)]
        if cls == "insig":  # only insignificant pieces (builder domain)
            return [("S", "/", comp)]
        if cls == "mixed":  # leading, doubled and trailing slashes around significant segments (builder domain)
            return [("S", "/", comp), ("C", comp, 0), ("S", "/", comp), ("S", "/", comp), ("C", comp, 1), ("S", "/", comp)]
        raise AnchorError("unknown class %s" % cls)

    for (g, item, site) in model.flat:
        if "some:namespace" in g and ns is None:
            continue
        if "some:version" in g and not ver:
            continue
        if "some:subpath" in g and sub is None:
            continue
        reps = 1
        if "loop_item" in g:
            reps = nq
        for r in range(reps):
            if "loop_item" in g and item[0] != "prefix" and False:
                pass
        if "loop_item" in g:
            continue
        if item[0] == "lit":
            toks.append(("L", item[1]))
        elif item[0] == "type":
            toks.append(("C", "type", 0))
        elif item[0] == "enc":
            cls = ns if item[1] == "namespace" else sub if item[1] == "subpath" else None
            toks.extend(comp_tokens(item[1], cls))
    # splice the qualifier loop at its place: the loop items are contiguous in flat
    loop_items = [(g, item) for (g, item, site) in model.flat if "loop_item" in g]
    if loop_items:
        first = next(i for i, (g, item, site) in enumerate(model.flat) if "loop_item" in g)
        # position in toks: count tokens produced by earlier items
        before = tokens_for_prefix(model, pi, first)
        q = []
        for r in range(nq):
            for (g, item) in loop_items:
                if item[0] == "prefix":
                    q.append(("L", chr(item[1]) if r == 0 else chr(item[2])))
                elif item[0] == "lit":
                    q.append(("L", item[1]))
                elif item[0] == "enc":
                    q.append(("C", item[1], r))
        toks = toks[:before] + q + toks[before:]
    return toks


def tokens_for_prefix(model, pi, upto):
    ns, ver, nq, sub = pi
    n = 0
    for (g, item, site) in model.flat[:upto]:
        if "some:namespace" in g and ns is None:
            continue
        if "some:version" in g and not ver:
            continue
        if "some:subpath" in g and sub is None:
            continue
        if "loop_item" in g:
            continue
        if item[0] == "enc" and item[1] in SEGCOMP:
            cls = ns if item[1] == "namespace" else sub
            n += {"one": 1, "two": 3, "insig": 1, "mixed": 6}[cls]
        else:
            n += 1
    return n


def show_tokens(toks):
    out = []
    for t in toks:
        if t[0] == "L":
            out.append(t[1])
        elif t[0] == "S":
            out.append("/")
        else:
            out.append("<%s%s>" % (t[1], t[2] if t[2] else ""))
    return "".join(out)


class Sim:
    def __init__(self, model, toks, record):
        self.m = model
        self.toks = toks
        self.record = record  # record(kind, comp, char, ok, detail)

    def may_contain(self, tok, c):
        if tok[0] == "L":
            return c in tok[1]
        if tok[0] == "S":
            return tok[1] == c
        return bool((self.m.raw(tok[1]) >> ord(c)) & 1)

    def ev(self, r):
        """Evaluate a region term on the token string -> list of tokens, or None when a split cannot be resolved."""
        k = r[0]
        if k == "Input":
            return list(self.toks)
        if k == "StripPrefix":
            t = self.ev(r[2])
            if t is None:
                return None
            if t and t[0][0] == "L" and t[0][1].startswith(r[1]):
                rest = t[0][1][len(r[1]):]
                return ([("L", rest)] if rest else []) + t[1:]
            self.record("prefix", "-", r[1], False, "the output does not start with the literal %r" % r[1])
            return None
        if k in ("TrimStart", "Trim"):
            t = self.ev(r[2])
            if t is None:
                return None
            c = r[1]
            while t and (t[0][0] == "L" and t[0][1].startswith(c) or t[0][0] == "S" and t[0][1] == c):
                if t[0][0] == "L" and len(t[0][1]) > 1:
                    t = [("L", t[0][1][1:])] + t[1:]
                else:
                    t = t[1:]
            if t and t[0][0] == "C":
                ok = not self.may_contain(t[0], c)
                self.record("trim", t[0][1], c, ok, "%s cannot start with a raw %r (else trim_start would eat into it)" % (t[0][1], c))
            if k == "Trim":
                while t and (t[-1][0] == "S" and t[-1][1] == c or t[-1][0] == "L" and t[-1][1].endswith(c) and len(t[-1][1]) == 1):
                    t = t[:-1]
            return t
        if k in ("RSplitL", "RSplitR", "SplitL", "SplitR", "RSplitLOpt", "RSplitROpt", "SplitLOpt", "SplitROpt"):
            t = self.ev(r[2])
            if t is None:
                return None
            c = r[1]
            rev = k.startswith("R")
            opt = k.endswith("Opt")
            side = k.replace("Opt", "")[-1]
            idxs = [i for i, tok in enumerate(t) if self.may_contain(tok, c)]
            if not idxs:
                if opt:
                    return t
                self.record("absent", "-", c, False, "the parser expects a %r separator that the formatter did not emit: %s" % (c, show_tokens(t)))
                return None
            j = idxs[-1] if rev else idxs[0]
            tok = t[j]
            if tok[0] == "C":
                self.record("split", tok[1], c, False, "%s splits at the %s %r, which may be a raw character inside the %s component (escape set %s)" % (k, "last" if rev else "first", c, tok[1], self.m.esc.get(tok[1], ("-",))[0]))
                return None
            # every component token on the far side of the chosen separator that could have contained c was skipped correctly
            for i in idxs:
                if t[i][0] == "C":
                    self.record("split", t[i][1], c, True, "%r may occur raw in %s but %s picks the %s occurrence, which is the separator" % (c, t[i][1], k, "last" if rev else "first"))
            if tok[0] == "L" and len(tok[1]) > 1:
                p = tok[1].rfind(c) if rev else tok[1].find(c)
                left = t[:j] + ([("L", tok[1][:p])] if tok[1][:p] else [])
                right = ([("L", tok[1][p + 1:])] if tok[1][p + 1:] else []) + t[j + 1:]
            else:
                left, right = t[:j], t[j + 1:]
            return left if side == "L" else right
        raise AnchorError("region operator %s not supported by the agreement simulation" % k)


def run_agree(ctx, rule, domain, nq_max, reference_parser=False):
    facts = ctx.facts()
    m = Model(facts, reference_parser)
    key_fm = m.fm["key"]
    key_pm = m.pm["key"]
    seen = {}

    def rec_factory(pi):
        def record(kind, comp, c, ok, detail):
            k = (kind, comp, c)
            if k in seen and seen[k][0] == ok:
                seen[k][2].append(pi)
                return
            if k in seen and not ok:
                seen[k] = (ok, detail, seen[k][2] + [pi])
                return
            if k not in seen:
                seen[k] = (ok, detail, [pi])
        return record

    ns_classes = [None, "one", "two"] if domain == "canonical" else [None, "one", "two", "insig", "mixed"]
    sub_classes = ns_classes
    sink_results = {}
    npi = 0
    for ns in ns_classes:
        for ver in (False, True):
            for nq in range(0, nq_max + 1):
                for sub in sub_classes:
                    pi = (ns, ver, nq, sub)
                    npi += 1
                    toks = tokens_for(m, pi, domain)
                    sim = Sim(m, toks, rec_factory(pi))
                    want = {
                        "type": [("C", "type", 0)],
                        "name": [("C", "name", 0)],
                        "version": [("C", "version", 0)] if ver else None,
                    }
                    for sink, region in m.regions.items():
                        if sink == "version" and not ver:
                            # the version sink is only assigned when the '@' split succeeds: the Opt-region of the name must still resolve
                            continue
                        if sink == "namespace" and ns is None:
                            continue
                        if sink == "subpath" and sub is None:
                            continue
                        if sink == "qualifiers" and nq == 0:
                            continue
                        got = sim.ev(region)
                        if got is None:
                            sink_results.setdefault((sink, False), []).append(pi)
                            continue
                        ok = True
                        if sink in want and want[sink] is not None:
                            ok = got == want[sink]
                        elif sink in ("namespace", "subpath"):
                            comp = sink
                            ok = all((t[0] == "C" and t[1] == comp) or (t[0] == "S" and t[2] == comp) for t in got) and [t for t in got if t[0] == "C"] == [("C", comp, i) for i in range(len([t for t in got if t[0] == "C"]))]
                            cls = ns if sink == "namespace" else sub
                            ok = ok and len([t for t in got if t[0] == "C"]) == {"one": 1, "two": 2, "insig": 0, "mixed": 2}[cls]
                        elif sink == "qualifiers":
                            # items: split at every '&' literal; inside an item the first '=' separates key and value
                            items = []
                            cur = []
                            bad = False
                            for t in got:
                                if t[0] == "L" and t[1] == m.item_sep:
                                    items.append(cur)
                                    cur = []
                                elif t[0] == "C" and (m.raw(t[1]) >> ord(m.item_sep)) & 1:
                                    sim.record("split", t[1], m.item_sep, False, "the qualifier loop splits items at %r, which may be a raw character inside the %s component (escape set %s)" % (m.item_sep, t[1], m.esc[t[1]][0]))
                                    bad = True
                                    cur.append(t)
                                else:
                                    cur.append(t)
                            items.append(cur)
                            ok = not bad and len(items) == nq
                            for i, it in enumerate(items):
                                shape = it == [("C", "qualifier-key", i), ("L", "="), ("C", "qualifier-value", i)]
                                ok = ok and shape
                                kvc = m.kv_split[1]
                                if m.kv_split[0] == "Split":
                                    if it and it[0][0] == "C":
                                        okk = not (m.raw(it[0][1]) >> ord(kvc)) & 1
                                        sim.record("split", it[0][1], kvc, okk, "the parser cuts key/value at the FIRST %r: the %s component (left of it) must not contain a raw %r" % (kvc, it[0][1], kvc))
                                else:
                                    if it and it[-1][0] == "C":
                                        okk = not (m.raw(it[-1][1]) >> ord(kvc)) & 1
                                        sim.record("split", it[-1][1], kvc, okk, "the parser cuts key/value at the LAST %r: the %s component (right of it) must not contain a raw %r, but the escape set %s leaves it raw" % (kvc, it[-1][1], kvc, m.esc[it[-1][1]][0]))
                        sink_results.setdefault((sink, ok), []).append(pi)
                    # guards of the parser on the emitted string: non-empty remainder before the type split
                    # (type is non-empty by TYPE-VALID), nothing to record.
    # ---------------------------------------------------------------- obligations
    for (kind, comp, c), (ok, detail, pis) in sorted(seen.items()):
        ctx.ob(rule, "%s %r vs %s" % (kind, c, comp), ok, fn=key_pm, site=m.esc[comp][2] if comp in m.esc else fn_site(facts, key_pm), detail="%s [%d presence vectors, e.g. %s]" % (detail, len(pis), pis[0]))
    for sink in m.regions:
        bad = sink_results.get((sink, False), [])
        good = sink_results.get((sink, True), [])
        ctx.ob(rule, "sink %s receives exactly its own component in every presence vector" % sink, not bad and bool(good), fn=key_pm, site=fn_site(facts, key_pm), detail="region %s; resolved in %d vectors, failed in %d%s" % (show_region(m.regions[sink]), len(good), len(bad), (" e.g. %s" % (bad[0],)) if bad else ""))
    # decode . encode = id : '%' is escaped everywhere, and '/' stays raw inside namespace and subpath
    for comp, (sname, bits, site) in sorted(m.esc.items()):
        ctx.ob(rule, "'%%' is escaped in %s (decode after encode is the identity)" % comp, (bits >> ord("%")) & 1, fn=key_fm, site=site, detail="set %s" % sname)
    for comp in ("namespace", "subpath"):
        sname, bits, site = m.esc[comp]
        ctx.ob(rule, "'/' stays raw inside %s (segments are joined, not merged)" % comp, not (bits >> ord("/")) & 1, fn=key_fm, site=site, detail="set %s" % sname)
    ctx.note("%s: %d presence vectors simulated (domain %s, up to %d qualifiers)" % (rule, npi, domain, nq_max))
    return m
