"""C01 -- canonical round trip: parse -> format -> parse is a fixpoint (DESIGN.md 5.1)."""
from purlsa.core import AnchorError
from purlsa import models
from .common import fn_site
from . import agree, C10, C03

LEVEL = "other"
EXPLANATION = (
    "Model-level static decision of the structural condition for parse -> format -> parse being a fixpoint: the extracted parser model (region terms of the "
    "MIR of from_str and its helpers) is evaluated on the symbolic output of the extracted formatter model (write sites of Display::fmt) for every presence "
    "vector of optional components over the canonical domain; every split must hit the literal the formatter wrote as the separator of exactly that sink and "
    "never a raw character inside a component (set-membership facts on the compiler-evaluated escape sets and the predicate alphabets); '%' is escaped "
    "everywhere (decode after encode is the identity); qualifiers are written in Vec order; every normaliser stage of build() is idempotent (C10's IDEMP "
    "rules), so the re-parse reproduces the value."
)
RULE_TEXT = "obligations = one per (split kind, separator char, component) resolution over all presence vectors; per sink: receives exactly its component; per escape set: '%' member; qualifier order; stage idempotence"
ASSUMPTIONS = [
    "callee semantics of the str splitting API, percent_decode_str and utf8_percent_encode (DESIGN.md section 3); value equality follows from the obligations only under them",
    "the canonical domain is what parser/build() can produce: valid lower-case type and keys, non-empty name/values, segment-normalised namespace/subpath (C04, C07, C11 obligations)",
]
TRUSTED_BASE = ["callee semantics table (DESIGN.md section 3)"]


def rule_agree(ctx):
    nq = 2 if ctx.tier == "quick" else 3
    m = agree.run_agree(ctx, "AGREE-C", "canonical", nq)
    # QORDER: the emitting loop iterates self.parts.qualifiers front to back (component_of raises on reverse iteration)
    facts = ctx.facts()
    loops = [e for e in m.fm["emits"] if e["loop"] is not None]
    ok = bool(loops) and len(set(e["loop"] for e in loops)) == 1
    ctx.ob("QORDER", "Display writes the qualifiers in Vec order (forward iteration over self.parts.qualifiers, no reordering)", ok, fn=m.fm["key"], site=loops[0]["site"] if loops else "", detail="checked while classifying the loop items of the formatter model")
    body = m.fm["body"]
    sorts = [t["callee"].get("path") for _, t in body.calls() if any(x in t["callee"].get("path", "") for x in ("sort", "rev", "reverse"))]
    ctx.ob("QORDER", "no sort/reverse call in Display::fmt", not sorts, fn=m.fm["key"], detail=str(sorts))


def rule_canon(ctx):
    # the second build() (inside the re-parse) must be the identity on a value produced by the first
    # only the parsable instantiations matter here: String, SmallString (and PackageType, via the finish rules)
    C10.rule_idemp(ctx, shapes=("std::string::String", "smartstring::SmartString<"))


RULES = [
    ("AGREE-C", rule_agree, 10),
    ("QORDER", lambda ctx: None, 2),
    ("IDEMP", rule_canon, 3),
]

MANIFEST = {
    "text": "Model-level static decision: the parser model run on the symbolic output of the formatter model resolves every split at the formatter's own separator for all presence vectors (canonical domain), '%' is escaped in every set, qualifiers are written in order, and build()'s stages are idempotent - the structural necessary-and-(under the callee semantics)-sufficient condition for the round trip being a fixpoint, for every input string and every instantiation (one generic body).",
    "note": "Trusted: rustc MIR/const-eval, extractor, callee semantics of splitting, percent-decoding and percent-encoding. Value equality itself is not executed or decided; lengths are irrelevant to the rule.",
    "technique": "agreement simulation: evaluation of extracted parser region terms over the extracted formatter's token strings, discharged by escape-set membership facts; stage idempotence",
    "design_ref": "DESIGN.md 5.1 / 4.5",
}
