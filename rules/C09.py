"""C09 -- builder is faithful and serialisation loses nothing (DESIGN.md 5.9)."""
from purlsa.core import AnchorError, callee_name
from purlsa.sem import norm, nshow
from purlsa import models, paths
from purlsa.models import show_canon
from .common import fn_site
from . import agree, faults, C08

LEVEL = "other"
EXPLANATION = (
    "Static decision in three parts. EFFECT: every builder setter's per-path effects are extracted from MIR and compared with the reference table: each "
    "writes exactly one field (or calls exactly one qualifier-map operation) with the argument converted by SmallString::from / Default, reads nothing else and "
    "returns self - disjoint single-field write sets without reads give 'last call per field wins' and 'calls on different fields commute'. BUILD-SUCCESS: the "
    "rejection list reachable from build() is exactly {invalid type, empty name, malformed checksum} (+ the type's own rule), with_qualifier's only refusal is an "
    "invalid key. AGREE-B: the agreement simulation of C01 over the BUILDER domain (arbitrary component strings, namespace/subpath with insignificant segments), "
    "including acceptance invariance: every guard that build()/finish evaluate on a field the parser normalises must evaluate identically on the built value and on "
    "the re-parsed one."
)
RULE_TEXT = "obligations = per setter: effect row; per build/with_qualifier rejection row: documented; agreement obligations over the builder domain; per guard on a parser-normalised field: invariance over the value classes {empty, only insignificant segments, has a significant segment}"
ASSUMPTIONS = [
    "arbitrary interleavings of setter calls are covered by the effect argument (disjoint write sets, no reads), not enumerated",
    "direct edits of the public `parts` are covered only in so far as build() re-validates (C04 BM-ORDER)",
    "callee semantics of SmallString::from (value-preserving), Vec / qualifier-map operations as in C11",
]
TRUSTED_BASE = ["callee semantics table (DESIGN.md section 3)"]

R_EFFECT = {
    "with_package_type": ("store", "package_type", "arg"),
    "with_namespace": ("store", "parts.namespace", "conv-arg"),
    "without_namespace": ("store", "parts.namespace", "default"),
    "with_name": ("store", "parts.name", "conv-arg"),
    "with_version": ("store", "parts.version", "conv-arg"),
    "without_version": ("store", "parts.version", "default"),
    "with_subpath": ("store", "parts.subpath", "conv-arg"),
    "without_subpath": ("store", "parts.subpath", "default"),
    "with_qualifier": ("call", "parts.qualifiers", ("insert",)),
    "with_typed_qualifier": ("call", "parts.qualifiers", ("insert_typed", "remove_typed")),
    "try_with_typed_qualifier": ("call", "parts.qualifiers", ("try_insert_typed", "remove_typed")),
    "without_qualifier": ("call", "parts.qualifiers", ("remove",)),
    "without_qualifiers": ("call", "parts.qualifiers", ("clear",)),
}


def setter_keys(facts):
    out = {}
    for k, f in facts.fns.items():
        if f.get("impl_self", "").startswith("builder::GenericPurlBuilder<") and "impl_trait" not in f:
            out[f["name"]] = k
    return out


def rule_effect(ctx):
    facts = ctx.facts()
    ks = setter_keys(facts)
    for nm, want in R_EFFECT.items():
        k = ks.get(nm)
        if not k:
            ctx.ob("EFFECT", "setter %s exists" % nm, False, detail="not found")
            continue
        site = fn_site(facts, k)
        outs = paths.outcomes(facts, k)
        ok = True
        det = []
        for o in outs:
            effs = [e for e in o["effects"] if not (e[0] == "call" and (e[1].endswith("deref_mut")))]
            r = o["ret"]
            rv = r[1] if r[0] in ("ok", "other") else None
            returns_self = rv == ("arg", 1) or r[0] == "propagate" or (r[0] == "err" and r[1][0] == "err" and r[1][1][0] == "call")
            if want[0] == "store":
                good = len(effs) == 1 and effs[0][0] == "store" and models.field_path(effs[0][1]) == want[1]
                if good:
                    v = effs[0][2]
                    if want[2] == "conv-arg":
                        good = v[0] == "conv" and v[1] == ("arg", 2) or v == ("arg", 2)
                    elif want[2] == "arg":
                        good = v == ("arg", 2)
                    else:
                        # Default::default() of the small string, or the conversion of the empty literal: the empty string
                        good = (v[0] == "call" and v[1].endswith("Default>::default") and not v[2]) or (v[0] == "conv" and v[1] == ("const", "")) or v == ("const", "") \
                            or (v[0] == "call" and not v[2] and v[1] in ("smartstring::SmartString::<Mode>::new", "std::string::String::new"))
                det.append("store %s <- %s" % (models.field_path(effs[0][1]) if effs and effs[0][0] == "store" else "?", nshow(effs[0][2])[:60] if effs and effs[0][0] == "store" else [e[1] for e in effs]))
            else:
                good = len(effs) == 1 and effs[0][0] == "call" and effs[0][2] == ("arg", 1, want[1]) and effs[0][1].split("::")[-1] in want[2] and effs[0][1].startswith("qualifiers::Qualifiers::")
                det.append("call %s on %s" % (effs[0][1].split("::")[-1] if effs and effs[0][0] == "call" else "?", effs[0][2] if effs else None))
            # no other call reads self
            reads = [c for c in o["calls"] if any(a == ("arg", 1) or (a[0] == "field" and (models.field_path(a) or "x") and models.field_path(a) is not None and models.field_path(a) != want[1]) for a in c[1])]
            ok = ok and good and returns_self and not reads
        ctx.ob("EFFECT", "%s: writes exactly %s (%s), reads nothing else, returns self" % (nm, want[1], want[2] if isinstance(want[2], str) else "/".join(want[2])), ok and bool(outs), fn=k, site=site, detail="; ".join(det)[:300])
    # new(): package_type and name set, everything else default
    k = ks.get("new")
    if not k:
        raise AnchorError("GenericPurlBuilder::new not found")
    t = norm(facts.body(k).resolve_local(0), keep_conv=True)
    ok = False
    if t[0] == "agg" and t[1][1] == "builder::GenericPurlBuilder" and t[2][0] == ("arg", 1):
        pp = t[2][1]
        if pp[0] == "agg" and pp[1][1] == "PurlParts":
            fields = dict(zip(pp[1][3], pp[2]))
            ok = fields.get("name") in (("conv", ("arg", 2)), ("arg", 2)) and all("default" in nshow(v).lower() for f_, v in fields.items() if f_ != "name")
    ctx.ob("EFFECT", "new(type, name): package_type = type, parts.name = SmallString::from(name), every other part default", ok, fn=k, site=fn_site(facts, k), detail=nshow(t)[:240])
    extra = sorted(set(ks) - set(R_EFFECT) - {"new", "build"})
    # a method that is not in the table is fine if it is *composed* of the documented ones: it touches self only by calling
    # them (so it is a call sequence the property already quantifies over); anything else is an undocumented setter
    documented = set(ks[n_] for n_ in R_EFFECT if n_ in ks)
    undocumented = []
    for nm in extra:
        k = ks[nm]
        b = facts.body(k)
        bad = []
        if [w for w in b.partial_writes(1) if not b.is_cleanup(w[0])]:
            bad.append("direct store into self")
        for e in models.mut_effects(b):
            if e["target"][0] == "arg" and e["target"][1] == 1 and e["path"] not in documented:
                bad.append("mutable access %s" % e["path"])
        for bb, t in b.calls():
            pth = callee_name(t["callee"]) if "path" in t["callee"] else "<indirect>"
            if pth in documented or models.is_plumbing(pth):
                continue
            for a in t["args"]:
                ta = nshow(norm(b.resolve_operand(a)))
                if ta == "arg1" or ta.startswith("arg1.") or "(arg1" in ta or " arg1" in ta:
                    bad.append("self passed to %s" % pth)
        if bad:
            undocumented.append((nm, sorted(set(bad))[:3]))
        else:
            ctx.ob("EFFECT", "%s (not in the table) only calls documented setters" % nm, True, fn=k, site=fn_site(facts, k), detail="composition of documented setters")
    ctx.ob("EFFECT", "no undocumented setter on GenericPurlBuilder", not undocumented, detail=str(undocumented))
    adt = facts.adts.get("builder::GenericPurlBuilder")
    ctx.ob("EFFECT", "the builder has exactly the fields package_type and parts", adt is not None and [f["name"] for f in adt["variants"][0]["fields"]] == ["package_type", "parts"], detail="")
    pp = facts.adts.get("PurlParts")
    ctx.ob("EFFECT", "PurlParts = {namespace, name, version, qualifiers, subpath}", pp is not None and [f["name"] for f in pp["variants"][0]["fields"]] == ["namespace", "name", "version", "qualifiers", "subpath"], detail="")


def rule_build_success(ctx):
    facts = ctx.facts()
    pm = models.parser_model(facts)
    rl = faults.roles(facts, pm)
    matched, missing, extra = faults.match_rows(facts, pm, rl, ["build", "insert", "keycheck", "checksum-parse", "checksum-serialize"])
    for (role, ref, desc, site, key) in matched:
        ctx.ob("BUILD-SUCCESS", "%s refuses only for a documented reason: %s" % (role, ref), True, fn=key, site=site, detail=desc)
    for (role, desc, site, key) in extra:
        ctx.ob("BUILD-SUCCESS", "%s: undocumented refusal %s" % (role, desc), False, fn=key, site=site, detail="build() must succeed exactly when name, type, keys and checksum are fine")
    for (role, ref, _, key) in missing:
        ctx.ob("BUILD-SUCCESS", "%s: documented refusal is present: %s" % (role, ref), False, fn=key, site=fn_site(facts, key), detail="")
    ks = setter_keys(facts)
    k = ks.get("with_qualifier")
    rows = [r for r in models.rejections(facts, k) if r["kind"] not in ("ok",)]
    ok = len(rows) == 1 and rows[0]["kind"] == "propagate" and rows[0]["callee"] == rl.get("insert")
    ctx.ob("BUILD-SUCCESS", "with_qualifier's only refusal is the key check of Qualifiers::insert", ok, fn=k, site=fn_site(facts, k), detail="; ".join(faults.describe_row(r) for r in rows))


def ns_class_eval(atom):
    """Truth of a guard atom on the namespace value classes E (empty), I (only '/'), S (has a significant segment)."""
    if atom[0] == "empty":
        subj = atom[1]
        if subj[0] == "Field":
            return {"E": True, "I": False, "S": False}
        if subj[0] == "Trim" and subj[1] == "/":
            return {"E": True, "I": True, "S": False}
        if subj[0] == "TrimStart" and subj[1] == "/" or subj[0] == "TrimEnd" and subj[1] == "/":
            return {"E": True, "I": True, "S": False}
    return None


def rule_agree_b(ctx):
    nq = 2 if ctx.tier == "quick" else 3
    m = agree.run_agree(ctx, "AGREE-B", "builder", nq)
    facts = ctx.facts()
    # the simulation treats the type as one token that is written raw and found again by splitting at the first '/':
    # true only if the type predicate admits no separator and nothing that needs escaping
    from .common import raw_type_alphabet_obligation
    raw_type_alphabet_obligation(ctx, facts, "AGREE-B")
    # ---- acceptance invariance: guards on fields the parser normalises (namespace, subpath)
    normalised = [fld for fld, sinks in m.pm["sinks"].items() if any(s["via"] and not s["decoded"] for s in sinks)]
    ctx.ob("AGREE-B", "fields normalised by the parser (segment decoders): namespace, subpath", sorted(normalised) == ["namespace", "subpath"], fn=m.pm["key"], detail=str(normalised))
    reparse = {"E": "E", "I": "E", "S": "S"}
    checked = 0
    bodies = [models.build_fn(facts)]
    if "package_type::PackageType" in facts.adts:
        bodies.append(C08.finish_key(facts))
    for k in bodies:
        for o in paths.outcomes(facts, k):
            for a in o["atoms"]:
                sa = show_canon(a)
                for fld in normalised:
                    if ".%s" % fld in sa:
                        checked += 1
                        ev = ns_class_eval(a) if fld == "namespace" else None
                        if ev is None:
                            ctx.ob("AGREE-B", "acceptance: guard %s on the parser-normalised field %s is understood" % (sa[:80], fld), False, fn=k, site=fn_site(facts, k), detail="a guard on a field that emit-then-parse normalises must be evaluated on the normalised value")
                            continue
                        bad = [c for c in ("E", "I", "S") if ev[c] != ev[reparse[c]]]
                        names = {"E": "empty", "I": "only insignificant segments (e.g. \"/\")", "S": "has a significant segment"}
                        ctx.ob("AGREE-B", "acceptance: guard on parts.%s evaluates identically on the built value and on the re-parsed value" % fld, not bad, fn=k, site=fn_site(facts, k), detail="%s ; differs on class: %s" % (sa[:100], [names[c] for c in bad]))
    ctx.ob("AGREE-B", "acceptance: guards on parser-normalised fields inspected", checked >= 1 or "package_type::PackageType" not in facts.adts, detail="%d guard atoms" % checked, nontrivial=False)


def rule_canon(ctx):
    """The re-parse runs build() (and the type's finish) again on the values the first build produced: the accessors of the
    re-parsed PURL equal those of the built one only if every normaliser stage is idempotent (C10's IDEMP rules)."""
    from . import C10
    C10.rule_idemp(ctx)


def rule_build_frame(ctx):
    """'On success the accessors return what was last set for each field': build() may change the stored fields only through
    the documented normalisers."""
    from .common import build_frame_obligations
    build_frame_obligations(ctx, "BUILD-FRAME")


def rule_qm(ctx):
    """'later calls override earlier ones', 'accessors return what was last set' for qualifiers rest on the qualifier map's
    representation invariant (C11)."""
    from . import C11
    C11.invariant_obligations(ctx, ctx.facts(), rule="QM-INV")


RULES = [
    ("QM-INV", rule_qm, 40),
    ("IDEMP", rule_canon, 3),
    ("EFFECT", rule_effect, 10),
    ("BUILD-SUCCESS", rule_build_success, 6),
    ("BUILD-FRAME", rule_build_frame, 4),
    ("AGREE-B", rule_agree_b, 13),
]

MANIFEST = {
    "text": "Static decision: per-path effect table of all builder setters (one field each, argument stored via SmallString::from/Default, no reads, self returned) - hence override and commutation for every call sequence; build()'s rejection list is exactly the documented one; and the agreement simulation over the builder domain, including invariance of every guard evaluated on a field that emit-then-parse normalises (namespace, subpath) over the value classes {empty, only insignificant segments, significant}. The simulation's raw type token is justified by the computed type alphabet (no separator, nothing that needs escaping).",
    "note": "Trusted: rustc MIR, extractor, callee semantics (SmallString::from preserves the text; splitting/encoding as in C01). Interleavings are covered by the effect argument, not enumerated; direct edits of `parts` only via build()'s re-validation.",
    "technique": "effect (write-set) summaries per setter vs. reference table; rejection-list completeness; agreement simulation with acceptance invariance over abstract value classes",
    "design_ref": "DESIGN.md 5.9",
}
