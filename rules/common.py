"""Shared helpers and reference tables for the rule packs."""
import os
import sys

from purlsa.core import AnchorError, callee_name, strip, show
from purlsa.sem import norm, nshow, show_atom
from purlsa import boolsum, models


def ch(c):
    return chr(c) if 0x21 <= c < 0x7F else "0x%02X" % c


def bitset(chars):
    v = 0
    for c in chars:
        v |= 1 << (ord(c) if isinstance(c, str) else c)
    return v


def bits_list(v, limit=128):
    return [c for c in range(limit) if (v >> c) & 1]


# ------------------------------------------------------------------ R-ESCSET
# Transcribed from property C03's statement:
#  "every byte that is a control character, DEL, space, non-ASCII, '"', '<', '>', '%', '@', '?' or '#'
#   - and additionally '`', '{', '}' in namespace, name and version, '/' in the name,
#   '+' and '&' in qualifier values, '`' in the subpath - is written as %XX ... and no other character is escaped"
COMMON = bitset(range(0x20)) | bitset([0x7F]) | bitset(' "<>%@?#')
R_ESCSET = {
    "namespace": COMMON | bitset("`{}"),
    "version": COMMON | bitset("`{}"),
    "name": COMMON | bitset("`{}") | bitset("/"),
    "qualifier-value": COMMON | bitset("+&"),
    "subpath": COMMON | bitset("`"),
}

VALID_TYPE_SET = bitset("abcdefghijklmnopqrstuvwxyzABCDEFGHIJKLMNOPQRSTUVWXYZ0123456789.+-")
VALID_KEY_SET = bitset("abcdefghijklmnopqrstuvwxyzABCDEFGHIJKLMNOPQRSTUVWXYZ0123456789.-_")


def fn_site(facts, key):
    f = facts.fns.get(key)
    if f and f.get("span"):
        return "%s:%s" % (f["span"]["file"], f["span"]["line"])
    b = facts.bodies.get(key)
    if b:
        return "%s:%s" % (b.file(), (b.j.get("span") or {}).get("line"))
    return ""


def accessor_component(facts, key):
    """Map an accessor fn key to the PURL component it returns, by the field it reads."""
    s = models.accessor_summary(facts, key)
    fp = models.field_path(s["field"]) if s["field"] is not None else None
    return s, fp


def build_direct_writes(body):
    """Direct stores into fields of self in build(): [(bb, field path)] -- through `self.parts.x = ..` or, after
    `let Self { package_type, parts } = self;`, through the locals that continue those fields."""
    roots = {1: ""}
    for l, fp in models.self_field_locals(body).items():
        roots[l] = fp
    out = []
    for l, base in roots.items():
        for w in body.partial_writes(l):
            if body.is_cleanup(w[0]):
                continue
            pl = w[2]["place"] if w[1] != "term" else w[2]["dest"]
            names = [pr["name"] for pr in pl["proj"] if pr["p"] == "field"]
            out.append((w[0], ".".join(([base] if base else []) + names)))
    return out


def build_frame_obligations(ctx, rule):
    """build() changes the parts only through: the type's finish hook, qualifiers.retain (empty values) and
    qualifiers.insert (canonical checksum); and returns exactly those parts.  Necessary for 'what was set / what was
    written is what the accessors return'."""
    facts = ctx.facts()
    bm = models.builder_model(facts)
    key, body, st = bm["key"], bm["body"], bm["stages"]
    if len(st["S1"]) != 1 or len(st["S3"]) != 1 or len(st["S4ins"]) != 1 or len(st["S5"]) != 1:
        raise AnchorError("build(): stages not unique (finish %d, retain %d, insert %d, Ok %d)" % (len(st["S1"]), len(st["S3"]), len(st["S4ins"]), len(st["S5"])), key)
    allowed = {st["S1"][0]["bb"], st["S3"][0]["bb"], st["S4ins"][0]["bb"]}
    extra = [e for e in bm["effects"] if e["bb"] not in allowed and e["target"][0] == "arg"]
    ctx.ob(rule, "build(): mutable access to the parts only by finish, qualifiers.retain, qualifiers.insert(checksum)", not extra, fn=key, site=extra[0]["site"] if extra else fn_site(facts, key), detail="; ".join("%s on %s" % (e["path"], e["target"][2]) for e in extra))
    ok3 = st["S3"][0]["target"] == ("arg", 1, "parts.qualifiers") and st["S4ins"][0]["target"] == ("arg", 1, "parts.qualifiers")
    ctx.ob(rule, "build(): retain and insert act on parts.qualifiers", ok3, fn=key, site=st["S3"][0]["site"], detail="%s / %s" % (st["S3"][0]["target"], st["S4ins"][0]["target"]))
    dw = build_direct_writes(body)
    ctx.ob(rule, "build(): no direct store into a field of the parts or the type", not dw, fn=key, site=body.site(dw[0][0]) if dw else fn_site(facts, key), detail="stores: %s" % [f for _, f in dw])
    pay = st["S5"][0]["payload"]
    okp = pay[0] == "agg" and [models.field_path(x) for x in pay[2]] == ["package_type", "parts"]
    ctx.ob(rule, "build(): the result is made of exactly self.package_type and self.parts", okp, fn=key, site=st["S5"][0]["site"], detail=nshow(pay)[:160])


STATIC_ANCHORS = ("is_valid_package_type", "copy_as_lowercase", "lowercase_in_place", "str_preview_mut", "changes_when_lowercased")


def anchor_fns(facts):
    """Functions the rules identify by role on the program as written; they stay calls in the inlined normal form."""
    out = set(k for k in STATIC_ANCHORS if k in facts.bodies)
    for k, f in facts.fns.items():
        if f.get("name") in ("search", "get_index") and f.get("impl_self", "").startswith("qualifiers::Qualifiers"):
            out.add(k)
        if f.get("name") == "into_key" and f.get("impl_self", "").startswith("qualifiers::"):
            out.add(k)
    try:
        from . import faults
        try:
            pm = models.parser_model(facts)
            rl = faults.roles(facts, pm)
        except AnchorError:
            # the parser's body is not readable as written (moved wholesale into a private helper, say): the roles it
            # hands out -- which local fn decodes the subpath, the namespace, the qualifiers -- are read off a provisional
            # normal form in which only loop-free private helpers are inlined (the decoders loop or are the strict
            # decoder, so they stay calls there), and are the same functions in the program as written
            from purlsa import inline as _inline
            prov = set(out)
            prov.update(k for k, b in facts.j["bodies"].items() if b["kind"] == "fn" and _inline._has_loop(b))
            prov.update(k for k in facts.bodies if models.decoder_role(facts, k))
            f1, _rep = _inline.inlined_facts(facts, prov)
            if not f1:
                raise
            pm = models.parser_model(f1)
            # (the parser-independent roles -- entry, insert, key check, hooks -- are read off the program as written)
            rl = {k: v for k, v in faults.roles(facts, pm).items() if v in facts.bodies}
        out.update(v for v in rl.values() if v)
        # the key predicate: the local predicate the key check refuses on
        if rl.get("keycheck"):
            for row in models.rejections(facts, rl["keycheck"]):
                for t in row.get("triggers", []) + row.get("catoms", []):
                    if t[0] == "pred" and t[1] in facts.bodies:
                        out.add(t[1])
    except Exception:
        pass
    for k, f in facts.fns.items():
        if f.get("name") in ("is_valid_qualifier_name",):
            out.add(k)
    try:
        from . import C08
        fk = C08.finish_key(facts)
        out.add(fk)
        out.update(C08.helper_roles(facts, fk).values())
        # whatever the hook hands `&mut parts.name` to is a name normaliser, also when the dispatch on the type goes
        # through a helper (`match name_rule(self) { .. }`) and the per-variant roles only show after inlining that
        from purlsa import paths as _paths
        for o in _paths.outcomes(facts, fk):
            for e in o["effects"]:
                if e[0] == "call" and e[2] == ("arg", 2, "name") and e[1] in facts.bodies:
                    out.add(e[1])
    except Exception:
        pass
    try:
        from . import C12
        out.update(C12.roles(facts).values())
    except Exception:
        pass
    return out


class ScopedCtx:
    """ctx proxy that drops obligations located in functions outside `scope` (a set of fn keys): used where a property only
    depends on the part of an invariant that the code it speaks about can reach"""

    def __init__(self, ctx, scope):
        self._ctx = ctx
        self._scope = scope

    def __getattr__(self, name):
        return getattr(self._ctx, name)

    def ob(self, rule, instance, ok, fn="", site="", detail="", nontrivial=True):
        if fn and fn in self._ctx.facts().bodies and fn not in self._scope:
            return True
        return self._ctx.ob(rule, instance, ok, fn=fn, site=site, detail=detail, nontrivial=nontrivial)


def parser_scope(facts):
    """every function the parser (from_str, and build() which it ends in) can reach"""
    roots = [models.from_str_fn(facts), models.build_fn(facts)]
    sc = set(facts.reachable_bodies(roots))
    for k in list(sc):
        sc.update(facts.closures_of(k))
    return sc


def type_alphabet_obligation(ctx, facts, rule):
    """the one syntactic type predicate of the crate accepts exactly [0-9A-Za-z.+-]+ (the set the properties name)"""
    from purlsa import boolsum
    summ = boolsum.Summarizer(facts)
    c = boolsum.strpred_canon(summ.summary("is_valid_package_type"), facts)
    ctx.ob(rule, "valid_type = [0-9A-Za-z.+-]+", c["nonempty"] and c["all"] == VALID_TYPE_SET and not c["other"], fn="is_valid_package_type", site=fn_site(facts, "is_valid_package_type"), detail="all={%s}" % boolsum.set_to_ranges(c["all"] or 0))


def raw_type_alphabet_obligation(ctx, facts, rule):
    """the type is written raw by Display and re-read by splitting: what the type predicate admits must be ASCII that needs
    no escaping and is no separator -- nothing from the name component's escape set (controls, space, '"<>%@?#`{}/',
    DEL) and nothing non-ASCII.  (Which raw-safe characters are admitted beyond that is C02's / C04's business.)"""
    from purlsa import boolsum
    summ = boolsum.Summarizer(facts)
    c_ = boolsum.strpred_canon(summ.summary("is_valid_package_type"), facts)
    unsafe = R_ESCSET["name"] | (boolsum.universe() & ~((1 << 128) - 1))
    extra = (c_["all"] or 0) & unsafe
    ctx.ob(rule, "every character valid_type admits can be written raw (no separator, nothing that needs escaping, ASCII only)", c_["all"] is not None and not extra and not c_["other"], fn="is_valid_package_type", site=fn_site(facts, "is_valid_package_type"), detail="admitted although unsafe: {%s}" % boolsum.set_to_ranges(extra))
