"""Shared helpers and reference tables for the rule packs."""
import os
import sys

from purlsa.core import AnchorError, callee_name, strip, show
from purlsa.sem import norm, nshow, show_atom
from purlsa import boolsum, models


def ch(c):
    return chr(c) if 0x21 <= c < 0x7F else "0x%02X" % c


def bitset(chars):
    v = 0
    for c in chars:
        v |= 1 << (ord(c) if isinstance(c, str) else c)
    return v


def bits_list(v, limit=128):
    return [c for c in range(limit) if (v >> c) & 1]


# ------------------------------------------------------------------ R-ESCSET
# Transcribed from property C03's statement:
#  "every byte that is a control character, DEL, space, non-ASCII, '"', '<', '>', '%', '@', '?' or '#'
#   - and additionally '`', '{', '}' in namespace, name and version, '/' in the name,
#   '+' and '&' in qualifier values, '`' in the subpath - is written as %XX ... and no other character is escaped"
COMMON = bitset(range(0x20)) | bitset([0x7F]) | bitset(' "<>%@?#')
R_ESCSET = {
    "namespace": COMMON | bitset("`{}"),
    "version": COMMON | bitset("`{}"),
    "name": COMMON | bitset("`{}") | bitset("/"),
    "qualifier-value": COMMON | bitset("+&"),
    "subpath": COMMON | bitset("`"),
}

VALID_TYPE_SET = bitset("abcdefghijklmnopqrstuvwxyzABCDEFGHIJKLMNOPQRSTUVWXYZ0123456789.+-")
VALID_KEY_SET = bitset("abcdefghijklmnopqrstuvwxyzABCDEFGHIJKLMNOPQRSTUVWXYZ0123456789.-_")


def fn_site(facts, key):
    f = facts.fns.get(key)
    if f and f.get("span"):
        return "%s:%s" % (f["span"]["file"], f["span"]["line"])
    b = facts.bodies.get(key)
    if b:
        return "%s:%s" % (b.file(), (b.j.get("span") or {}).get("line"))
    return ""


def accessor_component(facts, key):
    """Map an accessor fn key to the PURL component it returns, by the field it reads."""
    s = models.accessor_summary(facts, key)
    fp = models.field_path(s["field"]) if s["field"] is not None else None
    return s, fp
