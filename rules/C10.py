"""C10 -- re-building an existing PURL is the identity (DESIGN.md 5.10)."""
from purlsa.core import AnchorError
from purlsa.sem import norm, nshow
from purlsa import models, boolsum, paths
from .common import fn_site, VALID_TYPE_SET
from . import C08, C12, C13, lowercase

LEVEL = "other"
EXPLANATION = (
    "Static decision in two parts. MOVE: into_builder contains no call and its result aggregate's two fields are the moved fields of self. IDEMP: every "
    "normaliser stage that build() re-runs is idempotent ON ITS EXTRACTED MODEL: ASCII lower-casing of the type (table fact, and the valid-type alphabet is "
    "closed under it); the name test is effect-free; retain filters by a predicate of the element alone; the checksum text is a fixpoint of parse-then-serialise "
    "(separator agreement, sorted distinct keys, lower-case provenance, lower(lower(c)) = lower(c), ASCII-lower-cased hex); the pypi transducer composed with "
    "itself on the class alphabet {dash, other} is itself (its output has single '-' between non-dash chars and no lower-case mapping contains a dash char); "
    "nuget is lower-casing; the other types write nothing. Later stages do not invalidate earlier post-conditions."
)
RULE_TEXT = "obligations = MOVE shape; one or more per normaliser stage (model-level N(N(x)) = N(x) facts over tables, char classes and Unicode data); non-interference facts"
ASSUMPTIONS = [
    "value equality of the rebuilt PURL follows from stage idempotence only under the callee semantics table",
    "Unicode facts from python's unicodedata (Unicode 14): lower(lower(c)) = lower(c) for every scalar value; no lower-case mapping contains '-', '_' or '.'",
]
TRUSTED_BASE = ["callee semantics table (DESIGN.md section 3)", "Unicode data tables"]


def rule_move(ctx):
    facts = ctx.facts()
    ks = [k for k, f in facts.fns.items() if f.get("name") == "into_builder" and f.get("impl_self", "").startswith("GenericPurl<")]
    if len(ks) != 1:
        raise AnchorError("GenericPurl::into_builder not found")
    b = facts.body(ks[0])
    ncalls = len(list(b.calls()))
    t = norm(b.resolve_local(0))
    ok = t[0] == "agg" and t[1][0] == "adt" and t[1][1] == "builder::GenericPurlBuilder" and t[1][3] == ("package_type", "parts") and [models.field_path(x) for x in t[2]] == ["package_type", "parts"]
    ctx.ob("MOVE", "into_builder = GenericPurlBuilder { package_type: self.package_type, parts: self.parts }", ok, fn=ks[0], site=fn_site(facts, ks[0]), detail=nshow(t))
    ctx.ob("MOVE", "into_builder contains no call (nothing is recomputed or reset)", ncalls == 0 and not b.back_edges(), fn=ks[0], site=fn_site(facts, ks[0]), detail="%d calls" % ncalls)
    ctx.ob("MOVE", "into_builder consumes self", facts.fns[ks[0]]["inputs"][0].startswith("GenericPurl<"), fn=ks[0], detail=str(facts.fns[ks[0]]["inputs"]))


def rule_idemp(ctx, shapes=None, finish_only=False):
    facts = ctx.facts()
    bm = models.builder_model(facts)
    bk = bm["key"]
    st = bm["stages"]
    if finish_only:
        # only what a re-build does to namespace and name of a typed PURL: the type's finish rules and the stages' frame
        return _idemp_finish(ctx, facts, bm, bk, with_checksum_lower=False)
    # --- type lower-casing (string shapes)
    AZ = sum(1 << c for c in range(65, 91))
    lowered = (VALID_TYPE_SET & ~AZ) | sum(1 << (c + 32) for c in range(65, 91) if (VALID_TYPE_SET >> c) & 1)
    ctx.ob("IDEMP", "type: the valid-type alphabet is closed under ASCII lower-casing (a lower-cased valid type is valid)", lowered & ~VALID_TYPE_SET == 0, detail="computed from the alphabet of is_valid_package_type")
    ctx.note("type: ASCII lower-casing is idempotent ([A-Z] -> [a-z], every other char fixed): table fact of the callee semantics")
    C13.idempotence_obligations(ctx, facts, rule="IDEMP-SHAPES", only=shapes)
    # --- S2
    ok = len(st["S2"]) == 1 and st["S2"][0]["triggers"] == [("empty", ("Field", "arg1.parts.name"), True)]
    ctx.ob("IDEMP", "S2 (name test) is a pure test: it writes nothing", ok, fn=bk, site=fn_site(facts, bk), detail="")
    # --- S3
    if len(st["S3"]) != 1:
        raise AnchorError("retain stage not unique", bk)
    clo = st["S3"][0]["args"][1]
    summ = boolsum.Summarizer(facts)
    f = summ.summary(clo[1])
    okf = f[0] == "not" and f[1][0] == "p" and f[1][1].endswith("is_empty") and norm(f[1][2][0]) == ("arg", 3)
    ctx.ob("IDEMP", "S3 (retain) filters by a predicate of the element's own value: filtering twice = filtering once", okf and not facts.body(clo[1]).partial_writes(1), fn=clo[1], detail=boolsum.show_formula(f))
    # --- S4 checksum: fixpoint of parse . serialise on the canonical text
    C12.serializer_obligations(ctx, facts, rule="IDEMP-CHECKSUM", scope="parsed")
    C12.rule_agree_parser(ctx)  # separator agreement parser <-> serialiser (rule name AGREE-K)
    _idemp_finish(ctx, facts, bm, bk, with_checksum_lower=True)


def _idemp_finish(ctx, facts, bm, bk, with_checksum_lower):
    ok_low = True
    n = 0
    for c in range(0x110000):
        if 0xD800 <= c <= 0xDFFF:
            continue
        lo = chr(c).lower()
        if lo != chr(c):
            n += 1
            if lo.lower() != lo:
                ok_low = False
    ctx.ob("IDEMP", "lower(lower(c)) = lower(c) for every Unicode scalar value", ok_low, detail="%d chars with a non-trivial lower-case mapping" % n)
    if with_checksum_lower:
        rl = C12.roles(facts)
        lowercase.guardxform_obligations(ctx, facts, rl["lower"], rule="IDEMP-LOWER")
    ctx.note("checksum: to_ascii_lowercase on hex digits is idempotent; S4 always produces a non-empty value (>= 1 entry, each containing ':' -- see AGREE-K / HEX-GUARD obligations), so it cannot re-enable S3")
    # --- finish rules
    fk = C08.finish_key(facts)
    helpers = C08.helper_roles(facts, fk)
    # idempotence of the EXTRACTED transducer (not equality with C08's reference: a different but idempotent rule keeps C10)
    fst = lowercase.fst_generic(facts, helpers["PyPI"])
    ok, det = lowercase.transducer_idempotent(fst)
    ctx.ob("IDEMP-PYPI", "pypi: the extracted loop transducer is the identity on its own range (T(T(x)) = T(x))", ok, fn=helpers["PyPI"], site=fn_site(facts, helpers["PyPI"]), detail=det)
    ctx.ob("IDEMP-PYPI", "pypi: transducer has transitions for every (class, flag) pair", len(fst["trans"]) >= 2, fn=helpers["PyPI"], detail="%d transitions, states %s" % (len(fst["trans"]), sorted(fst["states"])))
    # the fast path (no dash char in the name) is the nuget normaliser; on the range of either branch it must be the identity:
    # every const symbol must be a lower-case fixed point
    lc = boolsum.set_of("lower_changes")
    consts = [o[1] for (cs, pre, outs, nxt) in fst["trans"] for o in outs if o[0] == "const"]
    ctx.ob("IDEMP-PYPI", "pypi: the characters inserted by the transducer are lower-case fixed points (so the lower-casing branch leaves them alone)", all(not (lc >> c) & 1 for c in consts), fn=helpers["PyPI"], detail=str([chr(c) for c in consts]))
    body = facts.body(helpers["PyPI"])
    fast = [bb for bb, t in body.calls() if models.callee_name(t["callee"]) == helpers["NuGet"]]
    ctx.ob("IDEMP-PYPI", "pypi: the other branch is the (idempotent) lower-caser", len(fast) == 1, fn=helpers["PyPI"], detail="")
    lowercase.guardxform_obligations(ctx, facts, helpers["NuGet"], rule="IDEMP-LOWER")
    ctx.note("nuget: the normaliser is char-wise to_lowercase (IDEMP-LOWER obligations), idempotent by the Unicode fact above")
    # others write nothing
    C08.rule_frame(ctx)
    # --- non-interference
    eff_after = [e for e in bm["effects"] if e["target"][0] == "arg" and e["target"][2].startswith("parts.name")]
    ctx.ob("IDEMP", "the generic clean-ups (S3, S4) do not touch the name normalised by the hook", not eff_after, fn=bk, detail=str([e["path"] for e in eff_after]))


RULES = [
    ("MOVE", rule_move, 3),
    ("IDEMP", rule_idemp, 3),
    ("IDEMP-SHAPES", lambda ctx: None, 6),
    ("IDEMP-CHECKSUM", lambda ctx: None, 10),
    ("IDEMP-LOWER", lambda ctx: None, 6),
    ("IDEMP-PYPI", lambda ctx: None, 4),
    ("FRAME", lambda ctx: None, 3),
    ("AGREE-K", lambda ctx: None, 4),
]

MANIFEST = {
    "text": "Static decision: into_builder is a field-wise move (MIR aggregate of the moved fields, no call), and every normaliser stage re-run by build() is idempotent on its extracted model (tables, char classes, transducer composition, Unicode data), with non-interference between stages. Equality of the rebuilt value follows under the callee semantics.",
    "note": "Trusted: rustc MIR, extractor, Unicode lower-case table, callee semantics. Not decided: equality of values as such (composition of the stage facts under section 3 semantics).",
    "technique": "move-shape rule; model-level idempotence obligations per normaliser stage (char-class closure, transducer self-composition, fixpoint of parse/serialise separators)",
    "design_ref": "DESIGN.md 5.10",
}
