"""C14 -- user-supplied package types: call protocol and post-hook validation (DESIGN.md 5.14)."""
from purlsa.core import AnchorError, callee_name
from purlsa.sem import norm, nshow, atoms_at
from purlsa import models
from purlsa.models import show_canon
from . import faults
from .common import fn_site

LEVEL = "other"
EXPLANATION = (
    "Static decision of the call protocol for every PurlShape + FromStr implementation at once (parametricity plus ordering): from_str and build() are "
    "single generic bodies in which the type parameter is touched at exactly three call sites. T::from_str has one call site in the crate, not in a loop, "
    "dominated by valid_type(x) on the very region it receives (the raw type substring); PurlShape::finish has one call site, in build(), not in a loop, "
    "dominating every Ok return; the parser's single build() call is dominated by the success edge of the conversion; both errors reach `return` through "
    "from_residual with the residual types visible in the callee's generic arguments (identity for the hook, the user's From for the conversion) without "
    "constructing a GenericPurl; after the hook the only accesses to the parts are the three generic checks."
)
RULE_TEXT = "obligations = call-site counts and loop membership, dominance facts, argument identity (region terms), residual types of the `?` conversions, post-hook access list"
ASSUMPTIONS = ["behaviour of user impls is unconstrained (that is the quantifier); `?` on Result<_, E> into Result<_, E> uses the reflexive From impl"]
TRUSTED_BASE = ["rustc type checking / MIR", "callee semantics table (DESIGN.md section 3)"]


def sites_of(facts, raw_path):
    out = []
    for k, b in facts.bodies.items():
        for bb, t in b.calls(include_cleanup=True):
            if t["callee"].get("path") == raw_path:
                out.append((k, bb, t))
    return out


def rule_once_conv(ctx):
    facts = ctx.facts()
    pm = models.parser_model(facts)
    key = pm["key"]
    body = pm["body"]
    sites = [(k, bb) for (k, bb, t) in sites_of(facts, "std::str::FromStr::from_str") if t["callee"].get("resolved") is None]
    ctx.ob("ONCE-CONV", "exactly one generic T::from_str call site in the crate, in the parser", len(sites) == 1 and sites[0][0] == key, fn=key, detail=str(sites))
    if len(sites) != 1 or sites[0][0] != key:
        return
    bb = sites[0][1]
    ctx.ob("ONCE-CONV", "the conversion is not in a loop", not body.in_loop(bb) and not body.back_edges(), fn=key, site=body.site(bb), detail="")
    arg = models._region(norm(body.resolve_operand(body.term(bb)["args"][0])))
    # "exactly as written": the argument is a plain sub-region of the input (splits/trims only; no decoding, re-casing or copy);
    # WHICH sub-region is the grammar's business (C02)
    ctx.ob("ONCE-CONV", "the conversion receives a raw substring of the input, exactly as written", models.region_ok(arg), fn=key, site=body.site(bb), detail=models.show_region(arg))
    atoms = [models.canon_atom(a) for _, a in atoms_at(body, bb)]
    ok = any(c[0] == "pred" and c[1] == "is_valid_package_type" and c[3] is True and c[2] == (arg,) for c in atoms)
    ctx.ob("ONCE-CONV", "valid_type(x) dominates T::from_str(x) with the same x", ok, fn=key, site=body.site(bb), detail="; ".join(show_canon(c) for c in atoms)[:300])
    # "only with a syntactically valid type substring": the guard accepts exactly the type alphabet
    from .common import type_alphabet_obligation
    type_alphabet_obligation(ctx, facts, "ONCE-CONV")
    # the parser's build() call is dominated by the conversion's success edge
    bk = models.build_fn(facts)
    bcalls = [(b2, t) for b2, t in body.calls() if callee_name(t["callee"]) == bk]
    ctx.ob("ONCE-HOOK", "the parser calls build() exactly once", len(bcalls) == 1, fn=key, detail="")
    if len(bcalls) == 1:
        at = [models.canon_atom(a) for _, a in atoms_at(body, bcalls[0][0])]
        ok = any(c[0] == "callres" and c[1] == "std::str::FromStr::from_str" and c[-1] in ("Ok?", "Ok") for c in at)   # `?` or an explicit match
        ctx.ob("ONCE-HOOK", "the hook (inside build) can only run after the conversion succeeded", ok, fn=key, site=body.site(bcalls[0][0]), detail="")
        a0 = norm(body.resolve_operand(bcalls[0][1]["args"][0]))
        okp = a0[0] == "agg" and a0[2][0][0] == "ok" and a0[2][0][1][0] == "call" and a0[2][0][1][1] == "std::str::FromStr::from_str"
        ctx.ob("ONCE-HOOK", "the built value carries the converted type unchanged", okp, fn=key, site=body.site(bcalls[0][0]), detail=nshow(a0)[:160])


def rule_once_hook(ctx):
    facts = ctx.facts()
    bm = models.builder_model(facts)
    key = bm["key"]
    body = bm["body"]
    sites = [(k, bb) for (k, bb, t) in sites_of(facts, "PurlShape::finish")]
    ctx.ob("ONCE-HOOK", "exactly one PurlShape::finish call site in the crate, in build()", len(sites) == 1 and sites[0][0] == key, fn=key, detail=str(sites))
    if len(sites) != 1 or sites[0][0] != key:
        return
    bb = sites[0][1]
    ctx.ob("ONCE-HOOK", "the hook is not in a loop", not body.in_loop(bb) and not body.back_edges(), fn=key, site=body.site(bb), detail="")
    oks = [r for r in bm["rejections"] if r["kind"] == "ok"]
    ctx.ob("ONCE-HOOK", "the hook dominates every Ok return of build()", bool(oks) and all(body.dominates(bb, r["bb"]) for r in oks), fn=key, site=body.site(bb), detail="")
    ctx.ob("ONCE-HOOK", "the hook is the first thing build() does (entry block)", bb == 0 or all(body.term(x)["t"] != "call" or x == bb for x in body.dominators()[bb]), fn=key, site=body.site(bb), detail="bb%d" % bb)
    # no recursion: build is not reachable from itself
    comps = [c for c in facts.sccs() if key in c]
    ctx.ob("ONCE-HOOK", "build() is not recursive", comps and len(comps[0]) == 1 and key not in facts.callgraph()[key], fn=key, detail="")
    # callers of build: parser, new -- each calls it once, not in a loop
    for k, b in facts.bodies.items():
        cs = [b2 for b2, t in b.calls() if callee_name(t["callee"]) == key]
        if cs:
            ctx.ob("ONCE-HOOK", "%s calls build() once, outside loops" % facts.fns.get(k, {}).get("name", k), len(cs) == 1 and not b.in_loop(cs[0]), fn=k, site=b.site(cs[0]), detail="")


def rule_err_pass(ctx):
    facts = ctx.facts()
    bm = models.builder_model(facts)
    body = bm["body"]
    key = bm["key"]
    nfin = len([r for r in bm["rejections"] if r["kind"] == "propagate" and r["callee"] == "PurlShape::finish"])
    ctx.ob("ERR-PASS", "build() has one exit that hands the hook's error on", nfin == 1, fn=key, site=fn_site(facts, key), detail="%d propagation sites for PurlShape::finish" % nfin)
    for r in bm["rejections"]:
        if r["kind"] == "propagate" and r["callee"] == "PurlShape::finish":
            t = body.term(r["bb"])
            if r.get("via") == "match-err" or not (t["t"] == "call" and "callee" in t and str(t["callee"].get("path", "")).endswith("from_residual")):
                # `match finish(..) { Ok(()) => {}, Err(e) => return Err(e) }`: the returned value is Err(<the hook's error>) with
                # no conversion in between (models.classify_return gives `propagate` only to that aggregate and to from_residual)
                args = ["explicit `Err(e) => return Err(e)`"]
                ok = True
            else:
                args = t["callee"].get("args", [])
                ok = len(args) == 2 and args[0] == "std::result::Result<GenericPurl<T>, <T as PurlShape>::Error>" and args[1] == "std::result::Result<std::convert::Infallible, <T as PurlShape>::Error>"
            ctx.ob("ERR-PASS", "the hook's error is returned unchanged (residual type = return error type, reflexive From)", ok, fn=key, site=r["site"], detail=str(args))
            ctx.ob("ERR-PASS", "no GenericPurl is constructed on the hook's error path", not any(k == key and b == r["bb"] for (k, b, _) in models.aggregates_of(facts, "GenericPurl")), fn=key, site=r["site"], detail="")
    pm = models.parser_model(facts)
    pb = pm["body"]
    n = 0
    for r in models.rejections(facts, pm["key"]):
        if r["kind"] == "propagate" and r["callee"] == "std::str::FromStr::from_str":
            n += 1
            t = pb.term(r["bb"])
            if t["t"] == "call" and "callee" in t:
                args = t["callee"].get("args", [])
                ok = len(args) == 2 and args[1] == "std::result::Result<std::convert::Infallible, <T as std::str::FromStr>::Err>" and args[0].endswith("<T as PurlShape>::Error>")
            else:
                # `Err(e) => return Err(e.into())`: the conversion is the one explicit Into/From call on that error type
                convs = [tt["callee"].get("args", []) for _, tt in pb.calls() if tt["callee"].get("path") in ("std::convert::Into::into", "std::convert::From::from") and tt["callee"].get("args", [None])[0 if tt["callee"].get("path").endswith("into") else -1] == "<T as std::str::FromStr>::Err"]
                args = convs
                ok = len(convs) == 1 and set(convs[0]) == {"<T as std::str::FromStr>::Err", "<T as PurlShape>::Error"}
            ctx.ob("ERR-PASS", "the conversion's error is converted only by the user's own From<<T as FromStr>::Err>", ok, fn=pm["key"], site=r["site"], detail=str(args))
    ctx.ob("ERR-PASS", "one propagation site for the conversion's error", n == 1, fn=pm["key"], detail="")
    # trait bound: Error: From<ParseError>; the parser's where clause requires From<<T as FromStr>::Err>
    tr = facts.traits.get("PurlShape")
    ctx.ob("ERR-PASS", "trait PurlShape declares Error, package_type and finish", tr is not None and sorted(i["name"] for i in tr["items"]) == ["Error", "finish", "package_type"], fn="PurlShape", detail=str(tr and [i["name"] for i in tr["items"]]))


def rule_post_hook_frame(ctx):
    facts = ctx.facts()
    bm = models.builder_model(facts)
    body = bm["body"]
    key = bm["key"]
    st = bm["stages"]
    if len(st["S1"]) != 1:
        raise AnchorError("finish call site not unique", key)
    s1 = st["S1"][0]["bb"]
    # only *mutable* accesses matter: a read cannot change what the hook wrote, and a read that leads to a
    # new refusal is reported by C02 REJECT-COMPLETE (extra row in build's rejection list)
    after = []
    for e in bm["effects"]:
        if e["bb"] == s1 or not body.dominates(s1, e["bb"]) or e["target"][0] != "arg":
            continue
        after.append((e["path"], e["target"][2], e["site"]))
    allowed = {"retain": "parts.qualifiers", "insert": "parts.qualifiers"}
    for (p, fld, site) in after:
        nm = p.split("::")[-1]
        ok = nm in allowed and fld == allowed[nm]
        ctx.ob("POST-HOOK-FRAME", "after the hook: mutable access %s on %s is one of the generic clean-ups" % (nm, fld), ok, fn=key, site=site, detail=p)
    ctx.ob("POST-HOOK-FRAME", "after the hook the parts are mutated by exactly: qualifiers.retain, qualifiers.insert(checksum)", sorted(p.split("::")[-1] for p, _, _ in after) == ["insert", "retain"], fn=key, detail=str([(p.split("::")[-1], f) for p, f, _ in after]))
    # the order of the generic clean-ups: a checksum the hook emptied is an empty-valued qualifier -- removed, not refused
    if len(st["S3"]) == 1 and len(st["S4get"]) == 1:
        s3, s4g = st["S3"][0]["bb"], st["S4get"][0]["bb"]
        ctx.ob("POST-HOOK-FRAME", "empty-valued qualifiers are removed before the checksum is read (an emptied checksum is removed, not refused)", s3 != s4g and body.dominates(s3, s4g), fn=key, site=body.site(s4g), detail="retain bb%d, typed get bb%d" % (s3, s4g))
    else:
        ctx.ob("POST-HOOK-FRAME", "one retain and one typed checksum read after the hook", False, fn=key, detail="retain sites: %d, typed get sites: %d" % (len(st["S3"]), len(st["S4get"])))
    pw = [w for w in body.partial_writes(1) if not body.is_cleanup(w[0])]
    for l in models.self_field_locals(body):  # `let Self { package_type, parts } = self;` -- the fields live on in locals
        pw += [w for w in body.partial_writes(l) if not body.is_cleanup(w[0])]
    ctx.ob("POST-HOOK-FRAME", "no direct assignment to self.parts / self.package_type in build()", not pw, fn=key, detail="")
    pay = st["S5"][0]["payload"] if len(st["S5"]) == 1 else None
    ok = pay is not None and pay[0] == "agg" and [models.field_path(x) for x in pay[2]] == ["package_type", "parts"]
    ctx.ob("POST-HOOK-FRAME", "what the hook wrote is what is returned: GenericPurl { self.package_type, self.parts }", ok, fn=key, site=st["S5"][0]["site"] if pay else "", detail=nshow(pay)[:120] if pay else "")
    # Display reads the type only through package_type()
    dk = models.display_fn(facts)
    db = facts.body(dk)
    uses = []
    for bb, t in db.calls():
        if t["callee"].get("trait") == "PurlShape":
            uses.append(t["callee"]["item"])
    ctx.ob("POST-HOOK-FRAME", "Display uses the type only through PurlShape::package_type()", uses == ["package_type"], fn=dk, detail=str(uses))


THOROUGH_FS = ["pt", "none", "serde"]

RULES = [
    ("ONCE-CONV", rule_once_conv, 4),
    ("ONCE-HOOK", rule_once_hook, 6),
    ("ERR-PASS", rule_err_pass, 3),
    ("POST-HOOK-FRAME", rule_post_hook_frame, 3),
]

MANIFEST = {
    "text": "Static protocol decision valid for every user implementation by parametricity: unique call sites of T::from_str and PurlShape::finish (whole-crate search over resolved/unresolved callees), loop-freedom, dominance (guard before conversion, conversion before build, hook before every Ok), argument identity as region terms, residual types of the `?` conversions read from the callee's generic arguments, and the whitelist of accesses to the parts after the hook. As built, also: the guard in front of the conversion admits exactly the type alphabet [0-9A-Za-z.+-] (computed from the predicate), build() has exactly one exit that hands the hook's error on, and the removal of empty values precedes the checksum read.",
    "note": "Trusted: rustc type checking and MIR, extractor. Nothing is assumed about user impls. Not decided: behaviour of user impls themselves.",
    "technique": "call-site uniqueness + dominance (typestate-like once/never-before/only-after protocol) over MIR; generic-argument inspection of `?` conversions; effect whitelist",
    "design_ref": "DESIGN.md 5.14",
}
