"""C12 -- checksum qualifier: one canonical text, typed round trip, order independence (DESIGN.md 5.12)."""
from purlsa.core import AnchorError, callee_name, strip
from purlsa.sem import norm, nshow, atoms_at
from purlsa import models, boolsum
from purlsa.models import show_canon
from .common import fn_site
from . import lowercase

LEVEL = "other"
EXPLANATION = (
    "Static decision of the structure behind the canonical checksum text: (SORT-TAINT) every HashMap iteration whose elements reach a string sink is "
    "collected and sorted by the algorithm projection before it is serialised - this discharges the quantifier over hash seeds and insertion orders; "
    "iterators handed to the caller are documented as unordered and are not sinks; (KEY-LOWER) every key inserted into the map originates from "
    "copy_as_lowercase, whose scan-then-act summary equals char::to_lowercase on every char class (GUARDXFORM over Unicode tables); (HEX-GUARD) the "
    "serialiser emits an entry only under all-hex-digits and even length, failing edges return InvalidQualifier, and the hex is ASCII-lower-cased; "
    "(AGREE-K) entry and pair separators of serialiser and parser agree and cannot occur in the hex class; typed insert/get are delegations to hex encode/decode."
)
RULE_TEXT = "obligations = per HashMap iteration site: sorted-before-sink or returned; per HashMap::insert: key provenance; per scan state x char class: action = to_lowercase; serialiser guards and separators; delegation shapes"
ASSUMPTIONS = [
    "sort_unstable_by with a total comparator yields the unique ascending order when keys are distinct (HashMap keys are distinct)",
    "HashMap::insert replaces the value of an equal key; hex::ToHex::encode_hex / FromHex::from_hex are inverse (dependency)",
    "char::to_lowercase is the Unicode lower-case mapping (table from python's unicodedata, Unicode 14; see DESIGN 3.3)",
]
TRUSTED_BASE = ["callee semantics table (DESIGN.md section 3)", "Unicode data tables"]

HM_ITER = ("std::collections::HashMap::<K, V, S, A>::iter", "std::collections::HashMap::<K, V, S, A>::keys", "std::collections::HashMap::<K, V, S, A>::values", "std::collections::HashMap::<K, V, S, A>::iter_mut", "std::collections::HashMap::<K, V, S, A>::drain", "std::collections::HashMap::<K, V, S, A>::into_keys", "std::collections::HashMap::<K, V, S, A>::into_values", "<std::collections::HashMap<K, V, S, A> as std::iter::IntoIterator>::into_iter", "<&'a std::collections::HashMap<K, V, S, A> as std::iter::IntoIterator>::into_iter")


def roles(facts):
    r = {}
    for k, f in facts.fns.items():
        if f.get("impl_trait_def") == "std::convert::TryFrom" and f.get("name") == "try_from":
            if f.get("impl_self", "").startswith("qualifiers::well_known::Checksum<"):
                r["parse"] = k
            elif "Checksum<" in f.get("impl_trait", ""):
                r["serialize"] = k
    for nm in ("insert_raw", "insert", "get", "get_value", "get_raw", "remove", "algorithms", "iter"):
        ks = [k for k, f in facts.fns.items() if f.get("name") == nm and f.get("impl_self", "").startswith("qualifiers::well_known::Checksum<") and "impl_trait" not in f]
        if len(ks) == 1:
            r[nm] = ks[0]
    if "copy_as_lowercase" in facts.bodies:
        r["lower"] = "copy_as_lowercase"
    return r


def hexsite(es):
    for e in es:
        if e.get("_cls", ("",))[0].startswith("hex"):
            return e["bb"]
    return es[-1]["bb"] if es else 0


def order_by_flow(body, es):
    es = list(es)
    out = []
    while es:
        for e in es:
            if not any(o is not e and e["bb"] in body.reachable_from(o["bb"]) and o["bb"] not in body.reachable_from(e["bb"], avoid=set(body.loops().keys())) and o["bb"] != e["bb"] for o in es):
                out.append(e)
                es.remove(e)
                break
        else:
            out.extend(sorted(es, key=lambda e: e["bb"]))
            break
    return out


def serializer_obligations(ctx, facts, rule=None, scope="all"):
    R = lambda r: rule or r  # noqa: E731
    rl = roles(facts)
    key = rl.get("serialize")
    if not key:
        raise AnchorError("TryFrom<Checksum> for SmallString not found")
    body = facts.body(key)
    bs = models.body_summary(facts, key)
    site = fn_site(facts, key)
    # --- SORT-TAINT in the serialiser
    iters = [(bb, t) for bb, t in body.calls() if callee_name(t["callee"]) in HM_ITER]
    # an iteration that only feeds a quantifier over a pure predicate (`values().all(valid)`) yields the same answer in
    # every order: it cannot taint the text
    summ0 = boolsum.Summarizer(facts)
    ORDER_FREE = ("std::iter::Iterator::all", "std::iter::Iterator::any")
    prechecks = []
    for (ibb, it_) in list(iters):
        users = [(ub, ut) for ub, ut in body.calls() if ub != ibb and any(("@%d" % ibb) in mark_sites(norm(body.resolve_operand(a))) for a in ut["args"])]
        if len(users) == 1 and callee_name(users[0][1]["callee"]) in ORDER_FREE and len(users[0][1]["args"]) == 2:
            clo = norm(body.resolve_operand(users[0][1]["args"][1]))
            if clo[0] == "closure" and clo[1] in facts.bodies:
                try:
                    f_ = summ0.summary(clo[1])
                except AnchorError:
                    continue
                iters.remove((ibb, it_))
                prechecks.append({"bb": users[0][0], "iter": callee_name(it_["callee"]), "recv": norm(body.resolve_operand(it_["args"][0])), "quant": callee_name(users[0][1]["callee"]).split("::")[-1], "formula": f_, "closure": clo[1]})
    ctx.ob(R("SORT-TAINT"), "serialiser: exactly one HashMap iteration whose order can reach the text", len(iters) == 1, fn=key, site=site, detail=str([callee_name(t["callee"]) for _, t in iters]))
    sorts = [e for e in bs["effects"] if "sort" in e["path"].split("::")[-1]]
    loops = bs["loops"]
    if len(loops) > 1:
        # loops that do not write the text (summing up a capacity, copying the entries into the Vec) are not the emitting loop
        oks_ = [r for r in bs["returns"] if r["cls"][0] == "ok"]
        acc_ = oks_[0]["cls"][1] if len(oks_) == 1 else None
        while acc_ is not None and acc_[0] == "conv":
            acc_ = acc_[1]
        if acc_ is not None and acc_[0] == "var":
            writers = {h_: v_ for h_, v_ in loops.items() if any(e["target"][:2] == ("var", acc_[1]) and e["bb"] in body.loops().get(h_, set()) and not e["path"].endswith("deref_mut") for e in bs["effects"])}
            # an inner loop of the emitting loop also writes the text: keep the outermost
            outer = {h_: v_ for h_, v_ in writers.items() if not any(h_ != o_ and h_ in body.loops().get(o_, set()) for o_ in writers)}
            if len(outer) == 1:
                loops = outer
    if len(iters) == 1 and len(sorts) == 1 and len(loops) == 1:
        ibb = iters[0][0]
        srt = sorts[0]
        vecvar = srt["target"]
        # the sorted Vec is collect(into_iter(map))
        init = norm(body._resolve_local(vecvar[1]))
        okc = init[0] == "call" and init[1] == "std::iter::Iterator::collect" and init[2][0][0] == "call" and init[2][0][3] == ibb
        fill = None
        if not okc and init[0] == "call" and init[1].split("::")[-1] in ("new", "with_capacity") and "Vec" in init[1]:
            # `let mut v = Vec::new(); v.extend(map)` (or the push loop that is the same thing, purlsa.roll): the only thing
            # written into the Vec before the sort is that one iteration
            fills = [e for e in bs["effects"] if e["target"] == vecvar and e["bb"] != srt["bb"] and not e["path"].endswith("deref_mut") and body.dominates(e["bb"], srt["bb"])]
            if len(fills) == 1 and fills[0]["path"].endswith("::extend") and ("@%d" % ibb) in mark_sites(fills[0]["args"][1]):
                src_ = fills[0]["args"][1]
                while src_[0] == "call" and src_[1].endswith("::into_iter") and len(src_[2]) == 1 and src_[3] != ibb:
                    src_ = src_[2][0]
                okc = src_[0] == "call" and src_[3] == ibb
                fill = fills[0]
        ctx.ob(R("SORT-TAINT"), "serialiser: the iteration is collected into the Vec that is sorted", okc, fn=key, site=srt["site"], detail=nshow(init)[:120])
        h, (nb, it, npath) = next(iter(loops.items()))
        src = it
        for _ in range(6):
            if src[0] == "var" and src[1] != vecvar[1] and len(src) > 2:
                src = src[2]
            elif src[0] == "call" and ("into_iter" in src[1] or src[1] == "std::iter::Iterator::enumerate"):
                src = src[2][0]
            elif src[0] == "call" and src[1] in ("core::slice::<impl [T]>::iter", "std::slice::<impl [T]>::iter") and len(src[2]) == 1:
                src = strip_conv(src[2][0])      # `for x in v.iter()`: by reference, same order
                for _ in range(3):
                    if src[0] == "call" and src[1].endswith("::deref") and len(src[2]) == 1:
                        src = strip_conv(src[2][0])
                    elif src[0] in ("ref", "deref"):
                        src = src[2] if src[0] == "ref" else src[1]
            else:
                break
        okl = src[0] == "var" and src[1] == vecvar[1]
        ctx.ob(R("SORT-TAINT"), "serialiser: the emitting loop iterates the sorted Vec", okl, fn=key, site=body.site(nb), detail=nshow(src)[:80])
        ctx.ob(R("SORT-TAINT"), "serialiser: the sort dominates the emitting loop", body.dominates(srt["bb"], h), fn=key, site=srt["site"], detail="bb%d -> loop bb%d" % (srt["bb"], h))
        # comparator: Ord::cmp(&a.0, &b.0)
        clo = srt["args"][1] if len(srt["args"]) > 1 else ("none",)
        okcmp = False
        det = ""
        if clo[0] == "none":
            # sort() / sort_unstable(): the Ord of the element.  For (algorithm, digest) pairs that is the algorithm first;
            # algorithms are unique (they come from a map), so the digest never decides
            vty = body.locals[vecvar[1]]["ty"]
            det = "element order of %s" % vty[:80]
            okcmp = vty.startswith(("std::vec::Vec<(std::string::String,", "std::vec::Vec<(smartstring::SmartString<", "std::vec::Vec<(&str,", "std::vec::Vec<(std::borrow::Cow<'_, str>,", "std::vec::Vec<(&std::string::String,", "std::vec::Vec<(&smartstring::SmartString<"))
        if clo[0] == "closure":
            ct = norm(facts.body(clo[1]).resolve_local(0))
            det = nshow(ct)
            okcmp = ct[0] == "call" and ct[1].endswith("::cmp") and [models_field(x) for x in ct[2]] == [("arg", 2, "0"), ("arg", 3, "0")]
        ctx.ob(R("SORT-TAINT"), "serialiser: comparator = a.0.cmp(&b.0) (algorithm names, total order)", okcmp, fn=key, site=srt["site"], detail=det[:160])
        # no other mutation of the Vec between sort and loop
        others = [e for e in bs["effects"] if e["target"] == vecvar and e["bb"] not in (srt["bb"],) and not e["path"].endswith("deref_mut") and e is not fill]
        ctx.ob(R("SORT-TAINT"), "serialiser: the Vec is not reordered after the sort", not others, fn=key, site=site, detail=str([e["path"] for e in others]))
    elif len(iters) == 1 and not sorts and len(loops) == 1:
        # no sort: the order may come from an ordered map the entries are collected into.  BTreeMap iterates in the
        # Ord order of its keys (std doc: "iterators ... produce their items in order by key"), which for the text key types
        # is the comparator the sort spelling uses (a.0.cmp(&b.0)); a key can occur once in either, coming from a HashMap.
        ibb = iters[0][0]
        h, (nb, it, npath) = next(iter(loops.items()))
        src = it
        mapvar = None
        for _ in range(8):
            if src[0] == "var" and len(src) > 2:
                mapvar = src[1]
                src = src[2]
            elif src[0] == "call" and src[1] == "std::iter::Iterator::enumerate":
                src = src[2][0]
                mapvar = None
            elif src[0] == "call" and src[1] == "std::iter::IntoIterator::into_iter":
                src = src[2][0]
                mapvar = None
            else:
                break
        okm = src[0] == "call" and ("std::collections::BTreeMap<" in src[1]) and src[1].split("::")[-1] in ("into_iter", "iter") and len(src[2]) == 1
        coll = strip(src[2][0]) if okm else None
        if okm and coll[0] == "var" and len(coll) > 2:
            mapvar = coll[1]
            coll = coll[2]
        okc = okm and coll[0] == "call" and coll[1] == "std::iter::Iterator::collect" and coll[2][0][0] == "call" and coll[2][0][3] == ibb
        ctx.ob(R("SORT-TAINT"), "serialiser: the iteration is collected into the ordered map that the emitting loop iterates", bool(okc), fn=key, site=body.site(nb), detail=nshow(src)[:160])
        if not okc:
            return
        cty = body.locals[body.term(coll[3])["dest"]["l"]]["ty"]
        kty = cty[len("std::collections::BTreeMap<"):] if cty.startswith("std::collections::BTreeMap<") else "?"
        depth = 0
        for i_, ch in enumerate(kty):
            if ch in "<(":
                depth += 1
            elif ch in ">)":
                depth -= 1
            elif ch == "," and depth == 0:
                kty = kty[:i_]
                break
        TEXT_KEYS = ("std::string::String", "smartstring::SmartString<", "&str", "&'a str", "std::borrow::Cow<'_, str>", "std::borrow::Cow<'a, str>")
        ctx.ob(R("SORT-TAINT"), "serialiser: the ordered map is keyed by the algorithm name (text order, total)", kty.startswith(TEXT_KEYS), fn=key, site=site, detail="%s keyed by %s" % (cty[:60], kty))
        others = [e for e in bs["effects"] if mapvar is not None and e["target"] == ("var", mapvar) and not e["path"].endswith("deref_mut")]
        ctx.ob(R("SORT-TAINT"), "serialiser: the ordered map is only read before the loop", not others, fn=key, site=site, detail=str([e["path"] for e in others]))
        ctx.ob(R("SORT-TAINT"), "serialiser: the emitting loop iterates the ordered map", True, fn=key, site=body.site(nb), detail=nshow(src)[:80], nontrivial=False)
        ctx.ob(R("SORT-TAINT"), "serialiser: the collection dominates the emitting loop", body.dominates(coll[3], h), fn=key, site=site, detail="bb%d -> loop bb%d" % (coll[3], h))
    else:
        ctx.ob(R("SORT-TAINT"), "serialiser: one sort and one emitting loop", False, fn=key, site=site, detail="iters=%d sorts=%d loops=%d" % (len(iters), len(sorts), len(loops)))
        return
    # --- HEX-GUARD and separators
    ITEM = ("some", ("call", npath, (it,), nb))
    ENUM = npath.startswith("<std::iter::Enumerate<")
    PAIR = ("field", ITEM, "1") if ENUM else ITEM  # enumerate() yields (index, (algorithm, digest))
    out_ok = [r for r in bs["returns"] if r["cls"][0] == "ok"]
    if len(out_ok) != 1:
        raise AnchorError("serialiser: Ok return not unique", key)
    acc = out_ok[0]["cls"][1]
    while acc[0] == "conv":
        acc = acc[1]
    if acc[0] != "var":
        raise AnchorError("serialiser: Ok payload is not the accumulator", key)
    accn = acc[1]
    emits = [e for e in bs["effects"] if e["target"][0] == "var" and e["target"][1] == accn and not e["path"].endswith("deref_mut")]
    summ = boolsum.Summarizer(facts)
    HEX = boolsum.set_of("ascii_hexdigit")

    def classify(e):
        p = e["path"]
        a = e["args"]
        if p.endswith("::push") and models.cchar(e["raw"][1]) is not None:
            return ("lit", models.cchar(e["raw"][1]))
        if p.endswith("::push_str"):
            v = strip_conv(a[1])
            for _ in range(3):   # &*String, &String
                if v[0] == "call" and v[1].endswith("::deref") and len(v[2]) == 1:
                    v = strip_conv(v[2][0])
            if v[0] == "call" and v[1] in ("core::str::<impl str>::to_ascii_lowercase", "alloc::str::<impl str>::to_ascii_lowercase", "std::str::<impl str>::to_ascii_lowercase") and len(v[2]) == 1:
                # the whole digest ASCII-lower-cased at once: the same text as lower-casing it char by char
                inner = strip_conv(v[2][0])
                for _ in range(3):
                    if inner[0] == "call" and inner[1].endswith("::deref") and len(inner[2]) == 1:
                        inner = strip_conv(inner[2][0])
                if inner == ("field", PAIR, "1") or nshow(inner).endswith(").1") or ".1 as " in nshow(inner) or nshow(inner).endswith(".1"):
                    return ("hex-lower",)
            if v == ("field", PAIR, "0"):
                return ("alg",)
            if v == ("field", PAIR, "1"):
                return ("hex-as-given",)
            if ENUM:
                return ("str", nshow(v)[:80])
            if nshow(v).endswith(").0"):
                return ("alg",)
            if nshow(v).endswith(").1") or ".1 as " in nshow(v) or nshow(v).endswith(".0") and ".1" in nshow(v):
                return ("hex-as-given",)
            return ("str", nshow(v)[:80])
        if p.endswith("::extend"):
            hx = strip_conv(a[1])
            if hx[0] == "call" and hx[1] == "std::iter::Iterator::map" and len(hx[2]) == 2:
                src_ = hx[2][0]
                while src_[0] == "call" and src_[1].endswith("::into_iter") and len(src_[2]) == 1:
                    src_ = src_[2][0]   # `for x in it` reads `IntoIterator::into_iter(it)`, the identity on iterators
                hx = (hx[0], hx[1], (src_, hx[2][1])) + tuple(hx[3:])
            ok = hx[0] == "call" and hx[1] == "std::iter::Iterator::map" and hx[2][0][0] == "call" and hx[2][0][1].endswith("::chars") and ".1" in nshow(hx[2][0][2][0]) and hx[2][1][0] == "closure"
            if ok:
                ct = norm(facts.body(hx[2][1][1]).resolve_local(0))
                if ct[0] == "call" and ct[1].endswith("::to_ascii_lowercase") and ct[2] == (("arg", 2),):
                    return ("hex-lower",)
            # byte-wise: bytes().map(|b| char::from(b.to_ascii_lowercase())) -- the same text for an all-ASCII digest, which
            # the hex guard on every emit (HEX-GUARD obligations) establishes
            okb = hx[0] == "call" and hx[1] == "std::iter::Iterator::map" and hx[2][0][0] == "call" and hx[2][0][1].endswith("::bytes") and ".1" in nshow(hx[2][0][2][0]) and hx[2][1][0] == "closure"
            if okb:
                ct = norm(facts.body(hx[2][1][1]).resolve_local(0))
                if ct[0] == "cast":
                    ct = ct[2]
                elif ct[0] == "call" and ct[1].endswith("<impl std::convert::From<u8> for char>::from") and len(ct[2]) == 1:
                    ct = ct[2][0]
                else:
                    ct = ("?",)
                if ct[0] == "call" and ct[1].endswith("::to_ascii_lowercase") and ct[2] == (("arg", 2),):
                    return ("hex-lower",)
            return ("extend", nshow(hx)[:80])
        return ("?", p)

    def guard_kind(c, acc):
        """classify a guard atom of an emit site: returns (kind, ok?)"""
        if c[0] == "next":
            return "next"
        if c[0] in ("any", "all") and ".1" in str(c[1]):
            cs = boolsum.charset(boolsum.pred_formula(facts, summ, c[2]), facts)
            if c[0] == "any" and c[3] is False and (boolsum.universe() & ~cs) == HEX:
                return "allhex"
            if c[0] == "all" and c[3] is True and cs == HEX:
                return "allhex"
            return "other:" + show_canon(c)[:80]
        if c[0] == "cmp" and "Rem" in str(c[2]) and "len" in str(c[2]) and ((c[1] == "Ne" and c[4] is False) or (c[1] == "Eq" and c[4] is True)):
            return "even"
        if c == ("empty", ("Var", acc), False):
            return "acc-nonempty"
        is_index = ENUM and c[0] == "cmp" and c[3] in (("?", "0"), ("const", 0)) and c[2][0] == "Field" and "Enumerate" in c[2][1] and c[2][1].endswith("::next(%s)).0" % nshow(it))
        if is_index and (((c[1] in ("Gt", "Ne")) and c[4] is True) or ((c[1] in ("Le", "Eq")) and c[4] is False)):
            return "acc-nonempty"  # not the first entry (enumerate index > 0): every earlier entry wrote at least its ':'
        if c[0] == "is" and c[2] in ("Borrowed", "Owned"):
            return "variant:" + c[2]
        if c[0] == "isin" and set(c[2]) <= {"Borrowed", "Owned"}:
            return "variant:any"
        return "other:" + show_canon(c)[:80]

    def first_flag_guard(bb):
        """bb is reached only on the `not the first iteration` side of a loop-carried flag (models.first_flag_side)"""
        return models.first_flag_side(body, h, bb) is False

    def prevalidated(e):
        """`if !self.algorithms.values().all(valid) { return Err(..) }` before the loop, with valid(s) = even length and hex
        digits only: every entry the loop then meets (same map, not modified in between: it is moved into the sorted
        Vec) satisfies both guards"""
        out = set()
        for pc in prechecks:
            if pc["quant"] != "all" or pc["iter"] != "std::collections::HashMap::<K, V, S, A>::values" or models.field_path(pc["recv"]) != "algorithms":
                continue
            holds = any(a[0] == "pred" and a[1] == "std::iter::Iterator::all" and a[-1] is True and len(a[2]) == 2 and a[2][1][0] == "closure" and a[2][1][1] == pc["closure"] for a in e["atoms"])
            if not holds:
                continue
            f_ = pc["formula"]
            conj = list(f_[1]) if f_[0] == "and" else [f_]
            for c_ in conj:
                if c_[0] == "p" and c_[1] == "binop:Eq" and c_[2][1] == ("const", 0) and c_[2][0][0] == "binop" and c_[2][0][1] == "Rem" and c_[2][0][3] == ("const", 2) and c_[2][0][2][0] == "call" and c_[2][0][2][1].split("::")[-1] == "len" and strip(c_[2][0][2][2][0]) == ("arg", 2):
                    out.add("even")
                if c_[0] == "all" and strip(c_[1]) == ("arg", 2) and boolsum.charset(c_[2], facts) == HEX:
                    out.add("allhex")
        return out

    # `let start = v.len(); v.push_str(hex); v[start..].make_ascii_lowercase();`  ==  v.extend(hex.chars().map(to_ascii_lowercase)):
    # the three effects are fused into one lower-case emit when the slice starts at the length taken right before the push
    fused = []
    for m_ in [e for e in emits if e["path"].endswith("::make_ascii_lowercase")]:
        tgt = strip_conv(m_["args"][0])
        while tgt[0] == "call" and len(tgt[2]) == 1 and tgt[1].endswith("deref_mut"):
            tgt = tgt[2][0]
        if not (tgt[0] == "call" and tgt[1].endswith("IndexMut<I>>::index_mut") and len(tgt[2]) == 2):
            continue
        i_ = [e for e in emits if e["bb"] == tgt[3] and e["path"].endswith("::index_mut")]
        rg = tgt[2][1]
        if len(i_) != 1 or not (rg[0] == "agg" and rg[1][0] == "adt" and rg[1][1] == "std::ops::RangeFrom" and len(rg[2]) == 1):
            continue
        ln = rg[2][0]
        if not (ln[0] == "call" and ln[1].split("::")[-1] == "len" and len(ln[2]) == 1 and ln[2][0][0] == "var" and ln[2][0][1] == accn):
            continue
        lbb = ln[3]
        between = [e for e in emits if e is not m_ and e is not i_[0] and e["bb"] != lbb and body.dominates(lbb, e["bb"]) and body.dominates(e["bb"], i_[0]["bb"])]
        if len(between) == 1 and classify(between[0]) == ("hex-as-given",) and not (body.loops().get(h, set()) and lbb not in body.loops().get(h, set())):
            fused.append((between[0], i_[0], m_))
    for x_, i__, m_ in fused:
        if sorted(show_canon(c) for c in x_["catoms"]) == sorted(show_canon(c) for c in i__["catoms"]) == sorted(show_canon(c) for c in m_["catoms"]):
            emits = [e for e in emits if e is not i__ and e is not m_]
            x_["_fused"] = ("hex-lower",)

    variants = {}
    for e in emits:
        kinds = [guard_kind(c, accn) for c in e["catoms"]]
        pv = prevalidated(e)
        if pv:
            kinds = [k_ for k_ in kinds if not k_.startswith("other:pred(std::iter::Iterator::all")] + sorted(pv)
        if classify(e) == ("lit", ",") and "acc-nonempty" not in kinds and e["bb"] in body.loops().get(h, set()) and first_flag_guard(e["bb"]):
            kinds.append("acc-nonempty")
        vs = [k.split(":")[1] for k in kinds if k.startswith("variant:") and k != "variant:any"]
        e["_kinds"] = kinds
        e["_cls"] = e.get("_fused") or classify(e)
        variants.setdefault(vs[0] if vs else None, []).append(e)
    common = variants.pop(None, [])
    names = sorted(variants) or [None]
    if scope == "parsed":
        # only what build() can feed: values borrowed from the parsed text
        pk = rl.get("parse")
        pbs = models.body_summary(facts, pk)
        ins = [e for e in pbs["effects"] if e["path"].endswith("HashMap::<K, V, S, A>::insert")]
        vals = [strip_conv(e["args"][2]) for e in ins]
        if not ins:  # entry API: the value is what VacantEntry::insert stores
            ins = [e for e in pbs["effects"] if e["path"].endswith("VacantEntry::<'a, K, V, A>::insert")]
            vals = [strip_conv(e["args"][1]) for e in ins]
        borrowed = len(ins) == 1 and vals[0][0] == "agg" and vals[0][1][2] == "Borrowed"
        ctx.ob(R("AGREE-K"), "values parsed from text are stored as Cow::Borrowed (the only variant build() can serialise)", borrowed, fn=pk, site=ins[0]["site"] if ins else "", detail="")
        if "Borrowed" in names:
            names = ["Borrowed"]
    for vn in names:
        seq = sorted(common + variants.get(vn, []), key=lambda e: (0 if body.dominates(e["bb"], hexsite(common + variants.get(vn, []))) else 1, e["bb"]))
        # order by reachability
        seq = order_by_flow(body, common + variants.get(vn, []))
        kinds = [e["_cls"][0] + (":" + e["_cls"][1] if e["_cls"][0] == "lit" else "") for e in seq]
        tag = "" if vn is None else "[%s values] " % vn
        ctx.ob(R("AGREE-K"), tag + "serialiser emits [','] algorithm ':' lower-case-hex per entry", kinds == ["lit:,", "alg", "lit::", "hex-lower"], fn=key, site=site, detail=str(kinds))
        for e in seq:
            ks = e["_kinds"]
            allowed = {"next", "allhex", "even", "variant:any", "variant:" + str(vn)} | ({"acc-nonempty"} if e["_cls"] == ("lit", ",") else set())
            extra = [k for k in ks if k not in allowed]
            need = {"allhex", "even"} <= set(ks)
            what = e["_cls"][0] + (":" + e["_cls"][1] if e["_cls"][0] == "lit" else "")
            ctx.ob(R("HEX-GUARD"), tag + "emit `%s` happens exactly under all-hex-digits and even length (no entry is skipped or emitted conditionally)" % what, need and not extra and (e["_cls"] != ("lit", ",") or "acc-nonempty" in ks), fn=key, site=e["site"], detail="guards: %s" % ks)
    errs = [r for r in bs["returns"] if r["cls"][0] == "err"]
    ctx.ob(R("HEX-GUARD"), "the failing edges of the hex guards return InvalidQualifier", len(errs) == 1 and models.error_const(errs[0]["cls"][1]) == "ParseError::InvalidQualifier", fn=key, site=errs[0]["site"] if errs else site, detail="")
    # every other way out of a loop iteration must be the error return: no `continue` that skips an entry
    rets = dict(models.returns(body))
    skip = []
    body_emits = set(e["bb"] for e in emits if e["bb"] in body.loops().get(h, set()) and e["_cls"][0] != "lit")
    for gb, c in set((gb, c) for e in emits for gb, c in e["gatoms"]):
        if c[0] in ("next",) or (c[0] in ("is", "isin") and c[-1] in ("Borrowed", "Owned")):
            continue
        if gb not in body.loops().get(h, set()):
            continue   # a test made before the loop decides about the whole value, not about one entry
        for (lab, tg) in body.edges(gb):
            # an edge "skips an entry" if the next iteration can be reached from it without passing any emit of the entry's
            # own text (the separator alone does not count: not emitting ',' before the first entry is the point)
            if tg in body_emits:
                continue
            free = body.reachable_from(tg, avoid={gb} | body_emits)
            if h in free and not any(b in rets for b in body.reachable_from(tg, avoid={gb, h} | body_emits)):
                skip.append((body.site(gb), show_canon(c)[:80]))
    ctx.ob(R("HEX-GUARD"), "no guard inside the loop continues with the next entry without emitting (an entry is emitted or the whole value is refused)", not skip, fn=key, site=site, detail=str(skip))
    return rl


def models_field(x):
    if x[0] == "field" and x[1][0] == "arg":
        return ("arg", x[1][1], x[2])
    return None


def strip_conv(t):
    while t[0] == "conv":
        t = t[1]
    return t


def rule_serializer(ctx):
    serializer_obligations(ctx, ctx.facts())


def rule_sort_taint_others(ctx):
    facts = ctx.facts()
    rl = roles(facts)
    n = 0
    for k, b in facts.bodies.items():
        if k == rl.get("serialize"):
            continue
        for bb, t in b.calls():
            p = callee_name(t["callee"])
            if p in HM_ITER:
                n += 1
                # allowed only if the iterator itself is returned (possibly wrapped by map / a struct): documented as unordered
                ret = norm(b.resolve_local(0))
                returned = ("@%d" % bb) in mark_sites(ret) and not any(e for e in models.mut_effects(b) if e["path"].endswith("push_str") or e["path"].endswith("::push") or "write" in e["path"])
                ctx.ob("SORT-TAINT", "%s: HashMap iteration is handed to the caller, not serialised" % facts.fns.get(k, {}).get("name", k), returned, fn=k, site=b.site(bb), detail="returns %s" % nshow(ret)[:140])
            if "HashMap" in p and ("clone" in p or "Debug" in p or p.endswith("::fmt")):
                pass
    # (how many accessors iterate is not part of the property: each site is checked on its own above)
    ctx.ob("SORT-TAINT", "HashMap iteration sites outside the serialiser, all inspected", n >= 1, detail="found %d (today: algorithms, iter, IntoIterator for &Checksum)" % n)
    # Debug derive on Checksum prints the map in hash order: Debug output is not part of the canonical text (noted)
    ctx.note("derived Debug for Checksum iterates the HashMap in hash order; Debug text is not covered by C12's statement")


def mark_sites(t, acc=None):
    """set of '@bb' markers of call sites occurring in a term"""
    if acc is None:
        acc = set()
    if isinstance(t, tuple):
        if t and t[0] == "call" and len(t) == 4 and isinstance(t[3], int):
            acc.add("@%d" % t[3])
        for x in t:
            if isinstance(x, tuple):
                mark_sites(x, acc)
    return acc


def rule_key_lower(ctx):
    facts = ctx.facts()
    rl = roles(facts)
    n = 0
    for k, b in facts.bodies.items():
        for bb, t in b.calls():
            p = callee_name(t["callee"])
            # the operations that can create a key: insert(key, v) and entry(key) (whose VacantEntry::insert stores that key)
            if p in ("std::collections::HashMap::<K, V, S, A>::insert", "std::collections::HashMap::<K, V, S, A>::entry"):
                args = t["callee"].get("args", [])
                if not args or "SmartString" not in args[0] and "String" not in args[0]:
                    continue
                n += 1
                keyt = norm(b.resolve_operand(t["args"][1]))
                ok = keyt[0] == "call" and keyt[1] == rl.get("lower")
                ctx.ob("KEY-LOWER", "%s: map key created by %s = copy_as_lowercase(_)" % (facts.fns.get(k, {}).get("name", k), p.split("::")[-1]), ok, fn=k, site=b.site(bb), detail=nshow(keyt)[:120])
    ctx.ob("KEY-LOWER", "key-creating sites on the algorithm map (today: text parser, insert_raw), all inspected", n >= 2, detail="found %d" % n)
    if not rl.get("lower"):
        raise AnchorError("copy_as_lowercase not found")
    lowercase.guardxform_obligations(ctx, facts, rl["lower"], rule="GUARDXFORM")
    # the only other write into the map: get_mut(...) value replacement in insert_raw (value only), remove
    muts = []
    for k, b in facts.bodies.items():
        for e in models.mut_effects(b):
            if "HashMap" in e["path"] and e["path"].split("::")[-1] not in ("insert", "get_mut", "remove", "clone", "iter_mut"):
                muts.append((k, e["path"]))
    ctx.ob("KEY-LOWER", "no other key-creating operation on the map", not [m for m in muts if m[1].split("::")[-1] in ("extend", "try_insert", "from_iter", "insert_unique_unchecked", "raw_entry_mut")], detail=str(muts))


def rule_agree_parser(ctx):
    facts = ctx.facts()
    rl = roles(facts)
    key = rl.get("parse")
    if not key:
        raise AnchorError("TryFrom<&str> for Checksum not found")
    bs = models.body_summary(facts, key)
    body = bs["body"]
    loops = bs["loops"]
    if len(loops) != 1:
        # further loops that do not touch the map (counting the separators for the capacity) are not the parser's loop
        mapping = [e for e in bs["effects"] if "HashMap" in e["path"] and e["path"].split("::")[-1] in ("insert", "entry")]
        mains = [h_ for h_ in loops if any(e["bb"] in body.loops().get(h_, set()) for e in mapping)]
        if len(mains) != 1:
            raise AnchorError("checksum parser: one loop expected", key)
        loops = {mains[0]: loops[mains[0]]}
    h, (nb, it, npath) = next(iter(loops.items()))
    item = models._region(("some", ("call", npath, (it,), nb)))
    CITEM = ("Item", ",", ("Input", 1))
    ctx.ob("AGREE-K", "parser splits entries at ',' (the serialiser's entry separator)", item == CITEM, fn=key, site=body.site(nb), detail=models.show_region(item))
    ins = [e for e in bs["effects"] if e["path"].endswith("HashMap::<K, V, S, A>::insert")]
    ok = False
    det = ""
    k_ = v_ = None
    if len(ins) == 1:
        k_, v_ = ins[0]["args"][1], ins[0]["args"][2]
    elif not ins:
        # entry API: map.entry(key) ... VacantEntry::insert(slot, value) on the Vacant arm of that very entry
        ents = [e for e in bs["effects"] if e["path"].endswith("HashMap::<K, V, S, A>::entry")]
        vins = [e for e in bs["effects"] if e["path"].endswith("hash_map::VacantEntry::<'a, K, V, A>::insert") or e["path"].endswith("VacantEntry::<'a, K, V, A>::insert")]
        if len(ents) == 1 and len(vins) == 1 and any(c[0] in ("is", "callres") and c[-1] == "Vacant" and "::entry" in str(c) for c in vins[0]["catoms"]):
            k_, v_ = ents[0]["args"][1], vins[0]["args"][1]
            ins = vins
    if k_ is not None:
        det = "%s => %s" % (nshow(k_)[:100], nshow(v_)[:100])
        kr = models._region(k_[2][0]) if k_[0] == "call" and k_[1] == rl.get("lower") else None
        vv = strip_conv(v_)
        vr = models._region(vv[2][0]) if vv[0] == "agg" and vv[1][0] == "adt" and vv[1][2] == "Borrowed" else None
        ok = kr == ("RSplitL", ":", CITEM) and vr == ("RSplitR", ":", CITEM)
    ctx.ob("AGREE-K", "parser splits algorithm:hex at the LAST ':' (hex has no ':', the algorithm may)", ok, fn=key, site=ins[0]["site"] if ins else "", detail=det)
    HEXLOW = boolsum.set_of("ascii_hexdigit") & ~sum(1 << c for c in range(65, 71))
    ctx.ob("AGREE-K", "neither ',' nor ':' is in the emitted hex class [0-9a-f]", not (HEXLOW >> ord(",")) & 1 and not (HEXLOW >> ord(":")) & 1, detail="hex class computed from the serialiser's guard and to_ascii_lowercase")
    rows = [r for r in models.rejections(facts, key) if r["kind"] == "err"]
    dup = [r for r in rows if any((t[0] == "pred" and t[1].endswith("::is_some") and t[3] is True) or (t[0] in ("is", "callres") and t[-1] == "Occupied" and "HashMap" in str(t) and "::entry" in str(t)) or (t[0] in ("is", "callres") and t[-1] == "Some" and "HashMap" in str(t) and "::insert" in str(t)) for t in r["triggers"])]
    ctx.ob("AGREE-K", "a repeated (lower-cased) algorithm is refused with InvalidQualifier", len(dup) == 1 and dup[0]["error"] == "ParseError::InvalidQualifier", fn=key, site=dup[0]["site"] if dup else "", detail="")


def rule_delegation(ctx):
    facts = ctx.facts()
    rl = roles(facts)
    # insert = insert_raw(alg, encode_hex(v))
    k = rl.get("insert")
    b = facts.body(k)
    calls = [(callee_name(t["callee"]), [norm(b.resolve_operand(a)) for a in t["args"]]) for _, t in b.calls()]
    ok = len(calls) == 2 and calls[0][0] == "hex::ToHex::encode_hex" and calls[0][1] == [("arg", 3)] and calls[1][0] == rl.get("insert_raw") and calls[1][1][0] == ("arg", 1) and calls[1][1][1] == ("arg", 2) and calls[1][1][2][0] == "call" and calls[1][1][2][1] == "hex::ToHex::encode_hex"
    ctx.ob("DELEGATE", "insert(alg, v) = insert_raw(alg, v.encode_hex())", ok, fn=k, site=fn_site(facts, k), detail=str([c[0] for c in calls]))
    # get = get_value(alg).map(decode).transpose ; decode = from_hex(raw)
    k = rl.get("get")
    t = norm(facts.body(k).resolve_local(0))
    ok = t[0] == "call" and t[1].endswith("::transpose") and t[2][0][0] == "call" and t[2][0][1] == "std::option::Option::<T>::map" and t[2][0][2][0][0] == "call" and t[2][0][2][0][1] == rl.get("get_value") and t[2][0][2][0][2] == (("arg", 1), ("arg", 2))
    if ok:
        clo = t[2][0][2][1]
        ct = norm(facts.body(clo[1]).resolve_local(0))
        ok = ct[0] == "call" and ct[1].endswith("ChecksumValue::<'a>::decode")
        dk = ct[1]
        dt = norm(facts.body(dk).resolve_local(0))
        ok = ok and dt[0] == "call" and dt[1] == "hex::FromHex::from_hex" and models.field_path(dt[2][0]) == "0"
    if not ok:
        # explicit match: None -> Ok(None); Some(v) -> v.decode() handed on / wrapped in Some
        tb = facts.body(k)
        gv = [bb for bb, tt in tb.calls() if callee_name(tt["callee"]) == rl.get("get_value")]
        direct = False
        if not gv:
            # the lookup written out: self.algorithms.get(alg), the stored text handed to from_hex as it is
            gv = [bb for bb, tt in tb.calls() if callee_name(tt["callee"]).endswith("HashMap::<K, V, S, A>::get") and models.field_path(norm(tb.resolve_operand(tt["args"][0]))) == "algorithms"]
            direct = True
        decs = [callee_name(tt["callee"]) for _, tt in tb.calls() if callee_name(tt["callee"]).endswith("ChecksumValue::<'a>::decode")]
        hexes = [bb for bb, tt in tb.calls() if callee_name(tt["callee"]) == "hex::FromHex::from_hex"]
        lookup_args = [norm(tb.resolve_operand(a)) for a in tb.term(gv[0])["args"]] if len(gv) == 1 else []
        args_ok = (lookup_args == [("arg", 1), ("arg", 2)]) if not direct else (len(lookup_args) == 2 and lookup_args[1] == ("arg", 2))
        if len(gv) == 1 and (len(decs) == 1 or (not decs and len(hexes) == 1)) and not tb.back_edges() and args_ok:
            src = norm(tb.call_term(gv[0]))
            LOOK = callee_name(tb.term(gv[0])["callee"])
            good, seen_none, seen_some = True, False, False

            def dec_of_some(x):
                if decs:
                    return x[0] == "call" and x[1] == decs[0] and x[2] == (("some", src),)
                if x[0] == "call" and x[1] == "hex::FromHex::from_hex" and len(x[2]) == 1:
                    y = strip(x[2][0])
                    if not direct and y[0] == "field" and y[2] == "0":
                        y = strip(y[1])   # the text inside the ChecksumValue wrapper
                    return y == ("some", src)
                return False
            for bb, n in models.returns(tb):
                cls = models.classify_return(n)
                atoms = [models.canon_atom(a) for _, a in atoms_at(tb, bb)]
                st_ = [a[-1] for a in atoms if a[0] == "callres" and a[1] == LOOK]
                if st_ == ["None"] and cls[0] == "ok" and cls[1][0] == "agg" and cls[1][1][2] == "None":
                    seen_none = True
                elif st_ and st_[0] == "Some" and cls[0] == "propagate" and dec_of_some(cls[1]):
                    pass
                elif st_ and st_[0] == "Some" and cls[0] == "ok" and cls[1][0] == "agg" and cls[1][1][2] == "Some" and cls[1][2][0][0] == "ok" and dec_of_some(cls[1][2][0][1]):
                    seen_some = True
                elif st_ and st_[0] == "Some" and cls[0] == "tail" and cls[1][1] == "std::result::Result::<T, E>::map" and dec_of_some(cls[1][2][0]) and cls[1][2][1][0] == "fn" and cls[1][2][1][1].split("::")[-1] == "Some":
                    seen_some = True
                else:
                    good = False
            ok = good and seen_none and seen_some
            if ok and decs:
                dt = norm(facts.body(decs[0]).resolve_local(0))
                ok = dt[0] == "call" and dt[1] == "hex::FromHex::from_hex" and models.field_path(dt[2][0]) == "0"
    ctx.ob("DELEGATE", "get(alg) = get_value(alg).map(|v| from_hex(v.raw)).transpose()", ok, fn=k, site=fn_site(facts, k), detail=nshow(t)[:160])
    k = rl.get("get_value")
    t = norm(facts.body(k).resolve_local(0))
    def is_map_lookup(x):
        return x[0] == "call" and x[1].endswith("HashMap::<K, V, S, A>::get") and models.field_path(x[2][0]) == "algorithms" and x[2][1] == ("arg", 2)

    def raw_lookup(x):
        """algorithms.get(alg), or get_raw(alg) when that is algorithms.get(alg).map(|v| &**v)"""
        if is_map_lookup(x):
            return True
        if x[0] == "call" and x[1] == rl.get("get_raw") and x[2] == (("arg", 1), ("arg", 2)):
            rt = norm(facts.body(rl["get_raw"]).resolve_local(0))
            if rt[0] == "call" and rt[1] == "std::option::Option::<T>::map" and is_map_lookup(rt[2][0]) and rt[2][1][0] == "closure":
                ct = norm(facts.body(rt[2][1][1]).resolve_local(0))
                return ct == ("arg", 2)  # the identity view &**v
        return False
    wrap = t[2][1] if t[0] == "call" and t[1] == "std::option::Option::<T>::map" and len(t[2]) == 2 else None
    okw = False
    if wrap is not None and wrap[0] == "fn":
        okw = wrap[1].endswith("ChecksumValue")
    elif wrap is not None and wrap[0] == "closure" and wrap[1] in facts.bodies:
        ct = norm(facts.body(wrap[1]).resolve_local(0))
        okw = ct[0] == "agg" and ct[1][0] == "adt" and ct[1][1].endswith("ChecksumValue") and len(ct[2]) == 1 and ct[2][0] == ("arg", 2)
    ok = t[0] == "call" and t[1] == "std::option::Option::<T>::map" and raw_lookup(t[2][0]) and okw
    ctx.ob("DELEGATE", "get_value(alg) = self.algorithms.get(alg).map(ChecksumValue)", ok, fn=k, site=fn_site(facts, k), detail=nshow(t)[:160])
    # insert_raw: replace the value of an existing (exact) key, else insert under the lower-cased key
    k = rl.get("insert_raw")
    bs = models.body_summary(facts, k)
    ins = [e for e in bs["effects"] if e["path"].endswith("::insert")]
    gm = [e for e in bs["effects"] if e["path"].endswith("::get_mut")]
    ok = len(ins) == 1 and len(gm) == 1 and any(c[0] == "callres" and c[1].endswith("::get_mut") and c[-1] == "None" for c in ins[0]["catoms"])
    ctx.ob("DELEGATE", "insert_raw: existing exact key -> value replaced; otherwise insert(copy_as_lowercase(alg), value)", ok, fn=k, site=fn_site(facts, k), detail="")


def rule_build_canon(ctx):
    facts = ctx.facts()
    bm = models.builder_model(facts)
    st = bm["stages"]
    body = bm["body"]
    ok = len(st["S4get"]) == 1 and len(st["S4ser"]) == 1 and len(st["S4ins"]) == 1 and len(st["S5"]) == 1
    if ok:
        ok = body.dominates(st["S4get"][0]["bb"], st["S5"][0]["bb"]) and body.dominates(st["S4ser"][0]["bb"], st["S4ins"][0]["bb"])
    ctx.ob("BUILD-CANON", "build() re-serialises a present checksum qualifier before constructing the PURL (details: C04 BM-ORDER)", ok, fn=bm["key"], site=fn_site(facts, bm["key"]), detail="")
    if ok:
        # the rewrite happens whenever the typed get returned Some: its path condition mentions nothing else
        ins = st["S4ins"][0]
        allowed = []
        extra = []
        for c in ins["catoms"]:
            if c[0] == "callres" and c[-1] in ("Ok?", "Ok") and (c[1] in ("PurlShape::finish", st["S4ser"][0]["path"]) or c[1].endswith("try_get_typed")):
                allowed.append(c)
            elif c[0] == "empty" and c[1] == ("Field", "arg1.parts.name") and c[2] is False:
                allowed.append(c)
            elif c[0] == "is" and c[2] == "Some" and "try_get_typed" in str(c[1]):
                allowed.append(c)
            else:
                extra.append(show_canon(c)[:100])
        ctx.ob("BUILD-CANON", "the checksum rewrite is unconditional once a checksum qualifier is present", not extra, fn=bm["key"], site=ins["site"], detail="additional conditions: %s" % extra)
        vterm = ins["args"][2]
        while vterm[0] == "conv":
            vterm = vterm[1]
        okv = vterm[0] == "ok" and vterm[1][0] == "call" and vterm[1][1] == st["S4ser"][0]["path"] and vterm[1][2][0][0] == "some" and vterm[1][2][0][1][0] == "ok" and vterm[1][2][0][1][1][0] == "call" and vterm[1][2][0][1][1][1].endswith("try_get_typed")
        ctx.ob("BUILD-CANON", "the value written back is serialise(parse(current checksum text))", okv, fn=bm["key"], site=ins["site"], detail=nshow(vterm)[:160])
    # try_get_typed::<Checksum> = get(KEY).map(try_from).transpose
    ks = [k for k, f in facts.fns.items() if f.get("name") == "try_get_typed"]
    t = norm(facts.body(ks[0]).resolve_local(0))
    ok = t[0] == "call" and t[1].endswith("::transpose") and t[2][0][1] == "std::option::Option::<T>::map" and t[2][0][2][0][0] == "call" and t[2][0][2][0][1].endswith("Qualifiers::get")
    if not ok:
        # the same as an explicit match: None -> Ok(None); Some(v) -> Q::try_from(v).map(Some) (or with `?` and Ok(Some(..)))
        tb = facts.body(ks[0])
        rets = [(bb, models.classify_return(n)) for (bb, n) in models.returns(tb)]
        gets = [bb for bb, tt in tb.calls() if callee_name(tt["callee"]).endswith("Qualifiers::get")]
        if len(gets) == 1 and not tb.back_edges() and len(rets) >= 2:
            good = True
            seen_none = seen_some = False
            for bb, cls in rets:
                atoms = [models.canon_atom(a) for _, a in atoms_at(tb, bb)]
                on_none = any(a[0] == "callres" and a[1].endswith("Qualifiers::get") and a[-1] == "None" for a in atoms)
                on_some = any(a[0] == "callres" and a[1].endswith("Qualifiers::get") and a[-1] == "Some" for a in atoms)
                if on_none and cls[0] == "ok" and cls[1][0] == "agg" and cls[1][1][2] == "None":
                    seen_none = True
                elif on_some and cls[0] == "tail" and cls[1][1] == "std::result::Result::<T, E>::map" and cls[1][2][0][0] == "call" and cls[1][2][0][1] == "std::convert::TryFrom::try_from" \
                        and cls[1][2][0][2][0] == ("some", tb and norm(tb.call_term(gets[0]))) and cls[1][2][1][0] == "fn" and cls[1][2][1][1].split("::")[-1] == "Some":
                    seen_some = True
                elif on_some and cls[0] == "propagate" and cls[1][0] == "call" and cls[1][1] == "std::convert::TryFrom::try_from":
                    seen_some = seen_some
                elif on_some and cls[0] == "ok" and cls[1][0] == "agg" and cls[1][1][2] == "Some" and cls[1][2][0][0] == "ok" and cls[1][2][0][1][0] == "call" and cls[1][2][0][1][1] == "std::convert::TryFrom::try_from":
                    seen_some = True
                elif on_some and cls[0] == "err" and cls[1][0] == "err" and cls[1][1][0] == "call" and cls[1][1][1] == "std::convert::TryFrom::try_from":
                    pass  # Some(Err(e)) => Err(e): the conversion's error handed on (what transpose does)
                else:
                    good = False
            ok = good and seen_none and seen_some
    ctx.ob("BUILD-CANON", "try_get_typed = get(Q::KEY).map(Q::try_from).transpose()", ok, fn=ks[0], site=fn_site(facts, ks[0]), detail=nshow(t)[:200])
    kc = facts.consts.get("<qualifiers::well_known::Checksum<'_> as qualifiers::well_known::KnownQualifierKey>::KEY")
    ctx.ob("BUILD-CANON", "Checksum::KEY = \"checksum\"", kc is not None and kc["v"] == "checksum", detail=str(kc and kc["v"]))


def rule_controls(ctx):
    from . import controls
    if ctx.tier == 'thorough':
        controls.control_sort_taint(ctx)


RULES = [
    ("CONTROL", rule_controls, 0),
    ("SORT-TAINT", lambda ctx: (rule_serializer(ctx), rule_sort_taint_others(ctx)), 8),  # serialiser: 7 obligations + at least one accessor site
    ("HEX-GUARD", lambda ctx: None, 3),
    ("AGREE-K", rule_agree_parser, 3),
    ("KEY-LOWER", rule_key_lower, 4),
    ("GUARDXFORM", lambda ctx: None, 3),
    ("DELEGATE", rule_delegation, 4),
    ("BUILD-CANON", rule_build_canon, 3),
]

MANIFEST = {
    "text": "Static decision of hash-order independence (taint rule: HashMap iteration -> collect -> sort by algorithm -> emit; other iterations are returned to the caller, never serialised), lower-case provenance of every map key with a model-level proof that the lower-caser equals char::to_lowercase on every char class, hex guards with failing edges, separator agreement between serialiser and parser, and delegation shape of the typed accessors.",
    "note": "Trusted: rustc MIR, extractor, HashMap/sort/hex semantics, Unicode lower-case table (python unicodedata). Not decided: hex encode/decode being inverse; HashMap replacing on equal keys.",
    "technique": "taint/dominance rule over iteration-to-sink flows; key provenance by origin resolution; scan-then-act transducer summary over Unicode char classes; guard atoms with failing-edge analysis",
    "design_ref": "DESIGN.md 5.12",
}
