"""C17 -- behaviour does not depend on optional feature flags (DESIGN.md 5.17): translation validation between configurations."""
import json
from purlsa.core import AnchorError
from purlsa import xconf
from .common import fn_site

LEVEL = "translation_validation"
EXPLANATION = (
    "Cross-configuration translation validation on the compiler's IR: the library is re-extracted under each feature set and every body present in two "
    "feature sets is compared structurally after normalisation (locals and blocks renumbered in reverse post-order, spans erased, the SmallString alias "
    "unified, unresolved callee paths printed); bodies present under only one feature set must be exactly the cfg-gated items; evaluated constants must be "
    "byte-identical. A `#[cfg(feature = ..)]` statement, a `cfg!()` expression or a feature-dependent constant inside a shared function shows up as a differing body."
)
RULE_TEXT = "programs = (feature-set pair, shared body) comparisons; a disagreement is any normal-form difference; plus one obligation per body that exists under only one feature set (must match the gated-item table) and per shared constant"
ASSUMPTIONS = [
    "String and smartstring::SmartString<LazyCompact> are observationally equivalent for the method pairs used (new, is_empty, push, push_str, len, as_str, Default, Deref, DerefMut, From<&str>, From<String>, Extend<char>, FromIterator<char>, fmt::Write, Ord/Eq/Hash, make_ascii_lowercase via DerefMut)",
    "error texts are thiserror format strings, i.e. constants inside the compared Display bodies",
]
TRUSTED_BASE = ["rustc (same front end builds every configuration)", "the normaliser in engine/purlsa/xconf.py"]

GATED = {
    ("default", "pt"): (lambda k: k.startswith("<smartstring::SmartString<M> as PurlShape>") or k.startswith("<SmallString<M> as PurlShape>"), "impl PurlShape for SmartString<M> (feature smartstring)"),
    ("pt", "none"): (lambda k: k.startswith("package_type::") or k.startswith("<package_type::") or k.startswith("GenericPurl::<package_type::PackageType>::"), "module package_type and impl Purl (feature package-type)"),
    ("default", "none"): (lambda k: k.startswith("package_type::") or k.startswith("<package_type::") or k.startswith("GenericPurl::<package_type::PackageType>::") or k.startswith("<smartstring::SmartString<M> as PurlShape>"), "package-type and smartstring items"),
    ("serde", "default"): (lambda k: "::ser::" in k or "::de::" in k or k == "package_type::_" or k.startswith("package_type::_::") or k.startswith("<package_type::_::") or "_serde" in k, "serde ser/de modules and derives (feature serde)"),
}


def rule_xconf(ctx):
    pairs = [("default", "pt"), ("pt", "none"), ("default", "none")]
    if ctx.tier == "thorough":
        pairs.append(("serde", "default"))
    else:
        pairs.append(("serde", "default"))  # cheap enough for the quick tier too
    programs = 0
    checked = 0
    nf_cache = {}

    def nf(fs, key):
        if (fs, key) not in nf_cache:
            nf_cache[(fs, key)] = xconf.normal_form(ctx.facts(fs).bodies[key])
        return nf_cache[(fs, key)]

    for (a, b) in pairs:
        fa, fb = ctx.facts(a), ctx.facts(b)
        ka = {xconf.map_key(k): k for k in fa.bodies}
        kb = {xconf.map_key(k): k for k in fb.bodies}
        shared = sorted(set(ka) & set(kb))
        only_a = sorted(set(ka) - set(kb))
        only_b = sorted(set(kb) - set(ka))
        ndiff = 0
        for k in shared:
            programs += 1
            x, y = nf(a, ka[k]), nf(b, kb[k])
            if x != y:
                ndiff += 1
                checked += 1
                ctx.ob("XCONF", "[%s vs %s] body %s is identical" % (a, b, k), False, fn=ka[k], site=fn_site(fa, ka[k]), detail=xconf.first_diff(x, y))
        ctx.ob("XCONF", "[%s vs %s] all %d shared bodies are structurally identical" % (a, b, len(shared)), ndiff == 0, detail="%d shared, %d differ; only in %s: %d; only in %s: %d" % (len(shared), ndiff, a, len(only_a), b, len(only_b)))
        pred, what = GATED[(a, b)]
        # a private helper that exists only under the larger feature set and is called from gated items only is gated with
        # them (a helper extracted from `impl Purl`, say): no body the two configurations share can reach it
        callers = {}
        for k2, b2 in fa.bodies.items():
            root2 = b2.j.get("root", k2) if b2.kind == "closure" else k2
            for _, t2 in b2.calls(include_cleanup=True):
                if "path" in t2["callee"]:
                    from purlsa.core import callee_name as _cn
                    callers.setdefault(_cn(t2["callee"]), set()).add(xconf.map_key(root2))
        # .. and a private `const` that only gated items read (`#[cfg(feature = ..)] const SEPARATOR: char = '/';` next
        # to the gated impl that uses it): users of each named constant, from the unevaluated constant operands
        def _const_defs(x, acc):
            if isinstance(x, dict):
                if x.get("k") == "unevaluated" and x.get("def") and x.get("promoted") is None:
                    acc.add(x["def"])
                for v_ in x.values():
                    _const_defs(v_, acc)
            elif isinstance(x, list):
                for v_ in x:
                    _const_defs(v_, acc)
        for k2, b2 in fa.bodies.items():
            root2 = b2.j.get("root", k2) if b2.kind == "closure" else k2
            acc = set()
            _const_defs(b2.j.get("blocks", []), acc)
            for d_ in acc:
                if d_ != k2:
                    callers.setdefault(d_, set()).add(xconf.map_key(root2))
        gated_set = set(k for k in only_a if pred(k))
        changed = True
        while changed:
            changed = False
            for k in only_a:
                if k in gated_set:
                    continue
                f_ = fa.fns.get(ka[k], {})
                root = fa.bodies[ka[k]].j.get("root") if fa.bodies[ka[k]].kind == "closure" else None
                if root is not None and xconf.map_key(root) in gated_set:
                    gated_set.add(k)
                    changed = True
                    continue
                cs = callers.get(ka[k], set())
                st_ = (f_.get("impl_self") or "").split("<")[0] if f_ else ""
                adt_ = fa.adts.get(st_) if st_ else None
                # a trait impl counts like a helper when it is for a private type of the crate (`impl From<PackageType> for
                # CombinedNameStyle`): only the crate's own (gated) code can call it
                private_impl = bool(f_) and "impl_trait_def" in f_ and adt_ is not None and adt_.get("vis") != "pub" and not adt_.get("reachable")
                if f_ and not f_.get("exported") and ("impl_trait_def" not in f_ or private_impl) and cs and cs <= gated_set:
                    gated_set.add(k)
                    changed = True
                elif private_impl and st_ in fa.adts and st_ not in fb.adts and cs <= gated_set:
                    # an impl (derived Clone / Copy / Debug ..) of a private type that itself exists under the larger feature
                    # set only: nothing the configurations share can name the type
                    gated_set.add(k)
                    changed = True
                elif not f_ and fa.bodies[ka[k]].kind in ("const", "static") and cs and cs <= gated_set:
                    gated_set.add(k)
                    changed = True
        for k in only_a:
            ctx.ob("XCONF", "[%s vs %s] body only under %s is a gated item: %s" % (a, b, a, k), k in gated_set, fn=ka[k], site=fn_site(fa, ka[k]), detail=what + (" (private helper called from gated items only)" if not pred(k) and k in gated_set else ""), nontrivial=False)
        for k in only_b:
            ctx.ob("XCONF", "[%s vs %s] no body exists only under the smaller feature set: %s" % (a, b, k), False, fn=kb[k], site=fn_site(fb, kb[k]), detail="present under %s but not under %s" % (b, a))
        # constants
        ca = {xconf.map_key(k): v for k, v in fa.consts.items()}
        cb = {xconf.map_key(k): v for k, v in fb.consts.items()}
        nc = 0
        for k in sorted(set(ca) & set(cb)):
            nc += 1
            same = json.dumps(ca[k]["v"], sort_keys=True) == json.dumps(cb[k]["v"], sort_keys=True)
            if not same:
                ctx.ob("XCONF", "[%s vs %s] constant %s has the same evaluated value" % (a, b, k), False, fn=k, detail="%s vs %s" % (json.dumps(ca[k]["v"])[:100], json.dumps(cb[k]["v"])[:100]))
        ctx.ob("XCONF", "[%s vs %s] all %d shared constants have identical evaluated values" % (a, b, nc), True if nc else False, detail="", nontrivial=nc > 0)
        # public API surface: same set of reachable fn names for shared impls
    ctx.programs = programs
    ctx.disagreements_checked = checked
    ctx.note("bodies compared: %d" % programs)


THOROUGH_FS = []

RULES = [("XCONF", rule_xconf, 8)]

MANIFEST = {
    "text": "Translation validation between feature configurations on rustc's MIR: every body shared by two feature sets is structurally identical after normalisation (renumbering, span erasure, SmallString alias unification); bodies existing under one feature set only are exactly the cfg-gated items; evaluated constants are identical. This decides, for all inputs, that no shared function's code depends on a feature flag.",
    "note": "Trusted: rustc, the normaliser; assumes String/SmartString observational equivalence for the listed method pairs (a dependency property). Compares code, not executions.",
    "technique": "cross-configuration structural diff of normalised MIR (translation validation between feature sets)",
    "design_ref": "DESIGN.md 5.17",
}
