"""GUARDXFORM and FST-PYPI: model-level rules for the scan-then-act lower-casers and the pypi transducer
(DESIGN.md 5.8 / 5.12).  Shared by C08 (lowercase_in_place, fix_pypi_name) and C12 (copy_as_lowercase)."""
from purlsa.core import AnchorError, strip, callee_name
from purlsa.sem import norm, nshow, atoms_at
from purlsa import boolsum, models, scanact
from .common import fn_site

AZ = sum(1 << c for c in range(65, 91))


def differs(action):
    """bitset of chars c for which the per-char action differs from char::to_lowercase(c)"""
    lc = boolsum.set_of("lower_changes")
    if action == "id":
        return lc
    if action == "ascii_lower":
        return lc & ~AZ
    if action == "unicode_lower":
        return 0
    raise AnchorError("unknown action %s" % action)


def is_lower_closure(facts, clo):
    if clo[0] == "fn":
        return clo[1].endswith("<impl char>::to_lowercase")
    if clo[0] != "closure" or clo[1] not in facts.bodies:
        return False
    t = norm(facts.body(clo[1]).resolve_local(0))
    return t[0] == "call" and t[1].endswith("::to_lowercase") and t[2] == (("arg", 2),)


def is_unicode_lower_of(facts, t, subject_ok):
    """t == collect(flat_map(chars(SUBJECT), |c| c.to_lowercase()))"""
    t = strip_conv(t)
    if t[0] == "call" and t[1] == "std::iter::Iterator::collect":
        fm = t[2][0]
        if fm[0] == "call" and fm[1] == "std::iter::Iterator::flat_map":
            src, clo = fm[2]
            if src[0] == "call" and src[1] == scanact.CHARS and subject_ok(src[2][0]) and is_lower_closure(facts, clo):
                return True
    return False


def strip_conv(t):
    while t[0] == "conv":
        t = t[1]
    return t


def sname(v):
    """printable name of a scan state: the variant's name (with the constants it carries), or true/false for a flag"""
    if v[0] == "variant" and len(v) > 3:
        return "%s(%s)" % (v[2], ", ".join(str(x).lower() if isinstance(x, bool) else str(x) for x in v[3]))
    return v[2] if v[0] == "variant" else str(v[1])


def exit_region(body, S, loop_blocks, start, state):
    """blocks that can execute after the scan leaves the loop at `start` with the scan state `state`: every test of the
    state on the way is resolved with that value, every other branch is followed both ways.  With several state variables
    (S a tuple of locals, state a dict local -> value) each test is resolved with the value of the variable it reads."""
    multi = state if isinstance(state, dict) else None
    state0 = state
    seen = set()
    work = [start]
    while work:
        b = work.pop()
        if b in seen or b in loop_blocks or body.is_cleanup(b):
            continue
        seen.add(b)
        t = body.term(b)
        nxt = body.succs(b)
        if t["t"] == "switch":
            sl = scanact.switch_local(body, b)
            state = state0
            if sl is not None and multi is not None and sl[0] in multi:
                state = multi[sl[0]]
            single = None
            if sl is not None and not (sl[0] == S or (multi is not None and sl[0] in multi)):
                # a test of a variable that has one definition, a constant: decided (the `match state` that only the
                # initial value reaches once every assignment has been threaded to its own arm)
                ds_ = [d_ for d_ in body.defs().get(sl[0], []) if not body.is_cleanup(d_[0])]
                if len(ds_) == 1 and ds_[0][2] == "rv":
                    single = scanact.const_state_value(strip(body._rv_term(ds_[0][3])))
                if single is not None:
                    state = single
            if sl is not None and (sl[0] == S or (multi is not None and sl[0] in multi) or single is not None):
                local, is_d, variants_, neg = sl
                keep = []
                for (lab, tg) in body.edges(b):
                    if isinstance(is_d, tuple) and is_d[0] == "payload":
                        # the test of a constant carried by the state's variant: only meaningful in that variant
                        if state[0] == "variant" and len(state) > 3 and state[2] == is_d[1] and isinstance(state[3][is_d[2]], bool):
                            val = state[3][is_d[2]] != neg
                            if (lab == ("sw", 0) and not val) or (lab == "otherwise" and val):
                                keep.append(tg)
                        else:
                            keep.append(tg)
                    elif is_d and state[0] == "variant":
                        idx = list(variants_).index(state[2]) if state[2] in variants_ else None
                        others = [l_[1] for (l_, _) in body.edges(b) if l_ != "otherwise"]
                        if (lab != "otherwise" and lab[1] == idx) or (lab == "otherwise" and idx not in others):
                            keep.append(tg)
                    elif not is_d and state[0] == "bool":
                        val = state[1] != neg
                        if (lab == ("sw", 0) and not val) or (lab == "otherwise" and val):
                            keep.append(tg)
                    else:
                        keep.append(tg)
                nxt = keep
        work.extend(nxt)
    return seen


def post_loop_actions(facts, body, state_local, variants, subject_ok, regions=None):
    """variant -> action in {'id','ascii_lower','unicode_lower','?...'} read from the code after the scan loop."""
    acts = {}

    # which blocks are guarded by `state is V`
    def variant_of(bb):
        if regions is not None:
            return set(n_ for n_, blks in regions.items() if bb in blks)
        vs = set()
        for gb, a in atoms_at(body, bb):
            sl = scanact.switch_local(body, gb)
            if sl is not None and sl[0] == state_local and a[0] in ("is", "isin"):
                if a[0] == "is":
                    vs.add(a[2])
        return vs

    effs = models.mut_effects(body)
    for v in variants:
        acts[v] = {"effects": [], "stores": [], "ret": None}
    for e in effs:
        vs = variant_of(e["bb"])
        for v in vs:
            if v in acts:
                acts[v]["effects"].append(e)
    for (b, i, st) in [w for l in range(len(body.locals)) for w in body.partial_writes(l)]:
        if body.is_cleanup(b) or i == "term":
            continue
        if st["s"] != "assign":
            continue
        vs = variant_of(b)
        for v in vs:
            if v in acts:
                acts[v]["stores"].append((b, st))
    for (b, n) in models.returns(body):
        vs = variant_of(b)
        for v in vs:
            if v in acts:
                acts[v]["ret"] = (b, norm(body._rv_term(next(d[3] for d in body.defs()[0] if d[0] == b and d[2] == "rv")), keep_conv=True) if any(d[0] == b and d[2] == "rv" for d in body.defs()[0]) else norm(body.call_term(b), keep_conv=True))
    out = {}
    for v, a in acts.items():
        kinds = []
        lowered_vars = set()
        for e in a["effects"]:
            p = e["path"]
            if p.endswith("::make_ascii_lowercase"):
                kinds.append("ascii_lower")
                lowered_vars.add(e["target"])
            elif p.endswith("deref_mut"):
                continue
            else:
                kinds.append("?effect " + p)
        for (b, st) in a["stores"]:
            val = norm(body._rv_term(st["rv"]), keep_conv=True)
            pl = st["place"]
            through_arg = pl["l"] >= 1 and pl["l"] <= body.arg_count and any(p["p"] == "deref" for p in pl["proj"])
            if through_arg and is_unicode_lower_of(facts, val, subject_ok):
                kinds.append("unicode_lower")
            elif body.locals[pl["l"]]["ty"] == "bool" or not through_arg and pl["l"] > body.arg_count and False:
                continue
            else:
                kinds.append("?store %s" % nshow(val)[:60])
        r = a["ret"]
        if r is not None and body.locals[0]["ty"] == "()":
            r = None   # a unit function returns nothing, whatever expression its last arm ends in (`=> s.make_ascii_lowercase()`)
        if r is not None:
            rt = strip_conv(r[1])
            if is_unicode_lower_of(facts, rt, subject_ok):
                kinds.append("unicode_lower")
            elif subject_ok(rt):
                pass  # returns a copy of the text as is
            elif rt[0] == "var" and subject_ok(strip_conv(rt[2])):
                pass  # a copy that may have been lowered in place (accounted through effects)
            elif rt[0] == "const" or rt == ("agg", ("tuple",), ()):
                pass
            else:
                kinds.append("?return %s" % nshow(rt)[:60])
        if not kinds:
            out[v] = "id"
        elif len(set(kinds)) == 1:
            out[v] = kinds[0]
        else:
            out[v] = "?mixed " + ",".join(sorted(set(kinds)))
    return out


def guardxform_obligations(ctx, facts, key, rule="GUARDXFORM"):
    summ = boolsum.Summarizer(facts)
    body = facts.body(key)
    site = fn_site(facts, key)
    if not body.back_edges():
        return guardxform_quantified(ctx, facts, key, rule)
    loop = scanact.char_loop(facts, body)
    subj = norm(loop["subject"])
    ctx.ob(rule, "%s: the scan loop reads the chars of the function's text argument" % key, subj == ("arg", 1), fn=key, site=site, detail=nshow(subj))
    subject_ok = lambda t: strip_conv(t) == ("arg", 1)  # noqa: E731
    st, paths, is_elem, exit_none = scanact.loop_transitions(facts, summ, body, loop)
    if len(st) > 3:
        raise AnchorError("expected one loop-carried state variable (or up to three flags), found %d" % len(st), key)
    SL = sorted(st)
    # no state variable at all: every decision is taken on the way out (each `break` arm runs its own action, the
    # exhausted scan another) -- the product of zero flags, one state
    multi = len(SL) != 1
    if multi and not all(v[0] == "bool" for l_ in SL for v in st[l_]["values"]):
        raise AnchorError("several loop-carried state variables that are not all flags", key)
    S = SL[0] if not multi else tuple(SL)

    def pname(sd):
        """name of a (product) state: the single variable's value, or `flag1=..,flag2=..` in the order the flags are declared"""
        if not multi:
            return sname(sd[SL[0]])
        return ",".join("flag%d=%s" % (n_ + 1, sname(sd[l_])) for n_, l_ in enumerate(SL)) or "scanning"
    # initial state: the constant assigned in a block dominating the loop header
    init_sd = {}
    for l_ in SL:
        inits = []
        for (b, i, kind, payload) in body.defs()[l_]:
            if body.dominates(b, loop["header"]) and b not in loop["blocks"]:
                v = scanact.const_state_value(strip(body._rv_term(payload)))
                if v is not None:
                    inits.append(v)
        if len(inits) != 1:
            raise AnchorError("initial scan state not unique", key)
        init_sd[l_] = inits[0]
    values = {}        # name -> state dict
    if not multi:
        for v in st[S]["values"]:
            values[sname(v)] = {S: v}
    values[pname(init_sd)] = init_sd
    init = pname(init_sd)
    # partition check
    U = boolsum.universe()
    sets = [scanact.cond_set(p["conds"], facts) for p in paths]
    union = 0
    disjoint = True
    for i, a in enumerate(sets):
        if union & a:
            disjoint = False
        union |= a
    ctx.ob(rule, "%s: the loop body's branch conditions partition the char domain" % key, union == U and disjoint and not any(p["pre"] for p in paths), fn=key, site=site, detail="%d paths; union complete=%s disjoint=%s" % (len(paths), union == U, disjoint))
    # abstract run: seen[state] = chars that may have been consumed while ending up in `state`; every way out of the loop is
    # an exit (block, state, chars that the text may consist of)
    seen = {init: 0}
    reached = {init}
    breaks = {}
    changed = True
    while changed:
        changed = False
        for s_ in list(reached):
            for pi, (p, cs) in enumerate(zip(paths, sets)):
                if cs == 0:
                    continue
                asg = {l_: p["assign"][l_] for l_ in SL if l_ in p["assign"]} or None
                sd2 = dict(values[s_])
                sd2.update(asg or {})
                s2 = pname(sd2)
                values[s2] = sd2
                if p["exit"] == "continue":
                    new = seen.get(s_, 0) | cs
                    if s2 not in reached or (seen.get(s2, 0) | new) != seen.get(s2, 0):
                        reached.add(s2)
                        seen[s2] = seen.get(s2, 0) | new
                        changed = True
                elif p["exit"] == "break":
                    if (pi, s2) not in breaks:
                        # what runs after leaving starts with the first block outside the loop (a `break` arm's own
                        # blocks are part of the iteration for the state they set, and of the exit for what they do)
                        outside_ = [b_ for b_ in p["blocks"] if b_ not in loop["blocks"]]
                        breaks[(pi, s2)] = (outside_[0] if outside_ else p["blocks"][-1], asg is not None)
                        changed = True
                else:
                    raise AnchorError("loop path leaves the function", key)
    if exit_none is None:
        raise AnchorError("scan loop has no exhaustion exit", key)
    # group the exits by the code they run afterwards
    exits = []   # (name, region, chars)
    for s_ in sorted(reached):
        exits.append(("done", s_, exit_region(body, S, loop["blocks"], exit_none, values[s_] if multi else values[s_][S]), seen.get(s_, 0)))
    for (pi, s2), (xb, assigned) in sorted(breaks.items(), key=lambda kv: (kv[0][1], kv[0][0])):
        exits.append(("break", s2, exit_region(body, S, loop["blocks"], xb, values[s2] if multi else values[s2][S]), U))   # the unscanned rest is arbitrary
    groups = {}
    for kind, s_, region, chars in exits:
        groups.setdefault(s_, []).append((kind, region, chars))
    regions = {}
    final = {}
    for s_, members in groups.items():
        # exits in the same state run the same code, unless an early exit is routed past the state match (a `return` of an
        # inlined scan helper, an `Err(())` of a try_fold): then it is a final situation of its own
        base = [m for m in members if m[0] == "done"] or members
        same = [m for m in members if m[1] == base[0][1]]
        diff = [m for m in members if m[1] != base[0][1]]
        regions[s_] = base[0][1]
        final[s_] = 0
        for m in same:
            final[s_] |= m[2]
        for n_, m in enumerate(diff):
            nm = "early exit %d from %s" % (n_ + 1, s_) if len(diff) > 1 else "early exit from %s" % s_
            regions[nm] = m[1]
            final[nm] = m[2]
    # code common to every exit says nothing about any of them
    common = set.intersection(*regions.values()) if regions else set()
    regions = {n_: r_ - common for n_, r_ in regions.items()}
    variants = sorted(regions)
    actions = post_loop_actions(facts, body, S, variants, subject_ok, regions=regions)
    for v in sorted(set(values) | set(variants)):
        if v not in final:
            ctx.ob(rule, "%s: state %s is unreachable" % (key, v), True, fn=key, site=site, detail="no transition leads to it", nontrivial=False)
            continue
        act = actions.get(v, "?none")
        if act.startswith("?"):
            ctx.ob(rule, "%s: action taken in final state %s is understood" % (key, v), False, fn=key, site=site, detail=act)
            continue
        bad = final[v] & differs(act)
        n = bin(bad).count("1")
        ex = boolsum.set_to_ranges(bad, limit=6)
        ctx.ob(rule, "%s: in final state %s the action `%s` equals char::to_lowercase on every char that can occur" % (key, v, act), bad == 0, fn=key, site=site, detail="chars that can occur: %d; of these mishandled: %d%s" % (bin(final[v]).count("1"), n, (" e.g. " + ex) if n else ""))
    return {"init": init, "variants": variants, "actions": actions}


# ---------------------------------------------------------------------------------------------- FST-PYPI
def _lowercase_of_elem(t, is_elem):
    """t = to_lowercase(elem), possibly as the iterator it was turned into (a rolled `for x in c.to_lowercase()` loop)"""
    for _ in range(4):
        if t[0] == "var" and len(t) > 2:
            t = t[2]
        elif t[0] == "call" and "into_iter" in t[1] and len(t[2]) == 1:
            t = t[2][0]
        else:
            break
    return t[0] == "call" and t[1].endswith("::to_lowercase") and len(t[2]) == 1 and is_elem(t[2][0])


def fst_pypi_obligations(ctx, facts, key, lowercaser_key, rule="FST-PYPI"):
    summ = boolsum.Summarizer(facts)
    body = facts.body(key)
    site = fn_site(facts, key)
    loop = scanact.char_loop(facts, body)
    st, paths, is_elem, exit_none = scanact.loop_transitions(facts, summ, body, loop)
    subj = norm(loop["subject"])
    # the scan may start at the first dash char, the part before it lower-cased as a whole (see `prefixed` below)
    SPLIT_AT = "core::str::<impl str>::split_at"
    FIND = "core::str::<impl str>::find"
    prefixed = None
    if subj[0] == "field" and subj[2] == "1" and subj[1][0] == "call" and subj[1][1] == SPLIT_AT and subj[1][2][0] == ("arg", 1):
        pos = subj[1][2][1]
        if pos[0] in ("some", "ok") and pos[1][0] == "call" and pos[1][1] == FIND and pos[1][2][0] == ("arg", 1) and set(models.const_chars_t(pos[1][2][1]) or ()) == {45, 95, 46}:
            prefixed = subj[1]
    ctx.ob(rule, "the loop reads the chars of the name", subj == ("arg", 1) or prefixed is not None, fn=key, site=site, detail=nshow(subj))
    if len(st) != 1:
        raise AnchorError("pypi normaliser: expected one loop-carried flag, found %d" % len(st), key)
    S = next(iter(st))
    DASH = (1 << ord("-")) | (1 << ord("_")) | (1 << ord("."))
    U = boolsum.universe()
    table = {}
    acc = None
    # paths that do the same thing are one transition: their character sets unite (`c.is_ascii() && sep(c as u8)` puts
    # the non-separators on two paths, the non-ASCII ones and the ASCII ones)
    merged = {}
    for p in paths:
        sig = (repr(sorted((k_, repr(v_)) for k_, v_ in p["pre"].items())), repr([(e[0], e[1], e[2]) for e in p["effects"]]), repr(sorted(p["assign"].items())), p["exit"])
        cs = scanact.cond_set(p["conds"], facts)
        if sig in merged:
            merged[sig][1] |= cs
        else:
            merged[sig] = [p, cs]
    for p, cs in merged.values():
        cls = "dash" if cs == DASH else "other" if cs == (U & ~DASH) else "?%s" % boolsum.set_to_ranges(cs, 6)
        pres = p["pre"].get(S)
        pre = None
        if pres:
            vals = set.intersection(*[set(x[1]) for x in pres if x[0] == "in"]) if all(x[0] == "in" for x in pres) else None
            pre = tuple(sorted(v[1] for v in vals)) if vals is not None else "?"
        else:
            pre = (False, True)
        eff = []
        for e in p["effects"]:
            pth, tgt, args, _ = e
            if pth.endswith("::push") and models.cchar(args[1]) is not None:
                eff.append(("emit", models.cchar(args[1])))
                acc = tgt
            elif pth.endswith("::extend") and _lowercase_of_elem(args[1], is_elem):
                eff.append(("emit-lower",))
                acc = tgt
            elif pth.endswith("deref_mut"):
                continue
            else:
                eff.append(("?", pth))
        asg = p["assign"].get(S)
        if asg and isinstance(pre, tuple) and pre == (asg[1],):
            asg = None   # re-assigning the only value the flag can have on this path (`mem::replace(&mut flag, true)`)
        table[(cls, pre)] = (tuple(eff), asg[1] if asg else None, p["exit"])
    want = {
        ("dash", (False,)): ((("emit", "-"),), True, "continue"),
        ("dash", (True,)): ((), None, "continue"),
        ("other", (False, True)): ((("emit-lower",),), False, "continue"),
    }
    for k, w in want.items():
        got = table.get(k)
        ctx.ob(rule, "transition (%s, in_dash in %s) -> emit %s, in_dash := %s" % (k[0], list(k[1]), [e for e in w[0]], w[1]), got == w, fn=key, site=site, detail="extracted: %s" % (got,))
    extra = [k for k in table if k not in want]
    ctx.ob(rule, "no other transition", not extra, fn=key, site=site, detail=str(extra))
    # initial flag False, fresh accumulator, result stored into *name
    inits = [scanact.const_state_value(strip(body._rv_term(d[3]))) for d in body.defs()[S] if body.dominates(d[0], loop["header"]) and d[0] not in loop["blocks"]]
    ctx.ob(rule, "in_dash starts false", inits == [("bool", False)], fn=key, site=site, detail=str(inits))
    stores = []
    for l in range(1, body.arg_count + 1):
        for (b, i, st_) in body.partial_writes(l):
            if not body.is_cleanup(b) and i != "term" and st_["s"] == "assign":
                stores.append((b, norm(body._rv_term(st_["rv"]))))
    oks = len(stores) == 1 and acc is not None and stores[0][1][0] == "var" and stores[0][1][1] == acc[1] and stores[0][1][2][0] == "call" and stores[0][0] in body.reachable_from(exit_none)
    if oks and prefixed is None:
        oks = stores[0][1][2][1].endswith("::new")
    elif oks:
        # result = lower(head) ++ T(tail) with (head, tail) = name.split_at(name.find(DASH)).  head holds no dash char, and
        # on a non-dash char the transducer emits lower(c) and leaves in_dash false from either state (the `other` row
        # checked above), so running it over head from the initial state yields lower(head) and ends in that state:
        # the same as scanning the whole name.  lower(head) must come from a lower-caser verified char by char.
        init = stores[0][1][2]
        lk = init[1]
        other_row = table.get(("other", (False, True))) == want[("other", (False, True))]
        if is_unicode_lower_of(facts, init, lambda t_: norm(t_) == ("field", prefixed, "0")):
            # lower(head) spelled out: head.chars().flat_map(char::to_lowercase).collect() -- the per-char mapping itself
            oks = other_row
        else:
            oks = lk in facts.bodies and len(init[2]) == 1 and norm(init[2][0]) == ("field", prefixed, "0") and other_row
            if oks:
                guardxform_obligations(ctx, facts, lk, rule)
    ctx.ob(rule, "after the loop `*name = result` with result started empty" + (" (or as the lower-cased dash-free head)" if prefixed is not None else ""), oks, fn=key, site=site, detail=str([(b, nshow(t)[:80]) for b, t in stores]))
    # the two branches: slow path iff contains(DASH); fast path = the checked lower-caser
    pre_atoms = [models.canon_atom(a) for _, a in atoms_at(body, loop["header"])]
    okpre = any(c[0] == "contains-any" and set(c[1]) == {45, 95, 46} and c[2] == ("Input", 1) and c[3] is True for c in pre_atoms)
    ctx.ob(rule, "the transducer runs iff the name contains one of '-', '_', '.'", okpre, fn=key, site=site, detail="; ".join(models.show_canon(c) for c in pre_atoms))
    fast = []
    for bb, t in body.calls():
        if callee_name(t["callee"]) == lowercaser_key:
            at = [models.canon_atom(a) for _, a in atoms_at(body, bb)]
            fast.append((bb, at, norm(body.resolve_operand(t["args"][0]))))
    okf = len(fast) == 1 and any(c[0] == "contains-any" and c[3] is False for c in fast[0][1]) and fast[0][2] == ("arg", 1)
    ctx.ob(rule, "otherwise the name is lower-cased by the nuget normaliser (equivalent: no dash char => every char maps to lower(c))", okf, fn=key, site=site, detail=str([(b, [models.show_canon(c) for c in a]) for b, a, _ in fast]))
    # lower-case mappings never produce a dash char (needed for idempotence, C10) -- Unicode table fact
    return table


# ---------------------------------------------------------------------------------------------- generic transducer idempotence
def fst_generic(facts, key):
    """Extract the char-loop transducer of `key` in a generic form:
    {"init": state, "trans": [(class_bitset, frozenset(pre_states), outputs, next_state|None)], "states": set}
    outputs: list of ("const", ch) | ("lower",)   (emit the lower-case mapping of the char read)."""
    summ = boolsum.Summarizer(facts)
    body = facts.body(key)
    loop = scanact.char_loop(facts, body)
    st, paths_, is_elem, exit_none = scanact.loop_transitions(facts, summ, body, loop)
    if len(st) != 1:
        raise AnchorError("transducer: expected one loop-carried flag", key)
    S = next(iter(st))
    states = set(v for v in st[S]["values"])
    inits = [scanact.const_state_value(strip(body._rv_term(d[3]))) for d in body.defs()[S] if body.dominates(d[0], loop["header"]) and d[0] not in loop["blocks"]]
    if len(inits) != 1:
        raise AnchorError("transducer: initial state not unique", key)
    trans = []
    for p in paths_:
        if p["exit"] != "continue":
            raise AnchorError("transducer: a loop path leaves the loop early", key)
        cs = scanact.cond_set(p["conds"], facts)
        pres = p["pre"].get(S)
        if pres:
            if not all(x[0] == "in" for x in pres):
                raise AnchorError("transducer: state test not understood", key)
            pre = frozenset(set.intersection(*[set(x[1]) for x in pres]))
        else:
            pre = frozenset(states)
        outs = []
        for e in p["effects"]:
            pth, tgt, args, _ = e
            if pth.endswith("::push") and models.cchar(args[1]) is not None:
                outs.append(("const", ord(models.cchar(args[1]))))
            elif pth.endswith("::extend") and _lowercase_of_elem(args[1], is_elem):
                outs.append(("lower",))
            elif pth.endswith("::push") and is_elem(args[1]):
                outs.append(("same",))
            elif pth.endswith("deref_mut"):
                continue
            else:
                raise AnchorError("transducer: effect %s not understood" % pth, key)
        trans.append((cs, pre, tuple(outs), p["assign"].get(S)))
    return {"init": inits[0], "trans": trans, "states": states}


def image_lower(bits_):
    """bitset of { chars of lower(c) : c in bits_ } and whether every c in bits_ maps to a single char"""
    lc = boolsum.set_of("lower_changes")
    out = bits_ & ~lc
    ch_ = bits_ & lc
    c = 0
    v = ch_
    multi = False
    while v:
        if not (v & 0xFFFFFFFFFFFFFFFF):
            v >>= 64
            c += 64
            continue
        if v & 1:
            lo = chr(c).lower()
            if len(lo) != 1:
                multi = True
            for x in lo:
                out |= 1 << ord(x)
        v >>= 1
        c += 1
    return out, multi


def transducer_idempotent(fst):
    """Is T(T(x)) = T(x) for all x?  Equivalent: T is the identity on its own range.  The range is described by the output
    symbols reachable in the transducer; a product exploration checks that the second pass echoes every symbol.
    Returns (ok, detail)."""
    lc = boolsum.set_of("lower_changes")
    trans = fst["trans"]
    # symbols of the range: ("const", ch) and ("lowerof", class_bits)
    # product state: (state of pass 1, state of pass 2)
    start = (fst["init"], fst["init"])
    seen = {start}
    work = [start]
    while work:
        s1, s2 = work.pop()
        for (cs, pre, outs, nxt) in trans:
            if s1 not in pre or cs == 0:
                continue
            n1 = nxt if nxt is not None else s1
            cur2 = s2
            for o in outs:
                # the symbol written by pass 1
                if o[0] == "const":
                    sym_bits = 1 << o[1]
                elif o[0] == "lower":
                    sym_bits, _ = image_lower(cs)
                else:
                    sym_bits = cs
                # pass 2 reads one char from sym_bits in state cur2: every applicable transition must echo it and agree on the next state
                nexts = set()
                for (cs2, pre2, outs2, nxt2) in trans:
                    inter = sym_bits & cs2
                    if cur2 not in pre2 or inter == 0:
                        continue
                    if len(outs2) != 1:
                        return False, "second pass on %s of the first pass emits %s" % (describe(o, cs), [describe(x, cs2) for x in outs2])
                    o2 = outs2[0]
                    if o2[0] == "const":
                        if inter != (1 << o2[1]):
                            return False, "second pass rewrites %s into %s" % (boolsum.set_to_ranges(inter, 4), chr(o2[1]))
                    elif o2[0] == "lower":
                        if inter & lc:
                            return False, "second pass lower-cases chars of the first pass' output that are not lower-case fixed points: %s" % boolsum.set_to_ranges(inter & lc, 4)
                    nexts.add(nxt2 if nxt2 is not None else cur2)
                if not nexts:
                    return False, "second pass has no transition for %s" % describe(o, cs)
                if len(nexts) != 1:
                    # several classes, several next states: explore all
                    pass
                cur_candidates = nexts
                # continue the remaining outputs from every candidate (outputs lists are short)
                if len(cur_candidates) == 1:
                    cur2 = next(iter(cur_candidates))
                else:
                    for cnd in cur_candidates:
                        stt = (n1, cnd)
                        if stt not in seen:
                            seen.add(stt)
                            work.append(stt)
                    cur2 = next(iter(cur_candidates))
            stt = (n1, cur2)
            if stt not in seen:
                seen.add(stt)
                work.append(stt)
    return True, "%d product states explored; every symbol of the range is echoed by the second pass" % len(seen)


def describe(o, cs):
    if o[0] == "const":
        return repr(chr(o[1]))
    if o[0] == "lower":
        return "lower(c) for c in {%s}" % boolsum.set_to_ranges(cs, 4)
    return "c in {%s}" % boolsum.set_to_ranges(cs, 4)


# ---------------------------------------------------------------------------------------------- loop-free lower-casers
def guardxform_quantified(ctx, facts, key, rule="GUARDXFORM"):
    """Lower-casers written without an explicit scan loop: the action is chosen by quantified atoms over the chars of the
    text (`any`, `all`, `find`).  For every path: the chars that may occur = intersection of the classes implied by the
    negative-`any` / positive-`all` / `find`-is-None atoms; the action taken on that path must equal to_lowercase on them."""
    from purlsa import paths as P
    summ = boolsum.Summarizer(facts)
    body = facts.body(key)
    site = fn_site(facts, key)
    U = boolsum.universe()
    outs = P.outcomes(facts, key)
    n = 0
    for o in outs:
        allowed = U
        unknown = []
        for a in o["atoms"]:
            if a[0] in ("any", "all") and a[1] == ("Input", 1):
                cs = boolsum.charset(boolsum.pred_formula(facts, summ, a[2]), facts)
                if a[0] == "any" and a[3] is False:
                    allowed &= U & ~cs
                elif a[0] == "all" and a[3] is True:
                    allowed &= cs
                # any-true / all-false: some char has the property; the others are unrestricted
            elif a[0] == "is" and isinstance(a[1], str) and "Iterator::find(" in a[1] or (a[0] == "callres" and a[1] == "std::iter::Iterator::find"):
                pos = a[2] if a[0] == "is" else a[3]
                clo = find_closure(facts, body, o)
                if clo is None:
                    unknown.append("find closure")
                    continue
                cs = boolsum.charset(boolsum.pred_formula(facts, summ, clo), facts)
                if pos == "None":
                    allowed &= U & ~cs
            elif a[0] == "pred" and any(isinstance(x, tuple) and "Iterator::find" in str(x) for x in a[2]):
                continue  # a test on the found char restricts that char only, not the rest of the string
            elif a[0] in ("is", "isin") and ("State" in str(a) or "phi(" in str(a[1])):
                continue  # branch on a state value already determined by the atoms above on this path
            else:
                unknown.append(models.show_canon(a)[:80])
        pe = P.PathEval(body, o["path"])
        act = path_action(facts, body, o, pe)
        n += 1
        tag = "%s path %s" % (key, "-".join(str(b) for b in o["path"][:8]))
        if act.startswith("delegate:"):
            # the work is done by another local function on a copy of the text: that function must itself be a lower-caser
            # (its obligations are emitted here, once), and then this path lower-cases completely
            dk = act.split(":", 1)[1]
            seen = getattr(ctx, "_gx_seen", None)
            if seen is None:
                seen = ctx._gx_seen = set()
            if (dk, rule, id(facts)) not in seen:
                seen.add((dk, rule, id(facts)))
                guardxform_obligations(ctx, facts, dk, rule)
            act = "unicode_lower"
        if unknown or act.startswith("?"):
            ctx.ob(rule, "%s: guards and action understood" % tag, False, fn=key, site=site, detail="unknown guards %s; action %s" % (unknown, act))
            continue
        bad = allowed & differs(act)
        cnt = bin(bad).count("1")
        ctx.ob(rule, "%s: the action `%s` equals char::to_lowercase on every char that can occur on this path" % (tag, act), bad == 0, fn=key, site=site, detail="chars that can occur: %d; mishandled: %d%s" % (bin(allowed).count("1"), cnt, (" e.g. " + boolsum.set_to_ranges(bad, 6)) if cnt else ""))
    ctx.ob(rule, "%s: paths analysed" % key, n >= 2, fn=key, site=site, detail="%d paths" % n, nontrivial=False)


def find_closure(facts, body, o):
    for (pth, args, b) in o["calls"]:
        if pth == "std::iter::Iterator::find" and len(args) == 2 and args[1][0] == "closure":
            it = args[0][2] if args[0][0] == "var" else args[0]
            if it[0] == "call" and it[1] == scanact.CHARS and strip_conv(it[2][0]) == ("arg", 1):
                return args[1][1]
    return None


def path_action(facts, body, o, pe):
    kinds = set()
    subject_ok = lambda t: strip_conv(t) == ("arg", 1)  # noqa: E731
    for e in o["effects"]:
        if e[0] == "call":
            if e[1].endswith("::make_ascii_lowercase"):
                kinds.add("ascii_lower")
            elif e[1].endswith("deref_mut") or e[1] in ("std::iter::Iterator::any", "std::iter::Iterator::all", "std::iter::Iterator::find"):
                continue
            elif e[2][0] in ("var", "local") and e[1].split("::")[-1] in ("any", "all", "find", "next", "position"):
                continue  # advancing a local iterator
            elif e[1] in facts.bodies and e[2][0] == "var" and e[2][2] == "" and _var_is_copy_of_subject(body, e[2][1]):
                kinds.add("delegate:" + e[1])  # the copy of the text is handed to another local lower-caser
            else:
                kinds.add("?effect " + e[1])
        elif e[0] == "store":
            if e[1] == ("arg", 1) and is_unicode_lower_of(facts, e[2], subject_ok):
                kinds.add("unicode_lower")
            elif isinstance(e[1], tuple) and e[1][0] in ("var", "local"):
                continue
            else:
                kinds.add("?store " + nshow(e[2])[:50])
    rv = strip_conv(pe.ret())
    if is_unicode_lower_of(facts, rv, subject_ok):
        kinds.add("unicode_lower")
    elif subject_ok(rv) or rv[0] == "var" and subject_ok(strip_conv(rv[2])) or rv[0] == "const" or rv == ("agg", ("tuple",), ()) or rv[0] == "call" and is_conv_of_subject(rv):
        pass
    elif rv[0] == "var" and (rv[2][0] == "conv" and strip_conv(rv[2]) == ("arg", 1) or strip_conv(rv[2])[0] == "call" and is_conv_of_subject(strip_conv(rv[2]))):
        pass  # the (possibly modified in place) copy of the text
    elif rv[0] == "call" and rv[1].endswith("::make_ascii_lowercase"):
        pass  # `=> s.make_ascii_lowercase()` as the value of a unit function (the effect itself is counted above)
    else:
        kinds.add("?return " + nshow(rv)[:60])
    if not kinds:
        return "id"
    if len(kinds) == 1:
        return next(iter(kinds))
    return "?mixed " + ",".join(sorted(kinds))


def _var_is_copy_of_subject(body, n):
    t = body.resolve_local(n)
    if t[0] != "var":
        return False
    n = norm(t[2], keep_conv=True)
    init = strip_conv(n)
    return (n[0] == "conv" and init == ("arg", 1)) or (init[0] == "call" and is_conv_of_subject(init))


def is_conv_of_subject(rv):
    return len(rv[2]) == 1 and strip_conv(rv[2][0]) == ("arg", 1) and (rv[1].endswith("::from") or rv[1].endswith("::into") or rv[1].endswith("to_owned") or rv[1].endswith("to_string"))
