//! Positive controls (DESIGN.md 2.6): one deliberate instance for every rule whose expected count on `purl` is zero.
//! This crate is only ever *analysed* by the fact extractor (never run); each item must make the named rule fire.
use std::collections::HashMap;

/// NO-LOSSY: a lossy UTF-8 decode.
pub fn lossy(b: &[u8]) -> String {
    String::from_utf8_lossy(b).into_owned()
}

/// PANIC: subtraction overflow check without a dominating guard.
pub fn minus_one(v: &[u8]) -> usize {
    v.len() - 1
}

/// PANIC: unwrap of an Option that can be None.
pub fn unwrap_opt(o: Option<u8>) -> u8 {
    o.unwrap()
}

/// PANIC: Vec index without provenance.
pub fn index(v: &Vec<u8>, i: usize) -> u8 {
    v[i]
}

/// PANIC: explicit panic.
pub fn explicit(n: u8) -> u8 {
    if n == 3 {
        panic!("three");
    }
    n
}

/// PANIC: multiplication overflow check.
pub fn times(a: usize, b: usize) -> usize {
    a * b
}

/// LOOP: a loop that is not driven by an iterator.
pub fn while_loop(mut n: u32) -> u32 {
    while n % 7 != 0 {
        n = n.wrapping_add(1);
    }
    n
}

/// NOREC: recursion.
pub fn rec(n: u32) -> u32 {
    if n == 0 {
        0
    } else {
        rec(n.wrapping_sub(1))
    }
}

/// SORT-TAINT: a HashMap iteration that reaches a String without a sort.
pub fn hash_to_string(m: &HashMap<String, String>) -> String {
    let mut s = String::new();
    for (k, v) in m {
        s.push_str(k);
        s.push_str(v);
    }
    s
}
