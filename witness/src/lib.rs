//! E5 -- type-level witnesses (DESIGN.md 2.5): compile-fail doctests with the expected error code, each paired with a
//! compiling twin that differs only by the offending line (a witness whose path is merely wrong would also "fail to
//! compile").  Run by the thorough tier of C04 / C11 with `cargo +nightly test --doc` (error codes are checked on nightly).
//! The deciders for these facts are the HIR rules CONSTRUCT / EXPOSE / KEYREF / IDX; the witnesses guard against the
//! extractor misreading visibility.

/// W1 -- a GenericPurl cannot be constructed from its fields outside the crate (private fields).
/// ```compile_fail,E0451
/// let b = purl::GenericPurlBuilder::new(String::from("t"), "n");
/// let _p = purl::GenericPurl { package_type: b.package_type, parts: b.parts };
/// ```
/// twin: the builder path compiles.
/// ```
/// let b = purl::GenericPurlBuilder::new(String::from("t"), "n");
/// let _p = b.build().unwrap();
/// ```
pub struct W1ConstructGenericPurl;

/// W2 -- the validated parts cannot be read or written as a field.
/// ```compile_fail,E0616
/// let mut p = purl::GenericPurl::new(String::from("t"), "n").unwrap();
/// p.parts.name = "".into();
/// ```
/// twin: the accessor compiles.
/// ```
/// let p = purl::GenericPurl::new(String::from("t"), "n").unwrap();
/// let _ = p.name();
/// ```
pub struct W2PartsPrivate;

/// W3 -- no mutable access to the qualifiers of a finished PURL.
/// ```compile_fail,E0596
/// let p = purl::GenericPurl::new(String::from("t"), "n").unwrap();
/// p.qualifiers().clear();
/// ```
/// twin: shared access compiles.
/// ```
/// let p = purl::GenericPurl::new(String::from("t"), "n").unwrap();
/// let q: &purl::Qualifiers = p.qualifiers();
/// let _ = q.len();
/// ```
pub struct W3NoMutQualifiers;

/// W4 -- keys cannot be changed through iter_mut (only values are mutable).
/// ```compile_fail,E0594
/// let mut q = purl::Qualifiers::default();
/// q.insert("a", "1").unwrap();
/// for (k, _v) in q.iter_mut() {
///     *k = Default::default();
/// }
/// ```
/// twin: changing the value compiles.
/// ```
/// let mut q = purl::Qualifiers::default();
/// q.insert("a", "1").unwrap();
/// for (_k, v) in q.iter_mut() {
///     *v = "2".into();
/// }
/// ```
pub struct W4KeysImmutable;

/// W5 -- a QualifierKey cannot be made from arbitrary text outside the crate (private tuple field).
/// ```compile_fail,E0603
/// let _k = purl::qualifiers::QualifierKey(Default::default());
/// ```
/// twin: the type itself is nameable, Default gives the empty key (which no API inserts).
/// ```
/// let _k = purl::qualifiers::QualifierKey::default();
/// ```
pub struct W5KeyCtorPrivate;

/// W6 -- the key check and the unchecked key wrapper are not exported.
/// ```compile_fail,E0603
/// let _ = purl::qualifiers::check_qualifier_key("a");
/// ```
/// twin: the public entry point compiles.
/// ```
/// let mut q = purl::Qualifiers::default();
/// let _ = q.entry("a");
/// ```
pub struct W6KeyCheckPrivate;

/// W7 -- an entry's index cannot be forged or edited.
/// ```compile_fail,E0616
/// let mut q = purl::Qualifiers::default();
/// if let Ok(purl::qualifiers::Entry::Vacant(mut e)) = q.entry("a") {
///     e.index = 7;
/// }
/// ```
/// twin: inserting through the entry compiles.
/// ```
/// let mut q = purl::Qualifiers::default();
/// if let Ok(purl::qualifiers::Entry::Vacant(e)) = q.entry("a") {
///     e.insert("1");
/// }
/// ```
pub struct W7EntryIndexPrivate;
