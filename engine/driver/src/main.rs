// purl-mir: rustc_private fact extractor (DESIGN.md section 2.1).
//
// Invoked as RUSTC_WORKSPACE_WRAPPER: `purl-mir <rustc> <args...>`.  For every
// crate other than the target crate (env PURL_MIR_CRATE, default "purl") it
// behaves exactly like rustc.  For the target crate it additionally writes ONE
// JSON file (env PURL_MIR_OUT) after analysis with:
//   * every MIR body (fns, closures, const/static initialisers, promoteds),
//   * resolved callees, constant operands (evaluated and decoded from memory),
//   * HIR facts (ADTs, fields, visibilities, impls, fn signatures),
//   * the evaluated value of every const/static.
// Nothing of the analysed crate is executed.
#![feature(rustc_private)]
#![allow(unused)]

extern crate rustc_abi;
extern crate rustc_const_eval;
extern crate rustc_data_structures;
extern crate rustc_driver;
extern crate rustc_hir;
extern crate rustc_interface;
extern crate rustc_middle;
extern crate rustc_span;

use std::collections::BTreeMap;
use std::fmt::Write as _;

use rustc_abi::{FieldIdx, Size, TagEncoding, VariantIdx, Variants, FIRST_VARIANT};
use rustc_hir::def::DefKind;
use rustc_hir::def_id::{DefId, LocalDefId, LOCAL_CRATE};
use rustc_middle::mir::interpret::{AllocId, Allocation, ConstAllocation, GlobalAlloc, GlobalId, Scalar};
use rustc_middle::mir::{self, ConstValue};
use rustc_middle::ty::print::{with_no_trimmed_paths, PrintTraitRefExt};
use rustc_middle::ty::{self, GenericArgs, GenericArgsRef, Instance, Ty, TyCtxt, TypingEnv};
use rustc_span::{Span, DUMMY_SP};

// ---------------------------------------------------------------- JSON
#[derive(Clone, Debug)]
enum J {
    Null,
    Bool(bool),
    Int(i128),
    Str(String),
    Arr(Vec<J>),
    Obj(Vec<(String, J)>),
}

fn s<T: Into<String>>(x: T) -> J {
    J::Str(x.into())
}
fn obj(v: Vec<(&str, J)>) -> J {
    J::Obj(v.into_iter().map(|(k, v)| (k.to_string(), v)).collect())
}

impl J {
    fn write(&self, out: &mut String) {
        match self {
            J::Null => out.push_str("null"),
            J::Bool(b) => out.push_str(if *b { "true" } else { "false" }),
            J::Int(i) => {
                // keep within what python's json reads exactly (it reads big ints fine)
                write!(out, "{}", i).unwrap()
            },
            J::Str(st) => {
                out.push('"');
                for c in st.chars() {
                    match c {
                        '"' => out.push_str("\\\""),
                        '\\' => out.push_str("\\\\"),
                        '\n' => out.push_str("\\n"),
                        '\r' => out.push_str("\\r"),
                        '\t' => out.push_str("\\t"),
                        c if (c as u32) < 0x20 => write!(out, "\\u{:04x}", c as u32).unwrap(),
                        c => out.push(c),
                    }
                }
                out.push('"');
            },
            J::Arr(v) => {
                out.push('[');
                for (i, x) in v.iter().enumerate() {
                    if i > 0 {
                        out.push(',');
                    }
                    x.write(out);
                }
                out.push(']');
            },
            J::Obj(v) => {
                out.push('{');
                for (i, (k, x)) in v.iter().enumerate() {
                    if i > 0 {
                        out.push(',');
                    }
                    J::Str(k.clone()).write(out);
                    out.push(':');
                    x.write(out);
                }
                out.push('}');
            },
        }
    }
}

// ---------------------------------------------------------------- helpers
fn tystr<'tcx>(ty: Ty<'tcx>) -> String {
    with_no_trimmed_paths!(format!("{}", ty))
}

fn defstr<'tcx>(tcx: TyCtxt<'tcx>, did: DefId) -> String {
    with_no_trimmed_paths!(tcx.def_path_str(did))
}

fn defstr_args<'tcx>(tcx: TyCtxt<'tcx>, did: DefId, args: GenericArgsRef<'tcx>) -> String {
    with_no_trimmed_paths!(tcx.def_path_str_with_args(did, args))
}

fn span_json<'tcx>(tcx: TyCtxt<'tcx>, sp: Span) -> J {
    if sp.is_dummy() {
        return J::Null;
    }
    let sm = tcx.sess.source_map();
    let exp = sp.from_expansion();
    let sp = if exp { sp.source_callsite() } else { sp };
    let lo = sm.lookup_char_pos(sp.lo());
    let hi = sm.lookup_char_pos(sp.hi());
    let file = format!("{}", lo.file.name.prefer_local_unconditionally());
    obj(vec![
        ("file", s(file)),
        ("line", J::Int(lo.line as i128)),
        ("col", J::Int(lo.col.0 as i128 + 1)),
        ("end_line", J::Int(hi.line as i128)),
        ("exp", J::Bool(exp)),
    ])
}

fn args_json<'tcx>(args: GenericArgsRef<'tcx>) -> J {
    J::Arr(args.iter().map(|a| s(with_no_trimmed_paths!(format!("{}", a)))).collect())
}

struct Cx<'tcx> {
    tcx: TyCtxt<'tcx>,
    depth_limit: usize,
}

// ---------------------------------------------------------------- memory reader
impl<'tcx> Cx<'tcx> {
    fn read_uint(&self, alloc: &Allocation, off: u64, size: u64) -> Option<u128> {
        let lo = off as usize;
        let hi = lo + size as usize;
        if hi > alloc.len() {
            return None;
        }
        let bytes = alloc.inspect_with_uninit_and_ptr_outside_interpreter(lo..hi);
        let mut v: u128 = 0;
        for (i, b) in bytes.iter().enumerate() {
            v |= (*b as u128) << (8 * i);
        }
        Some(v)
    }

    fn ptr_at(&self, alloc: &Allocation, off: u64) -> Option<(AllocId, u64)> {
        let prov = alloc.provenance().ptrs().get(&Size::from_bytes(off))?;
        let id = prov.alloc_id();
        let addr = self.read_uint(alloc, off, 8)?;
        Some((id, addr as u64))
    }

    fn with_alloc<R>(&self, id: AllocId, f: impl FnOnce(&Allocation) -> R) -> Option<R> {
        match self.tcx.try_get_global_alloc(id)? {
            GlobalAlloc::Memory(a) => Some(f(a.inner())),
            GlobalAlloc::Static(did) => {
                let a = self.tcx.eval_static_initializer(did).ok()?;
                Some(f(a.inner()))
            },
            _ => None,
        }
    }

    fn alloc_desc(&self, id: AllocId) -> J {
        match self.tcx.try_get_global_alloc(id) {
            Some(GlobalAlloc::Function { instance, .. }) => obj(vec![
                ("k", s("fnptr")),
                ("path", s(defstr(self.tcx, instance.def_id()))),
                ("args", args_json(instance.args)),
            ]),
            Some(GlobalAlloc::Static(did)) => obj(vec![("k", s("static")), ("path", s(defstr(self.tcx, did)))]),
            Some(GlobalAlloc::VTable(..)) => obj(vec![("k", s("vtable"))]),
            Some(GlobalAlloc::Memory(_)) => obj(vec![("k", s("memory"))]),
            _ => obj(vec![("k", s("unknown-alloc"))]),
        }
    }

    fn layout(&self, ty: Ty<'tcx>) -> Option<ty::layout::TyAndLayout<'tcx>> {
        self.tcx.layout_of(TypingEnv::fully_monomorphized().as_query_input(ty)).ok()
    }

    /// Decode the value of type `ty` stored at `off` in `alloc`.
    fn read_val(&self, alloc: &Allocation, off: u64, ty: Ty<'tcx>, depth: usize) -> J {
        if depth > self.depth_limit {
            return obj(vec![("k", s("too-deep"))]);
        }
        let Some(layout) = self.layout(ty) else {
            return obj(vec![("k", s("no-layout")), ("ty", s(tystr(ty)))]);
        };
        let size = layout.size.bytes();
        match ty.kind() {
            ty::Bool => match self.read_uint(alloc, off, 1) {
                Some(v) => J::Bool(v != 0),
                None => J::Null,
            },
            ty::Char => match self.read_uint(alloc, off, 4) {
                Some(v) => obj(vec![("k", s("char")), ("v", J::Int(v as i128))]),
                None => J::Null,
            },
            ty::Uint(_) => match self.read_uint(alloc, off, size) {
                Some(v) => J::Int(v as i128),
                None => J::Null,
            },
            ty::Int(_) => match self.read_uint(alloc, off, size) {
                Some(v) => {
                    let bits = size * 8;
                    let v = if bits < 128 && (v >> (bits - 1)) & 1 == 1 { (v as i128) - (1i128 << bits) } else { v as i128 };
                    J::Int(v)
                },
                None => J::Null,
            },
            ty::Ref(_, inner, _) | ty::RawPtr(inner, _) => {
                let Some((id, addr)) = self.ptr_at(alloc, off) else {
                    return obj(vec![("k", s("ptr-noprov")), ("ty", s(tystr(ty)))]);
                };
                match inner.kind() {
                    ty::Str => {
                        let len = self.read_uint(alloc, off + 8, 8).unwrap_or(0) as u64;
                        self.with_alloc(id, |a| {
                            let lo = addr as usize;
                            let hi = lo + len as usize;
                            if hi > a.len() {
                                return J::Null;
                            }
                            let bytes = a.inspect_with_uninit_and_ptr_outside_interpreter(lo..hi);
                            match std::str::from_utf8(bytes) {
                                Ok(t) => s(t),
                                Err(_) => obj(vec![("k", s("bytes")), ("v", J::Arr(bytes.iter().map(|b| J::Int(*b as i128)).collect()))]),
                            }
                        })
                        .unwrap_or_else(|| self.alloc_desc(id))
                    },
                    ty::Slice(elem) => {
                        let len = self.read_uint(alloc, off + 8, 8).unwrap_or(0) as u64;
                        let elem = *elem;
                        let Some(el) = self.layout(elem) else { return J::Null };
                        let stride = el.size.bytes();
                        self.with_alloc(id, |a| {
                            let mut v = vec![];
                            for i in 0..len {
                                v.push(self.read_val(a, addr + i * stride, elem, depth + 1));
                            }
                            obj(vec![("k", s("slice")), ("v", J::Arr(v))])
                        })
                        .unwrap_or_else(|| self.alloc_desc(id))
                    },
                    ty::Dynamic(..) => obj(vec![("k", s("dyn"))]),
                    _ => self
                        .with_alloc(id, |a| {
                            let inner_v = self.read_val(a, addr, *inner, depth + 1);
                            obj(vec![("k", s("ref")), ("v", inner_v)])
                        })
                        .unwrap_or_else(|| self.alloc_desc(id)),
                }
            },
            ty::FnPtr(..) => match self.ptr_at(alloc, off) {
                Some((id, _)) => self.alloc_desc(id),
                None => obj(vec![("k", s("fnptr-noprov"))]),
            },
            ty::Array(elem, _) => {
                let Some(el) = self.layout(*elem) else { return J::Null };
                let stride = el.size.bytes();
                let n = if stride == 0 { layout.fields.count() as u64 } else { size / stride };
                let mut v = vec![];
                for i in 0..n {
                    v.push(self.read_val(alloc, off + i * stride, *elem, depth + 1));
                }
                obj(vec![("k", s("array")), ("v", J::Arr(v))])
            },
            ty::Tuple(tys) => {
                let mut v = vec![];
                for (i, t) in tys.iter().enumerate() {
                    v.push(self.read_val(alloc, off + layout.fields.offset(i).bytes(), t, depth + 1));
                }
                obj(vec![("k", s("tuple")), ("v", J::Arr(v))])
            },
            ty::FnDef(did, args) => obj(vec![("k", s("fn")), ("path", s(defstr(self.tcx, *did))), ("args", args_json(args))]),
            ty::Closure(did, _) => obj(vec![("k", s("closure")), ("path", s(defstr(self.tcx, *did)))]),
            ty::Adt(adt, args) => {
                let path = defstr(self.tcx, adt.did());
                if adt.is_struct() {
                    let var = adt.non_enum_variant();
                    let mut fs = vec![];
                    for (i, f) in var.fields.iter().enumerate() {
                        let fty = f.ty(self.tcx, args);
                        let fty = self.tcx.normalize_erasing_regions(TypingEnv::fully_monomorphized(), rustc_middle::ty::Unnormalized::new_wip(fty));
                        let v = self.read_val(alloc, off + layout.fields.offset(i).bytes(), fty, depth + 1);
                        fs.push((f.name.to_string(), v));
                    }
                    obj(vec![("k", s("struct")), ("path", s(path)), ("fields", J::Obj(fs))])
                } else if adt.is_enum() {
                    let vidx: Option<VariantIdx> = match &layout.variants {
                        Variants::Single { index } => Some(*index),
                        Variants::Empty => None,
                        Variants::Multiple { tag, tag_encoding, tag_field, variants } => {
                            let tag_off = off + layout.fields.offset(tag_field.as_usize()).bytes();
                            let tag_size = tag.size(&self.tcx).bytes();
                            let has_ptr = alloc.provenance().ptrs().get(&Size::from_bytes(tag_off)).is_some();
                            let raw = self.read_uint(alloc, tag_off, tag_size);
                            match (tag_encoding, raw) {
                                (_, None) => None,
                                (TagEncoding::Direct, Some(raw)) => {
                                    let mut found = None;
                                    for (vi, d) in adt.discriminants(self.tcx) {
                                        let mask = if tag_size >= 16 { u128::MAX } else { (1u128 << (tag_size * 8)) - 1 };
                                        if d.val & mask == raw & mask {
                                            found = Some(vi);
                                        }
                                    }
                                    found
                                },
                                (TagEncoding::Niche { untagged_variant, niche_variants, niche_start }, Some(raw)) => {
                                    if has_ptr {
                                        Some(*untagged_variant)
                                    } else {
                                        let mask = if tag_size >= 16 { u128::MAX } else { (1u128 << (tag_size * 8)) - 1 };
                                        let rel = raw.wrapping_sub(*niche_start) & mask;
                                        let start = niche_variants.start().as_u32() as u128;
                                        let end = niche_variants.end().as_u32() as u128;
                                        if rel <= end - start {
                                            Some(VariantIdx::from_u32((start + rel) as u32))
                                        } else {
                                            Some(*untagged_variant)
                                        }
                                    }
                                },
                            }
                        },
                    };
                    let Some(vidx) = vidx else {
                        return obj(vec![("k", s("enum-unknown")), ("path", s(path))]);
                    };
                    let var = adt.variant(vidx);
                    let vlayout = match &layout.variants {
                        Variants::Multiple { variants, .. } => Some(&variants[vidx].fields),
                        _ => Some(&layout.fields),
                    };
                    let mut fs = vec![];
                    if let Some(vfields) = vlayout {
                        for (i, f) in var.fields.iter().enumerate() {
                            if i >= vfields.count() {
                                break;
                            }
                            let fty = f.ty(self.tcx, args);
                            let fty = self.tcx.normalize_erasing_regions(TypingEnv::fully_monomorphized(), rustc_middle::ty::Unnormalized::new_wip(fty));
                            let v = self.read_val(alloc, off + vfields.offset(i).bytes(), fty, depth + 1);
                            fs.push((f.name.to_string(), v));
                        }
                    }
                    obj(vec![("k", s("enum")), ("path", s(path)), ("variant", s(var.name.to_string())), ("fields", J::Obj(fs))])
                } else {
                    obj(vec![("k", s("union")), ("path", s(path))])
                }
            },
            _ => {
                let lo = off as usize;
                let hi = lo + size as usize;
                if hi <= alloc.len() && size <= 64 {
                    let bytes = alloc.inspect_with_uninit_and_ptr_outside_interpreter(lo..hi);
                    obj(vec![("k", s("raw")), ("ty", s(tystr(ty))), ("v", J::Arr(bytes.iter().map(|b| J::Int(*b as i128)).collect()))])
                } else {
                    obj(vec![("k", s("raw")), ("ty", s(tystr(ty)))])
                }
            },
        }
    }

    fn scalar_json(&self, sc: Scalar, ty: Ty<'tcx>) -> J {
        match sc {
            Scalar::Int(i) => {
                let size = i.size().bytes();
                let raw: u128 = if size == 0 { 0 } else { i.to_bits(i.size()) };
                match ty.kind() {
                    ty::Bool => J::Bool(raw != 0),
                    ty::Char => obj(vec![("k", s("char")), ("v", J::Int(raw as i128))]),
                    ty::Int(_) => {
                        let bits = size * 8;
                        let v = if bits > 0 && bits < 128 && (raw >> (bits - 1)) & 1 == 1 { (raw as i128) - (1i128 << bits) } else { raw as i128 };
                        J::Int(v)
                    },
                    ty::Uint(_) => J::Int(raw as i128),
                    _ => obj(vec![("k", s("scalar")), ("ty", s(tystr(ty))), ("v", J::Int(raw as i128))]),
                }
            },
            Scalar::Ptr(ptr, _) => {
                let (prov, offset) = ptr.into_raw_parts();
                let id = prov.alloc_id();
                match ty.kind() {
                    ty::Ref(_, inner, _) | ty::RawPtr(inner, _) => self
                        .with_alloc(id, |a| {
                            let v = self.read_val(a, offset.bytes(), *inner, 1);
                            obj(vec![("k", s("ref")), ("v", v)])
                        })
                        .unwrap_or_else(|| self.alloc_desc(id)),
                    _ => self.alloc_desc(id),
                }
            },
        }
    }

    fn constvalue_json(&self, val: ConstValue, ty: Ty<'tcx>) -> J {
        match val {
            ConstValue::ZeroSized => match ty.kind() {
                ty::FnDef(did, args) => obj(vec![("k", s("fn")), ("path", s(defstr(self.tcx, *did))), ("args", args_json(args))]),
                ty::Closure(did, _) => obj(vec![("k", s("closure")), ("path", s(defstr(self.tcx, *did)))]),
                _ => obj(vec![("k", s("zst")), ("ty", s(tystr(ty)))]),
            },
            ConstValue::Scalar(sc) => self.scalar_json(sc, ty),
            ConstValue::Slice { alloc_id, meta } => {
                let r = self.with_alloc(alloc_id, |a| {
                    let n = (meta as usize).min(a.len());
                    let bytes = a.inspect_with_uninit_and_ptr_outside_interpreter(0..n);
                    let is_str = matches!(ty.kind(), ty::Ref(_, t, _) if t.is_str());
                    if is_str {
                        match std::str::from_utf8(bytes) {
                            Ok(t) => s(t),
                            Err(_) => obj(vec![("k", s("bytes")), ("v", J::Arr(bytes.iter().map(|b| J::Int(*b as i128)).collect()))]),
                        }
                    } else {
                        obj(vec![("k", s("bytes")), ("v", J::Arr(bytes.iter().map(|b| J::Int(*b as i128)).collect()))])
                    }
                });
                r.unwrap_or(J::Null)
            },
            ConstValue::Indirect { alloc_id, offset } => self
                .with_alloc(alloc_id, |a| self.read_val(a, offset.bytes(), ty, 0))
                .unwrap_or_else(|| self.alloc_desc(alloc_id)),
        }
    }

    // ------------------------------------------------------------ MIR
    fn const_json(&self, c: &mir::ConstOperand<'tcx>, owner: DefId) -> J {
        let tcx = self.tcx;
        let ty = c.const_.ty();
        let mut fields: Vec<(&str, J)> = vec![("ty", s(tystr(ty)))];
        if let ty::FnDef(did, args) = ty.kind() {
            fields.push(("k", s("fn")));
            fields.push(("path", s(defstr(tcx, *did))));
            fields.push(("args", args_json(args)));
            // a fn item used as a value (`.map(SmallString::try_from)`): resolve a trait method to its impl, as for direct calls
            let env = TypingEnv::post_analysis(tcx, owner);
            if let Ok(Some(inst)) = Instance::try_resolve(tcx, env, *did, args) {
                let rd = inst.def_id();
                fields.push(("resolved", s(defstr(tcx, rd))));
                fields.push(("resolved_local", J::Bool(rd.is_local())));
            }
            return obj(fields);
        }
        let typing_env = TypingEnv::post_analysis(tcx, owner);
        match c.const_ {
            mir::Const::Unevaluated(uv, _) => {
                fields.push(("k", s("unevaluated")));
                fields.push(("def", s(defstr(tcx, uv.def))));
                fields.push(("def_kind", s(format!("{:?}", tcx.def_kind(uv.def)))));
                match uv.promoted {
                    Some(p) => fields.push(("promoted", J::Int(p.as_u32() as i128))),
                    None => fields.push(("promoted", J::Null)),
                }
            },
            mir::Const::Val(..) => fields.push(("k", s("val"))),
            mir::Const::Ty(..) => fields.push(("k", s("tyconst"))),
        }
        match c.const_.eval(tcx, typing_env, c.span) {
            Ok(v) => fields.push(("v", self.constvalue_json(v, ty))),
            Err(_) => fields.push(("v", obj(vec![("k", s("not-evaluable"))]))),
        }
        obj(fields)
    }

    fn place_json(&self, body: &mir::Body<'tcx>, place: mir::Place<'tcx>) -> J {
        let tcx = self.tcx;
        let mut projs = vec![];
        for (i, elem) in place.projection.iter().enumerate() {
            let base = mir::PlaceRef { local: place.local, projection: &place.projection[..i] };
            let pty = base.ty(&body.local_decls, tcx);
            let j = match elem {
                mir::ProjectionElem::Deref => obj(vec![("p", s("deref"))]),
                mir::ProjectionElem::Field(f, fty) => {
                    let name = match pty.ty.kind() {
                        ty::Adt(adt, _) => {
                            let v = adt.variant(pty.variant_index.unwrap_or(FIRST_VARIANT));
                            v.fields.get(f).map(|fd| fd.name.to_string()).unwrap_or_else(|| format!("{}", f.as_usize()))
                        },
                        _ => format!("{}", f.as_usize()),
                    };
                    obj(vec![("p", s("field")), ("i", J::Int(f.as_usize() as i128)), ("name", s(name)), ("ty", s(tystr(fty)))])
                },
                mir::ProjectionElem::Downcast(_, vi) => {
                    let name = match pty.ty.kind() {
                        ty::Adt(adt, _) if adt.is_enum() => adt.variant(vi).name.to_string(),
                        _ => format!("{}", vi.as_usize()),
                    };
                    obj(vec![("p", s("downcast")), ("i", J::Int(vi.as_usize() as i128)), ("name", s(name))])
                },
                mir::ProjectionElem::Index(l) => obj(vec![("p", s("index")), ("local", J::Int(l.as_usize() as i128))]),
                mir::ProjectionElem::ConstantIndex { offset, min_length, from_end } => obj(vec![
                    ("p", s("constindex")),
                    ("offset", J::Int(offset as i128)),
                    ("from_end", J::Bool(from_end)),
                ]),
                mir::ProjectionElem::Subslice { from, to, from_end } => {
                    obj(vec![("p", s("subslice")), ("from", J::Int(from as i128)), ("to", J::Int(to as i128)), ("from_end", J::Bool(from_end))])
                },
                other => obj(vec![("p", s("other")), ("dbg", s(format!("{:?}", other)))]),
            };
            projs.push(j);
        }
        obj(vec![("l", J::Int(place.local.as_usize() as i128)), ("proj", J::Arr(projs)), ("s", s(format!("{:?}", place)))])
    }

    fn operand_json(&self, body: &mir::Body<'tcx>, op: &mir::Operand<'tcx>, owner: DefId) -> J {
        match op {
            mir::Operand::Copy(p) => obj(vec![("o", s("copy")), ("place", self.place_json(body, *p))]),
            mir::Operand::Move(p) => obj(vec![("o", s("move")), ("place", self.place_json(body, *p))]),
            mir::Operand::Constant(c) => obj(vec![("o", s("const")), ("c", self.const_json(c, owner))]),
            other => obj(vec![("o", s("other")), ("dbg", s(format!("{:?}", other)))]),
        }
    }

    fn rvalue_json(&self, body: &mir::Body<'tcx>, rv: &mir::Rvalue<'tcx>, owner: DefId) -> J {
        let tcx = self.tcx;
        match rv {
            mir::Rvalue::Use(op, ..) => obj(vec![("r", s("use")), ("op", self.operand_json(body, op, owner))]),
            mir::Rvalue::Repeat(op, n) => obj(vec![("r", s("repeat")), ("op", self.operand_json(body, op, owner)), ("n", s(format!("{}", n)))]),
            mir::Rvalue::Ref(_, bk, p) => {
                let m = match bk {
                    mir::BorrowKind::Shared => "shared",
                    mir::BorrowKind::Fake(_) => "fake",
                    mir::BorrowKind::Mut { .. } => "mut",
                };
                obj(vec![("r", s("ref")), ("bk", s(m)), ("place", self.place_json(body, *p))])
            },
            mir::Rvalue::RawPtr(k, p) => obj(vec![("r", s("rawptr")), ("bk", s(format!("{:?}", k))), ("place", self.place_json(body, *p))]),
            mir::Rvalue::Cast(kind, op, ty) => obj(vec![
                ("r", s("cast")),
                ("kind", s(format!("{:?}", kind))),
                ("op", self.operand_json(body, op, owner)),
                ("ty", s(tystr(*ty))),
            ]),
            mir::Rvalue::BinaryOp(bop, ab) => obj(vec![
                ("r", s("binop")),
                ("bop", s(format!("{:?}", bop))),
                ("a", self.operand_json(body, &ab.0, owner)),
                ("b", self.operand_json(body, &ab.1, owner)),
            ]),
            mir::Rvalue::UnaryOp(uop, a) => obj(vec![("r", s("unop")), ("uop", s(format!("{:?}", uop))), ("a", self.operand_json(body, a, owner))]),
            mir::Rvalue::Discriminant(p) => {
                let pty = p.ty(&body.local_decls, tcx).ty;
                let mut f: Vec<(&str, J)> = vec![("r", s("discr")), ("place", self.place_json(body, *p)), ("ety", s(tystr(pty)))];
                if let ty::Adt(adt, _) = pty.kind() {
                    if adt.is_enum() {
                        f.push(("enum", s(defstr(tcx, adt.did()))));
                        f.push(("variants", J::Arr(adt.variants().iter().map(|v| s(v.name.to_string())).collect())));
                        // the discriminant *values* (bit patterns, as SwitchInt tests them): not the variant indices for
                        // enums with explicit discriminants (core::cmp::Ordering = -1, 0, 1)
                        f.push(("discrs", J::Arr(adt.discriminants(tcx).map(|(_, d)| J::Int(d.val as i128)).collect())));
                    }
                }
                obj(f)
            },
            mir::Rvalue::Aggregate(kind, ops) => {
                let mut f: Vec<(&str, J)> = vec![("r", s("aggregate"))];
                match &**kind {
                    mir::AggregateKind::Array(t) => {
                        f.push(("ak", s("array")));
                        f.push(("ty", s(tystr(*t))));
                    },
                    mir::AggregateKind::Tuple => f.push(("ak", s("tuple"))),
                    mir::AggregateKind::Adt(did, vi, args, _, active) => {
                        let adt = tcx.adt_def(*did);
                        f.push(("ak", s("adt")));
                        f.push(("path", s(defstr(tcx, *did))));
                        f.push(("variant", s(adt.variant(*vi).name.to_string())));
                        f.push(("variant_idx", J::Int(vi.as_usize() as i128)));
                        f.push(("args", args_json(args)));
                        f.push(("fields", J::Arr(adt.variant(*vi).fields.iter().map(|fd| s(fd.name.to_string())).collect())));
                    },
                    mir::AggregateKind::Closure(did, args) => {
                        f.push(("ak", s("closure")));
                        f.push(("path", s(defstr(tcx, *did))));
                    },
                    other => {
                        f.push(("ak", s("other")));
                        f.push(("dbg", s(format!("{:?}", other))));
                    },
                }
                f.push(("ops", J::Arr(ops.iter().map(|o| self.operand_json(body, o, owner)).collect())));
                obj(f)
            },
            mir::Rvalue::CopyForDeref(p) => obj(vec![("r", s("use")), ("op", obj(vec![("o", s("copy")), ("place", self.place_json(body, *p))]))]),
            other => obj(vec![("r", s("other")), ("dbg", s(format!("{:?}", other)))]),
        }
    }

    fn unwind_json(&self, u: &mir::UnwindAction) -> J {
        match u {
            mir::UnwindAction::Continue => s("continue"),
            mir::UnwindAction::Unreachable => s("unreachable"),
            mir::UnwindAction::Terminate(_) => s("terminate"),
            mir::UnwindAction::Cleanup(bb) => J::Int(bb.as_usize() as i128),
        }
    }

    fn callee_json(&self, body: &mir::Body<'tcx>, func: &mir::Operand<'tcx>, owner: DefId) -> J {
        let tcx = self.tcx;
        if let Some((did, args)) = func.const_fn_def() {
            let mut f: Vec<(&str, J)> = vec![
                ("path", s(defstr(tcx, did))),
                ("full", s(defstr_args(tcx, did, args))),
                ("args", args_json(args)),
                ("local", J::Bool(did.is_local())),
            ];
            if let Some(tr) = tcx.trait_of_assoc(did) {
                f.push(("trait", s(defstr(tcx, tr))));
                f.push(("item", s(tcx.item_name(did).to_string())));
            }
            let env = TypingEnv::post_analysis(tcx, owner);
            match Instance::try_resolve(tcx, env, did, args) {
                Ok(Some(inst)) => {
                    let rd = inst.def_id();
                    f.push((
                        "resolved",
                        obj(vec![
                            ("path", s(defstr(tcx, rd))),
                            ("full", s(defstr_args(tcx, rd, inst.args))),
                            ("args", args_json(inst.args)),
                            ("local", J::Bool(rd.is_local())),
                            ("kind", s(format!("{:?}", std::mem::discriminant(&inst.def)).chars().take(0).collect::<String>() + &instance_kind(&inst))),
                        ]),
                    ));
                },
                _ => f.push(("resolved", J::Null)),
            }
            obj(f)
        } else {
            obj(vec![("indirect", self.operand_json(body, func, owner))])
        }
    }

    fn body_json(&self, body: &mir::Body<'tcx>, owner: DefId) -> J {
        let tcx = self.tcx;
        let mut locals = vec![];
        for (l, d) in body.local_decls.iter_enumerated() {
            locals.push(obj(vec![
                ("ty", s(tystr(d.ty))),
                ("mut", J::Bool(d.mutability.is_mut())),
            ]));
        }
        let mut dbg = vec![];
        for vdi in &body.var_debug_info {
            let val = match &vdi.value {
                mir::VarDebugInfoContents::Place(p) => self.place_json(body, *p),
                mir::VarDebugInfoContents::Const(c) => obj(vec![("const", self.const_json(c, owner))]),
            };
            dbg.push(obj(vec![("name", s(vdi.name.to_string())), ("val", val)]));
        }
        let mut blocks = vec![];
        for (bb, data) in body.basic_blocks.iter_enumerated() {
            let mut stmts = vec![];
            for st in &data.statements {
                let j = match &st.kind {
                    mir::StatementKind::Assign(bx) => {
                        let (p, rv) = &**bx;
                        Some(obj(vec![
                            ("s", s("assign")),
                            ("place", self.place_json(body, *p)),
                            ("rv", self.rvalue_json(body, rv, owner)),
                            ("line", span_line(tcx, st.source_info.span)),
                        ]))
                    },
                    mir::StatementKind::SetDiscriminant { place, variant_index } => Some(obj(vec![
                        ("s", s("setdiscr")),
                        ("place", self.place_json(body, **place)),
                        ("variant_idx", J::Int(variant_index.as_usize() as i128)),
                    ])),
                    mir::StatementKind::StorageLive(_) | mir::StatementKind::StorageDead(_) | mir::StatementKind::Nop => None,
                    other => Some(obj(vec![("s", s("other")), ("dbg", s(format!("{:?}", other)))])),
                };
                if let Some(j) = j {
                    stmts.push(j);
                }
            }
            let term = data.terminator();
            let tspan = span_json(tcx, term.source_info.span);
            let tj = match &term.kind {
                mir::TerminatorKind::Goto { target } => obj(vec![("t", s("goto")), ("target", J::Int(target.as_usize() as i128))]),
                mir::TerminatorKind::SwitchInt { discr, targets } => {
                    let mut arms = vec![];
                    for (v, t) in targets.iter() {
                        arms.push(J::Arr(vec![J::Int(v as i128), J::Int(t.as_usize() as i128)]));
                    }
                    obj(vec![
                        ("t", s("switch")),
                        ("discr", self.operand_json(body, discr, owner)),
                        ("discr_ty", s(tystr(discr.ty(&body.local_decls, tcx)))),
                        ("arms", J::Arr(arms)),
                        ("otherwise", J::Int(targets.otherwise().as_usize() as i128)),
                    ])
                },
                mir::TerminatorKind::Return => obj(vec![("t", s("return"))]),
                mir::TerminatorKind::Unreachable => obj(vec![("t", s("unreachable"))]),
                mir::TerminatorKind::UnwindResume => obj(vec![("t", s("resume"))]),
                mir::TerminatorKind::UnwindTerminate(_) => obj(vec![("t", s("terminate"))]),
                mir::TerminatorKind::Drop { place, target, unwind, .. } => obj(vec![
                    ("t", s("drop")),
                    ("place", self.place_json(body, *place)),
                    ("target", J::Int(target.as_usize() as i128)),
                    ("unwind", self.unwind_json(unwind)),
                ]),
                mir::TerminatorKind::Call { func, args, destination, target, unwind, fn_span, .. } => obj(vec![
                    ("t", s("call")),
                    ("callee", self.callee_json(body, func, owner)),
                    ("args", J::Arr(args.iter().map(|a| self.operand_json(body, &a.node, owner)).collect())),
                    ("dest", self.place_json(body, *destination)),
                    ("target", match target {
                        Some(t) => J::Int(t.as_usize() as i128),
                        None => J::Null,
                    }),
                    ("unwind", self.unwind_json(unwind)),
                    ("fn_span", span_json(tcx, *fn_span)),
                ]),
                mir::TerminatorKind::Assert { cond, expected, msg, target, unwind } => {
                    let (kind, ops): (String, Vec<J>) = match &**msg {
                        mir::AssertKind::BoundsCheck { len, index } => {
                            ("BoundsCheck".into(), vec![self.operand_json(body, len, owner), self.operand_json(body, index, owner)])
                        },
                        mir::AssertKind::Overflow(op, a, b) => {
                            (format!("Overflow({:?})", op), vec![self.operand_json(body, a, owner), self.operand_json(body, b, owner)])
                        },
                        mir::AssertKind::OverflowNeg(a) => ("OverflowNeg".into(), vec![self.operand_json(body, a, owner)]),
                        mir::AssertKind::DivisionByZero(a) => ("DivisionByZero".into(), vec![self.operand_json(body, a, owner)]),
                        mir::AssertKind::RemainderByZero(a) => ("RemainderByZero".into(), vec![self.operand_json(body, a, owner)]),
                        other => (format!("{:?}", other).split('(').next().unwrap_or("").split(' ').next().unwrap_or("").to_string(), vec![]),
                    };
                    obj(vec![
                        ("t", s("assert")),
                        ("cond", self.operand_json(body, cond, owner)),
                        ("expected", J::Bool(*expected)),
                        ("kind", s(kind)),
                        ("ops", J::Arr(ops)),
                        ("target", J::Int(target.as_usize() as i128)),
                        ("unwind", self.unwind_json(unwind)),
                    ])
                },
                other => obj(vec![("t", s("other")), ("dbg", s(format!("{:?}", other)))]),
            };
            blocks.push(obj(vec![("cleanup", J::Bool(data.is_cleanup)), ("stmts", J::Arr(stmts)), ("term", tj), ("span", tspan)]));
        }
        obj(vec![
            ("arg_count", J::Int(body.arg_count as i128)),
            ("locals", J::Arr(locals)),
            ("debug", J::Arr(dbg)),
            ("blocks", J::Arr(blocks)),
            ("span", span_json(tcx, body.span)),
        ])
    }
}

fn instance_kind<'tcx>(inst: &Instance<'tcx>) -> String {
    let d = format!("{:?}", inst.def);
    d.split('(').next().unwrap_or("").to_string()
}

fn span_line<'tcx>(tcx: TyCtxt<'tcx>, sp: Span) -> J {
    if sp.is_dummy() {
        return J::Null;
    }
    let sp = if sp.from_expansion() { sp.source_callsite() } else { sp };
    let lo = tcx.sess.source_map().lookup_char_pos(sp.lo());
    J::Int(lo.line as i128)
}

fn vis_json<'tcx>(tcx: TyCtxt<'tcx>, did: DefId) -> J {
    match tcx.visibility(did) {
        ty::Visibility::Public => s("pub"),
        ty::Visibility::Restricted(m) => {
            if m.is_crate_root() {
                s("crate")
            } else {
                s(format!("restricted:{}", defstr(tcx, m)))
            }
        },
    }
}

// ---------------------------------------------------------------- driver
struct Cb {
    features: Vec<String>,
    cfgs: Vec<String>,
}

impl rustc_driver::Callbacks for Cb {
    fn after_analysis<'tcx>(&mut self, _c: &rustc_interface::interface::Compiler, tcx: TyCtxt<'tcx>) -> rustc_driver::Compilation {
        let want = std::env::var("PURL_MIR_CRATE").unwrap_or_else(|_| "purl".to_string());
        let name = tcx.crate_name(LOCAL_CRATE).to_string();
        let Ok(out_path) = std::env::var("PURL_MIR_OUT") else {
            return rustc_driver::Compilation::Continue;
        };
        if name != want {
            return rustc_driver::Compilation::Continue;
        }
        // skip test harness builds
        if tcx.sess.opts.test {
            return rustc_driver::Compilation::Continue;
        }
        let cx = Cx { tcx, depth_limit: 12 };
        let mut bodies: Vec<(String, J)> = vec![];
        let mut consts: Vec<(String, J)> = vec![];
        let mut fns: Vec<(String, J)> = vec![];
        let ev = tcx.effective_visibilities(());

        for ldid in tcx.hir_body_owners() {
            let did = ldid.to_def_id();
            let kind = tcx.def_kind(did);
            let key = defstr(tcx, did);
            let (body, kstr): (Option<&mir::Body<'tcx>>, &str) = match kind {
                DefKind::Fn | DefKind::AssocFn => (Some(tcx.optimized_mir(did)), "fn"),
                DefKind::Closure => (Some(tcx.optimized_mir(did)), "closure"),
                DefKind::Const { .. } | DefKind::AssocConst { .. } | DefKind::AnonConst | DefKind::InlineConst => (Some(tcx.mir_for_ctfe(did)), "const"),
                DefKind::Static { .. } => (Some(tcx.mir_for_ctfe(did)), "static"),
                _ => (None, "other"),
            };
            let Some(body) = body else { continue };
            let mut bj = cx.body_json(body, did);
            if let J::Obj(ref mut v) = bj {
                v.insert(0, ("kind".into(), s(kstr)));
                v.insert(1, ("def_kind".into(), s(format!("{:?}", kind))));
                if let Some(parent) = tcx.opt_parent(did) {
                    v.push(("parent".into(), s(defstr(tcx, parent))));
                    v.push(("parent_kind".into(), s(format!("{:?}", tcx.def_kind(parent)))));
                }
                if matches!(kind, DefKind::Closure) {
                    let tr = tcx.typeck_root_def_id(did);
                    v.push(("root".into(), s(defstr(tcx, tr))));
                }
            }
            bodies.push((key.clone(), bj));

            // promoteds
            if matches!(kind, DefKind::Fn | DefKind::AssocFn | DefKind::Closure | DefKind::Const { .. } | DefKind::AssocConst { .. } | DefKind::Static { .. }) {
                let promoted = tcx.promoted_mir(did);
                for (p, pb) in promoted.iter_enumerated() {
                    let pkey = format!("{}::promoted[{}]", key, p.as_usize());
                    let mut bj = cx.body_json(pb, did);
                    if let J::Obj(ref mut v) = bj {
                        v.insert(0, ("kind".into(), s("promoted")));
                        v.push(("parent".into(), s(key.clone())));
                    }
                    // evaluated value (only for non-generic owners)
                    let generics = tcx.generics_of(did);
                    let mut val = J::Null;
                    if generics.count() == 0 || !generics.requires_monomorphization(tcx) {
                        let inst = Instance::new_raw(did, GenericArgs::identity_for_item(tcx, did));
                        let gid = GlobalId { instance: inst, promoted: Some(p) };
                        if let Ok(cv) = tcx.const_eval_global_id(TypingEnv::post_analysis(tcx, did), gid, DUMMY_SP) {
                            let ty = pb.return_ty();
                            val = cx.constvalue_json(cv, ty);
                        }
                    }
                    if let J::Obj(ref mut v) = bj {
                        v.push(("value".into(), val));
                    }
                    bodies.push((pkey, bj));
                }
            }

            // evaluated consts / statics
            match kind {
                DefKind::Const { .. } | DefKind::AssocConst { .. } => {
                    let generics = tcx.generics_of(did);
                    if !generics.requires_monomorphization(tcx) {
                        if let Ok(cv) = tcx.const_eval_poly(did) {
                            let ty = tcx.type_of(did).instantiate_identity().skip_norm_wip();
                            consts.push((key.clone(), obj(vec![("ty", s(tystr(ty))), ("v", cx.constvalue_json(cv, ty)), ("span", span_json(tcx, tcx.def_span(did)))])));
                        }
                    }
                },
                DefKind::Static { .. } => {
                    if let Ok(a) = tcx.eval_static_initializer(did) {
                        let ty = tcx.type_of(did).instantiate_identity().skip_norm_wip();
                        let v = cx.read_val(a.inner(), 0, ty, 0);
                        consts.push((key.clone(), obj(vec![("ty", s(tystr(ty))), ("v", v), ("span", span_json(tcx, tcx.def_span(did)))])));
                    }
                },
                _ => {},
            }

            // fn facts
            if matches!(kind, DefKind::Fn | DefKind::AssocFn) {
                let sig = tcx.fn_sig(did).instantiate_identity().skip_norm_wip().skip_binder();
                let inputs: Vec<J> = sig.inputs().iter().map(|t| s(tystr(*t))).collect();
                let mut f: Vec<(&str, J)> = vec![
                    ("vis", vis_json(tcx, did)),
                    ("reachable", J::Bool(ev.is_reachable(ldid))),
                    ("exported", J::Bool(ev.is_exported(ldid))),
                    ("inputs", J::Arr(inputs)),
                    ("output", s(tystr(sig.output()))),
                    ("span", span_json(tcx, tcx.def_span(did))),
                    ("is_const", J::Bool(tcx.is_const_fn(did))),
                ];
                if let Some(parent) = tcx.opt_parent(did) {
                    if let DefKind::Impl { of_trait } = tcx.def_kind(parent) {
                        f.push(("impl", s(defstr(tcx, parent))));
                        f.push(("impl_id", s(format!("{:?}", parent.index.as_u32()))));
                        f.push(("impl_self", s(tystr(tcx.type_of(parent).instantiate_identity().skip_norm_wip()))));
                        if of_trait {
                            let tr = tcx.impl_trait_ref(parent).instantiate_identity().skip_norm_wip();
                            f.push(("impl_trait", s(with_no_trimmed_paths!(format!("{}", tr.print_only_trait_path())))));
                            f.push(("impl_trait_def", s(defstr(tcx, tr.def_id))));
                        }
                        f.push(("derived", J::Bool(tcx.is_automatically_derived(parent))));
                    }
                    if let DefKind::Trait = tcx.def_kind(parent) {
                        f.push(("trait_decl", s(defstr(tcx, parent))));
                    }
                }
                f.push(("name", s(tcx.item_name(did).to_string())));
                fns.push((key.clone(), obj(f)));
            }
        }

        // ADTs and impls
        let mut adts: Vec<(String, J)> = vec![];
        let mut impls: Vec<J> = vec![];
        let mut traits: Vec<(String, J)> = vec![];
        let mut aliases: Vec<(String, J)> = vec![];
        for id in tcx.hir_free_items() {
            let ldid = id.owner_id.def_id;
            let did = ldid.to_def_id();
            match tcx.def_kind(did) {
                DefKind::Struct | DefKind::Enum | DefKind::Union => {
                    let adt = tcx.adt_def(did);
                    let mut vars = vec![];
                    for v in adt.variants().iter() {
                        let mut fs = vec![];
                        for f in v.fields.iter() {
                            let fty = tcx.type_of(f.did).instantiate_identity().skip_norm_wip();
                            fs.push(obj(vec![
                                ("name", s(f.name.to_string())),
                                ("ty", s(tystr(fty))),
                                ("vis", vis_json(tcx, f.did)),
                            ]));
                        }
                        vars.push(obj(vec![("name", s(v.name.to_string())), ("fields", J::Arr(fs))]));
                    }
                    adts.push((
                        defstr(tcx, did),
                        obj(vec![
                            ("kind", s(format!("{:?}", tcx.def_kind(did)))),
                            ("vis", vis_json(tcx, did)),
                            ("reachable", J::Bool(ev.is_reachable(ldid))),
                            ("variants", J::Arr(vars)),
                            ("span", span_json(tcx, tcx.def_span(did))),
                            ("non_exhaustive", J::Bool(adt.is_variant_list_non_exhaustive())),
                        ]),
                    ));
                },
                DefKind::Impl { of_trait } => {
                    let self_ty = tcx.type_of(did).instantiate_identity().skip_norm_wip();
                    let mut f: Vec<(&str, J)> = vec![
                        ("path", s(defstr(tcx, did))),
                        ("impl_id", s(format!("{:?}", did.index.as_u32()))),
                        ("self", s(tystr(self_ty))),
                        ("derived", J::Bool(tcx.is_automatically_derived(did))),
                        ("span", span_json(tcx, tcx.def_span(did))),
                    ];
                    if let ty::Adt(adt, _) = self_ty.kind() {
                        f.push(("self_adt", s(defstr(tcx, adt.did()))));
                    }
                    if of_trait {
                        let tr = tcx.impl_trait_ref(did).instantiate_identity().skip_norm_wip();
                        f.push(("trait", s(with_no_trimmed_paths!(format!("{}", tr.print_only_trait_path())))));
                        f.push(("trait_def", s(defstr(tcx, tr.def_id))));
                    } else {
                        f.push(("trait", J::Null));
                    }
                    let mut items = vec![];
                    for it in tcx.associated_items(did).in_definition_order() {
                        items.push(obj(vec![
                            ("name", s(it.name().to_string())),
                            ("kind", s(format!("{:?}", it.tag()))),
                            ("path", s(defstr(tcx, it.def_id))),
                        ]));
                    }
                    f.push(("items", J::Arr(items)));
                    impls.push(obj(f));
                },
                DefKind::Trait => {
                    let mut items = vec![];
                    for it in tcx.associated_items(did).in_definition_order() {
                        items.push(obj(vec![("name", s(it.name().to_string())), ("kind", s(format!("{:?}", it.tag())))]));
                    }
                    traits.push((defstr(tcx, did), obj(vec![("vis", vis_json(tcx, did)), ("items", J::Arr(items))])));
                },
                DefKind::TyAlias => {
                    let t = tcx.type_of(did).instantiate_identity().skip_norm_wip();
                    aliases.push((defstr(tcx, did), obj(vec![("ty", s(tystr(t))), ("vis", vis_json(tcx, did))])));
                },
                _ => {},
            }
        }

        let root = J::Obj(vec![
            ("crate".into(), s(name)),
            ("features".into(), J::Arr(self.features.iter().map(|f| s(f.clone())).collect())),
            ("cfgs".into(), J::Arr(self.cfgs.iter().map(|f| s(f.clone())).collect())),
            ("rustc".into(), s(option_env!("CFG_VERSION").unwrap_or("nightly"))),
            ("bodies".into(), J::Obj(bodies)),
            ("consts".into(), J::Obj(consts)),
            ("fns".into(), J::Obj(fns)),
            ("adts".into(), J::Obj(adts)),
            ("impls".into(), J::Arr(impls)),
            ("traits".into(), J::Obj(traits)),
            ("aliases".into(), J::Obj(aliases)),
        ]);
        let mut out = String::new();
        root.write(&mut out);
        let tmp = format!("{}.tmp.{}", out_path, std::process::id());
        std::fs::write(&tmp, out).expect("write facts");
        std::fs::rename(&tmp, &out_path).expect("rename facts");
        rustc_driver::Compilation::Continue
    }
}

fn main() {
    let mut args: Vec<String> = std::env::args().collect();
    // RUSTC_WORKSPACE_WRAPPER: argv[1] is the real rustc path
    if args.len() > 1 && (args[1].ends_with("rustc") || args[1].contains("/rustc")) {
        args.remove(1);
    }
    let mut features = vec![];
    let mut cfgs = vec![];
    let mut i = 0;
    while i < args.len() {
        if args[i] == "--cfg" && i + 1 < args.len() {
            let c = args[i + 1].clone();
            if let Some(rest) = c.strip_prefix("feature=") {
                features.push(rest.trim_matches('"').to_string());
            } else {
                cfgs.push(c);
            }
        }
        i += 1;
    }
    let mut cb = Cb { features, cfgs };
    rustc_driver::run_compiler(&args, &mut cb);
}
