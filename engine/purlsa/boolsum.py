"""purlsa.boolsum -- boolean summaries of small predicate bodies and char-class translation.

A predicate body (fn or closure returning bool, acyclic CFG) is summarised as a
formula over atoms by path enumeration; atoms that call other local predicates
are expanded by substitution.  Formulas over ONE char are translated into sets of
Unicode scalar values (python ints used as bitsets) through a table atom -> set.
Nothing of the analysed crate is executed: only its control structure is read.

Formula AST:
  ("T",) ("F",) ("not", f) ("and", (f...)) ("or", (f...))
  ("p", name, (args...))             primitive predicate on normalised terms
  ("all", strterm, closure_formula)  forall c in chars(strterm): f(c)   (f over ("cparam",))
  ("any", strterm, closure_formula)
"""
import unicodedata

from .core import AnchorError, strip, callee_name
from .sem import norm, nshow, atom_of, outcome_bool

CPARAM = ("cparam",)
MAXC = 0x110000

ALL_CALLS = ("std::iter::Iterator::all", "<std::str::Bytes<'_> as std::iter::Iterator>::all")
ANY_CALLS = ("std::iter::Iterator::any", "<std::str::Bytes<'_> as std::iter::Iterator>::any")
CHARS = "core::str::<impl str>::chars"
BYTES = "core::str::<impl str>::bytes"


def f_not(f):
    if f == ("T",):
        return ("F",)
    if f == ("F",):
        return ("T",)
    if f[0] == "not":
        return f[1]
    return ("not", f)


def f_and(fs):
    out = []
    for f in fs:
        if f == ("F",):
            return ("F",)
        if f == ("T",):
            continue
        if f[0] == "and":
            out.extend(f[1])
        else:
            out.append(f)
    if not out:
        return ("T",)
    if len(out) == 1:
        return out[0]
    return ("and", tuple(out))


def f_or(fs):
    out = []
    for f in fs:
        if f == ("T",):
            return ("T",)
        if f == ("F",):
            continue
        if f[0] == "or":
            out.extend(f[1])
        else:
            out.append(f)
    if not out:
        return ("F",)
    if len(out) == 1:
        return out[0]
    return ("or", tuple(out))


def subst(t, mapping):
    """Substitute ("arg", n) leaves of a normalised term."""
    if not isinstance(t, tuple):
        return t
    if len(t) == 2 and t[0] == "arg" and isinstance(t[1], int):
        return mapping.get(t[1], t)
    return tuple(subst(x, mapping) if isinstance(x, tuple) else x for x in t)


def subst_formula(f, mapping):
    k = f[0]
    if k in ("T", "F"):
        return f
    if k in ("not", "bytepred"):
        return (k, subst_formula(f[1], mapping))
    if k in ("and", "or"):
        return (k, tuple(subst_formula(x, mapping) for x in f[1]))
    if k == "p":
        return ("p", f[1], tuple(subst(a, mapping) for a in f[2]))
    if k in ("all", "any"):
        return (k, subst(f[1], mapping), f[2])
    return f


class Summarizer:
    def __init__(self, facts):
        self.facts = facts
        self.cache = {}

    # ------------------------------------------------------------ terms -> formulas
    def term_formula(self, body, t, depth=0):
        """Formula for a bool-valued term of `body`."""
        s_ = strip(t)
        if s_[0] == "const":
            if s_[1] is True:
                return ("T",)
            if s_[1] is False:
                return ("F",)
        if s_[0] == "unop" and s_[1] == "Not":
            return f_not(self.term_formula(body, s_[2], depth))
        if s_[0] == "phi":
            raise AnchorError("bool value with several reaching definitions outside path enumeration", body.key)
        if s_[0] == "call":
            return self.call_formula(body, s_, depth)
        if s_[0] == "binop":
            n = norm(s_)
            return ("p", "binop:" + n[1], (n[2], n[3]))
        if s_[0] == "cast":
            return self.term_formula(body, s_[2], depth)
        n = norm(s_)
        return ("p", "value", (n,))

    def call_formula(self, body, c, depth=0):
        path = c[1]
        args = c[2]
        if path in ALL_CALLS or path in ANY_CALLS:
            it = norm(args[0])
            if it[0] == "var":
                it = it[2]
            clo = strip(args[1])
            if it[0] == "call" and it[1] == CHARS and clo[0] in ("closure", "fn") and clo[1] in self.facts.bodies:
                cf = self.summary(clo[1], depth + 1)
                # closure params: arg1 = env, arg2 = the char ; fn item: arg1 = the char
                cf = subst_formula(cf, {2 if clo[0] == "closure" else 1: CPARAM})
                return ("all" if path in ALL_CALLS else "any", it[2][0], cf)
            if it[0] == "call" and it[1] == BYTES and clo[0] in ("closure", "fn") and clo[1] in self.facts.bodies:
                # a predicate over the UTF-8 *bytes*: usable as a char predicate only if it rejects every byte >= 0x80
                # (then "all bytes satisfy p" <=> "all chars are ASCII and satisfy p"); checked when the set is computed
                cf = self.summary(clo[1], depth + 1)
                cf = subst_formula(cf, {2 if clo[0] == "closure" else 1: CPARAM})
                kind = "all" if path in ALL_CALLS else "any"
                return (kind, it[2][0], ("bytepred", cf))
            raise AnchorError("Iterator::all/any over something other than str::chars with a local closure: %s" % nshow(it), body.key)
        if isinstance(path, str) and path in self.facts.bodies and self.facts.fns.get(path, {}).get("output") == "bool":
            f = self.summary(path, depth + 1)
            mapping = {i + 1: norm(a) for i, a in enumerate(args)}
            return subst_formula(f, mapping)
        n = norm(c)
        return ("p", n[1], n[2])

    # ------------------------------------------------------------ body summaries
    def summary(self, key, depth=0):
        if key in self.cache:
            return self.cache[key]
        if depth > 8:
            raise AnchorError("predicate summary too deep", key)
        body = self.facts.body(key)
        if body.back_edges():
            f = self.summary_with_loop(key, body, depth)
            self.cache[key] = f
            return f
        rets = body.exits()
        paths = []
        for p in body.acyclic_paths(0, set(rets)):
            if body.term(p[-1])["t"] != "return":
                continue  # diverging path (panic): not a value
            paths.append(p)
        if not paths:
            raise AnchorError("predicate has no returning path", key)
        disj = []
        for p in paths:
            conj = []
            for a, b in zip(p, p[1:]):
                eg = body.edge_guards(a, b)
                if eg is None:
                    continue
                cond, outcome = eg
                pos = outcome_bool(outcome)
                cs = strip(cond)
                if pos is None:
                    at = atom_of(cond, outcome)
                    conj.append(("p", "atom", (at,)))
                    continue
                f = self.term_formula(body, cs, depth)
                conj.append(f if pos else f_not(f))
            # value of _0 along this path
            rv = self.value_along(body, 0, p)
            conj.append(self.term_formula(body, rv, depth))
            disj.append(f_and(conj))
        f = f_or(disj)
        self.cache[key] = f
        return f

    def summary_with_loop(self, key, body, depth):
        """A predicate written as an explicit scan: `for c in s.chars() { if A(c) { return v } } rest`.  The loop is the
        quantifier any(s, A): if some char satisfies A the result is the constant v, otherwise whatever follows the loop."""
        from . import scanact
        if len(body.loops()) != 1:
            raise AnchorError("predicate body has several loops; cannot summarise", key)
        loop = scanact.char_loop(self.facts, body)
        st, lpaths, is_elem, exit_none = scanact.loop_transitions(self.facts, self, body, loop)
        if st:
            raise AnchorError("predicate loop carries state; cannot summarise as a quantifier", key)
        h = loop["header"]
        blocks = loop["blocks"]
        ret_conds = {True: [], False: []}
        for lp in lpaths:
            if lp["exit"] == "continue":
                if lp["effects"]:
                    raise AnchorError("predicate loop has effects", key)
                continue
            if lp["exit"] not in ("return", "break"):
                raise AnchorError("predicate loop leaves through %s" % lp["exit"], key)
            # follow the path to the function's return to read the constant it yields
            tail = list(lp["blocks"])
            cur = tail[-1]
            guard = 0
            while body.term(cur)["t"] != "return" and guard < 12:
                ss = body.succs(cur)
                if len(ss) != 1:
                    raise AnchorError("predicate loop exit is not straight-line", key)
                cur = ss[0]
                tail.append(cur)
                guard += 1
            v = strip(self.value_along(body, 0, tuple(tail)))
            if v[0] != "const" or not isinstance(v[1], bool):
                raise AnchorError("predicate loop returns a non-constant from inside the loop", key)
            if any(c[0] == "p" and c[1] == "opaque" for c in lp["conds"]):
                raise AnchorError("predicate loop branches on something other than the element", key)
            ret_conds[v[1]].append(f_and(list(lp["conds"])))
        if ret_conds[True] and ret_conds[False]:
            raise AnchorError("predicate loop returns both constants from inside (first-match order matters)", key)
        v1 = True if ret_conds[True] else False
        a = f_or(ret_conds[v1]) if ret_conds[v1] else ("F",)
        quant = ("any", loop["subject"], a)
        # before the loop: paths from entry to the header (conditions), and returns that never reach the loop
        rets = set(body.exits())
        disj = []
        pre = []
        for p in body.acyclic_paths(0, rets | {h}):
            conj = self._path_conj(body, p, depth)
            if p[-1] == h:
                pre.append(f_and(conj))
            elif body.term(p[-1])["t"] == "return":
                conj.append(self.term_formula(body, self.value_along(body, 0, p), depth))
                disj.append(f_and(conj))
        pre_f = f_or(pre) if pre else ("F",)
        # after the loop (iterator exhausted)
        post = []
        if exit_none is None:
            raise AnchorError("predicate loop has no exhaustion exit", key)
        for p in body.acyclic_paths(exit_none, rets):
            if body.term(p[-1])["t"] != "return" or any(b in blocks for b in p):
                continue
            conj = self._path_conj(body, p, depth)
            conj.append(self.term_formula(body, self.value_along(body, 0, p), depth))
            post.append(f_and(conj))
        post_f = f_or(post) if post else ("F",)
        if v1:
            disj.append(f_and([pre_f, quant]))
        disj.append(f_and([pre_f, f_not(quant), post_f]))
        return f_or(disj)

    def _path_conj(self, body, p, depth):
        conj = []
        for a, b in zip(p, p[1:]):
            eg = body.edge_guards(a, b)
            if eg is None:
                continue
            cond, outcome = eg
            pos = outcome_bool(outcome)
            if pos is None:
                conj.append(("p", "atom", (atom_of(cond, outcome),)))
                continue
            f = self.term_formula(body, strip(cond), depth)
            conj.append(f if pos else f_not(f))
        return conj

    def value_along(self, body, local, path):
        last = None
        for b in path:
            for i, st in enumerate(body.blocks[b]["stmts"]):
                if st["s"] == "assign" and st["place"]["l"] == local and not st["place"]["proj"]:
                    last = ("rv", st["rv"])
            t = body.term(b)
            if t["t"] == "call" and t["dest"]["l"] == local and not t["dest"]["proj"] and b != path[-1]:
                last = ("call", b)
            elif t["t"] == "call" and t["dest"]["l"] == local and b == path[-1]:
                pass
        if last is None:
            raise AnchorError("no definition of _%d on a path" % local, body.key)
        if last[0] == "rv":
            return body._rv_term(last[1])
        return body.call_term(last[1])


# ---------------------------------------------------------------- char classes
_sets = {}


def bits(pred):
    v = 0
    for c in range(MAXC):
        if 0xD800 <= c <= 0xDFFF:
            continue
        if pred(c):
            v |= 1 << c
    return v


def bits_cached(name, pred):
    if name not in _sets:
        _sets[name] = bits(pred)
    return _sets[name]


def range_bits(lo, hi):
    if hi < lo:
        return 0
    return (((1 << (hi - lo + 1)) - 1) << lo) & universe()


def pred_formula(facts, summ, key):
    """Formula over CPARAM of a char predicate given as closure (param = arg2) or as fn item (param = arg1)."""
    if isinstance(key, tuple) and key[0] == "bytes":
        # a predicate over the UTF-8 bytes of the text: see the `bytepred` node of charset()
        return ("bytepred", pred_formula(facts, summ, key[1]))
    if key not in facts.bodies and (key in CHAR_PREDS or key.startswith("core::num::<impl u8>::is_ascii")):
        # a std predicate passed as a fn item (`any(char::is_uppercase)`): the table entry applied to the element
        return ("p", key, (CPARAM,))
    f = summ.summary(key)
    idx = 2 if facts.bodies[key].kind == "closure" else 1
    return subst_formula(f, {idx: CPARAM})


def ascii_bits(pred):
    v = 0
    for c in range(128):
        if pred(c):
            v |= 1 << c
    return v


def universe():
    if "U" not in _sets:
        _sets["U"] = ((1 << MAXC) - 1) & ~(((1 << 0x800) - 1) << 0xD800)
    return _sets["U"]


def set_of(name):
    if name in _sets:
        return _sets[name]
    if name == "ascii":
        v = (1 << 128) - 1
    elif name == "ascii_alphanumeric":
        v = ascii_bits(lambda c: chr(c).isalnum())
    elif name == "ascii_alphabetic":
        v = ascii_bits(lambda c: chr(c).isalpha())
    elif name == "ascii_digit":
        v = ascii_bits(lambda c: chr(c).isdigit())
    elif name == "ascii_lowercase":
        v = ascii_bits(lambda c: 97 <= c <= 122)
    elif name == "ascii_uppercase":
        v = ascii_bits(lambda c: 65 <= c <= 90)
    elif name == "ascii_hexdigit":
        v = ascii_bits(lambda c: chr(c) in "0123456789abcdefABCDEF")
    elif name == "ascii_punctuation":
        v = ascii_bits(lambda c: 33 <= c <= 47 or 58 <= c <= 64 or 91 <= c <= 96 or 123 <= c <= 126)
    elif name == "ascii_whitespace":
        v = ascii_bits(lambda c: c in (9, 10, 12, 13, 32))
    elif name == "ascii_control":
        v = ascii_bits(lambda c: c < 32 or c == 127)
    elif name == "uppercase":
        # Unicode derived property Uppercase = Lu + Other_Uppercase (char::is_uppercase)
        other_upper = set(range(0x2160, 0x2170)) | set(range(0x24B6, 0x24D0)) | set(range(0x1F130, 0x1F14A)) | set(range(0x1F150, 0x1F16A)) | set(range(0x1F170, 0x1F18A))
        v = bits(lambda c: unicodedata.category(chr(c)) == "Lu" or c in other_upper)
    elif name == "lowercase":
        v = bits(lambda c: unicodedata.category(chr(c)) == "Ll" or unicodedata.category(chr(c)) == "Lo" and False)
    elif name == "lower_changes":
        # chars c with to_lowercase(c) != [c]
        v = bits(lambda c: chr(c).lower() != chr(c))
    elif name == "alphabetic":
        v = bits(lambda c: chr(c).isalpha())
    elif name == "numeric":
        v = bits(lambda c: unicodedata.category(chr(c)) in ("Nd", "Nl", "No"))
    elif name == "whitespace":
        v = bits(lambda c: chr(c).isspace())
    else:
        raise AnchorError("no character set table for %s" % name)
    _sets[name] = v
    return v


CHAR_PREDS = {
    "std::char::methods::<impl char>::is_ascii": "ascii",
    "std::char::methods::<impl char>::is_ascii_alphanumeric": "ascii_alphanumeric",
    "std::char::methods::<impl char>::is_ascii_alphabetic": "ascii_alphabetic",
    "std::char::methods::<impl char>::is_ascii_digit": "ascii_digit",
    "std::char::methods::<impl char>::is_ascii_lowercase": "ascii_lowercase",
    "std::char::methods::<impl char>::is_ascii_uppercase": "ascii_uppercase",
    "std::char::methods::<impl char>::is_ascii_hexdigit": "ascii_hexdigit",
    "std::char::methods::<impl char>::is_ascii_punctuation": "ascii_punctuation",
    "std::char::methods::<impl char>::is_ascii_whitespace": "ascii_whitespace",
    "std::char::methods::<impl char>::is_ascii_control": "ascii_control",
    "std::char::methods::<impl char>::is_uppercase": "uppercase",
    "std::char::methods::<impl char>::is_alphabetic": "alphabetic",
    "std::char::methods::<impl char>::is_numeric": "numeric",
    "std::char::methods::<impl char>::is_whitespace": "whitespace",
}

SLICE_CONTAINS = "core::slice::<impl [T]>::contains"


def const_chars(t):
    """chars of a constant &[char] / [char; N] / char term; None otherwise."""
    t = strip(t)
    v = None
    if t[0] == "const":
        v = t[1]
    elif t[0] == "named":
        v = t[3]
    elif t[0] == "agg" and t[1][0] == "array":
        out = []
        for x in t[2]:
            cs = const_chars(x)
            if cs is None or len(cs) != 1:
                return None
            out.extend(cs)
        return out
    if v is None:
        return None
    if isinstance(v, tuple) and v and v[0] == "char":
        return [v[1]]
    if isinstance(v, tuple) and v and v[0] in ("slice", "array"):
        out = []
        for x in v[1]:
            if isinstance(x, tuple) and x and x[0] == "char":
                out.append(x[1])
            else:
                return None
        return out
    return None


def charset(f, facts=None):
    """Set (bitset int) of chars c for which formula f (over CPARAM) holds."""
    k = f[0]
    if k == "T":
        return universe()
    if k == "F":
        return 0
    if k == "not":
        return universe() & ~charset(f[1], facts)
    if k == "bytepred":
        # s.bytes().all(P) / .any(P) as a statement about the characters of s: every byte of a non-ASCII character is >= 0x80,
        # so P must treat all those bytes alike -- then it is the char predicate "P on ASCII, that constant elsewhere"
        v = charset(f[1], facts)
        ascii_ = (1 << 128) - 1
        high = (v >> 128) & ascii_
        if high == 0:
            return v & ascii_
        if high == ascii_:
            return (v & ascii_) | (universe() & ~ascii_)
        raise AnchorError("a predicate over UTF-8 bytes distinguishes between bytes >= 0x80: it is not a predicate over characters")
    if k == "and":
        v = universe()
        for x in f[1]:
            v &= charset(x, facts)
        return v
    if k == "or":
        v = 0
        for x in f[1]:
            v |= charset(x, facts)
        return v
    if k == "p":
        name, args = f[1], f[2]
        if name in CHAR_PREDS and len(args) == 1 and args[0] == CPARAM:
            return set_of(CHAR_PREDS[name])
        if name == "value" and len(args) == 1 and args[0][0] == "index":
            # TABLE[c as usize] / TABLE[usize::from(b)] with a compile-time evaluated [bool; N] table: the set of indices whose
            # entry is true (an index >= N would be a bounds panic, which is C06's business: J15)
            tbl, idx = args[0][1], args[0][2]
            for _ in range(3):
                if idx[0] == "cast":
                    idx = idx[2]
                elif idx[0] == "call" and len(idx[2]) == 1 and (idx[1].endswith(" for usize>::from") or idx[1].endswith("::into") or idx[1].endswith(" for u32>::from")):
                    idx = idx[2][0]
            v = tbl[3] if tbl[0] == "named" else tbl[1] if tbl[0] == "const" else None
            if idx == CPARAM and isinstance(v, tuple) and v and v[0] == "array" and all(isinstance(x, bool) for x in v[1]):
                bits_ = 0
                for i, x in enumerate(v[1]):
                    if x:
                        bits_ |= 1 << i
                return bits_
        if name.startswith("core::num::<impl u8>::is_ascii") and len(args) == 1 and args[0] == CPARAM:
            nm = name.split("::")[-1][3:]
            return set_of(nm) if nm != "ascii" else (1 << 128) - 1
        if name in ("std::ops::RangeInclusive::<Idx>::contains", "std::ops::Range::<Idx>::contains") and len(args) == 2 and args[1] == CPARAM:
            r = args[0]
            v = r[3] if r[0] == "named" else r[1] if r[0] == "const" else None
            if isinstance(v, tuple) and v and v[0] == "struct" and v[1].startswith("std::ops::Range"):
                fld = dict(v[2])
                lo, hi = fld.get("start"), fld.get("end")
                lo = lo[1] if isinstance(lo, tuple) and lo[0] == "char" else lo
                hi = hi[1] if isinstance(hi, tuple) and hi[0] == "char" else hi
                if isinstance(lo, int) and isinstance(hi, int):
                    return range_bits(lo, hi if v[1].endswith("RangeInclusive") else hi - 1)
        if name == SLICE_CONTAINS and len(args) == 2 and args[1] == CPARAM:
            cs = const_chars(args[0])
            if cs is None and facts is not None:
                cs = named_chars(args[0], facts)
            if cs is not None:
                v = 0
                for c in cs:
                    v |= 1 << c
                return v
        if name in ("binop:Le", "binop:Lt", "binop:Ge", "binop:Gt") and len(args) == 2:
            op = name.split(":")[1]

            def point(t):
                cs = const_chars(t)
                if cs and len(cs) == 1:
                    return cs[0]
                if t[0] == "const" and isinstance(t[1], int) and not isinstance(t[1], bool) and 0 <= t[1] < 256:
                    return t[1]   # a byte constant (u8 comparisons of a bytes() predicate)
                return None
            if args[1] == CPARAM and point(args[0]) is not None:
                k = point(args[0])   # k op c
                lo, hi = {"Le": (k, MAXC - 1), "Lt": (k + 1, MAXC - 1), "Ge": (0, k), "Gt": (0, k - 1)}[op]
                return range_bits(lo, hi)
            if args[0] == CPARAM and point(args[1]) is not None:
                k = point(args[1])   # c op k
                lo, hi = {"Le": (0, k), "Lt": (0, k - 1), "Ge": (k, MAXC - 1), "Gt": (k + 1, MAXC - 1)}[op]
                return range_bits(lo, hi)
        if name in ("binop:Eq", "binop:Ne") and len(args) == 2:
            other = args[1] if args[0] == CPARAM else args[0] if args[1] == CPARAM else None
            if other is not None:
                cs = const_chars(other)
                if cs is None and other[0] == "const" and isinstance(other[1], int) and 0 <= other[1] < 256:
                    cs = [other[1]]   # a byte constant
                if cs is not None and len(cs) == 1:
                    v = 1 << cs[0]
                    return v if name == "binop:Eq" else universe() & ~v
        if name in ("std::iter::Iterator::eq", "std::iter::Iterator::ne") and len(args) == 2:
            # c.to_lowercase().eq([c])  /  .ne([c]) : "lower-casing does not / does change c"
            a, b = args
            if a[0] == "call" and a[1].endswith("<impl char>::to_lowercase") and a[2] == (CPARAM,) and b[0] == "agg" and b[1][0] == "array" and b[2] == (CPARAM,):
                fixed = universe() & ~set_of("lower_changes")
                return fixed if name.endswith("::eq") else universe() & ~fixed
            if a[0] == "call" and a[1].endswith("<impl char>::to_uppercase") and a[2] == (CPARAM,) and b[0] == "agg" and b[1][0] == "array" and b[2] == (CPARAM,):
                fixed = bits_cached("upper_fixed", lambda c: chr(c).upper() == chr(c))
                return fixed if name.endswith("::eq") else universe() & ~fixed
        # positional reads of a case mapping (core.Body.cursor_positions):  it.next() at position k of c.to_lowercase()
        def mapped_read(t):
            t = strip(t)
            if t[0] == "call" and t[1].endswith("::next") and len(t[2]) == 1 and t[2][0][0] == "nth":
                src = strip(t[2][0][1])
                if src[0] == "call" and len(src[2]) == 1 and strip(src[2][0]) == CPARAM:
                    if src[1].endswith("<impl char>::to_lowercase"):
                        return ("lower", t[2][0][2])
                    if src[1].endswith("<impl char>::to_uppercase"):
                        return ("upper", t[2][0][2])
            return None

        def mapping(kind):
            return (lambda c: chr(c).lower()) if kind == "lower" else (lambda c: chr(c).upper())
        if name in ("std::option::Option::<T>::is_some", "std::option::Option::<T>::is_none") and len(args) == 1 and mapped_read(args[0]):
            kind, pos = mapped_read(args[0])
            m = mapping(kind)
            some = bits_cached("%s_len_gt_%d" % (kind, pos), lambda c: len(m(c)) > pos)
            return some if name.endswith("is_some") else universe() & ~some
        if name in ("std::cmp::PartialEq::eq", "std::cmp::PartialEq::ne") and len(args) == 2:
            for x, y in ((args[0], args[1]), (args[1], args[0])):
                r = mapped_read(x)
                y = strip(y)
                if r and y[0] == "agg" and y[1][0] == "adt" and y[1][1:3] == ("std::option::Option", "Some") and strip(y[2][0]) == CPARAM:
                    kind, pos = r
                    m = mapping(kind)
                    same = bits_cached("%s_at_%d_is_self" % (kind, pos), lambda c: len(m(c)) > pos and m(c)[pos] == chr(c))
                    return same if name.endswith("::eq") else universe() & ~same
        if name == "atom":
            at = args[0]
            # match on the char narrowed to a byte / u16 (`c as u8`): the cast keeps the low bits
            if at[0] == "val" and at[1][0] == "cast" and at[1][1] in ("IntToInt>u8", "IntToInt>u16") and strip(at[1][2]) == CPARAM:
                width = 8 if at[1][1].endswith("u8") else 16
                kind, vals = at[2]
                vals = (vals,) if kind == "eq" else tuple(vals)
                hit = bits_cached("low%d_in_%s" % (width, ",".join(str(v) for v in sorted(vals))), lambda c: (c & ((1 << width) - 1)) in vals)
                return hit if kind in ("eq", "in") else universe() & ~hit
            if at[0] == "val" and at[1][0] == "cast" and at[1][1] in ("IntToInt>u32", "IntToInt>u64", "IntToInt>usize", "IntToInt>i64", "IntToInt>u128") and strip(at[1][2]) == CPARAM:
                at = ("val", CPARAM, at[2])   # a widening cast of a char keeps its value
            # match on the char itself:  ("val", cparam, outcome)
            if at[0] == "val" and at[1] == CPARAM:
                kind, vals = at[2]
                if kind == "eq":
                    return 1 << vals
                if kind == "in":
                    v = 0
                    for c in vals:
                        v |= 1 << c
                    return v
                if kind == "ne":
                    v = 0
                    for c in vals:
                        v |= 1 << c
                    return universe() & ~v
        raise AnchorError("char predicate not in the semantics table: %s(%s)" % (name, ", ".join(nshow(a) if isinstance(a, tuple) else str(a) for a in args)))
    raise AnchorError("not a char formula: %r" % (f,))


def named_chars(t, facts):
    t = strip(t)
    if t[0] == "named" and t[1] in facts.consts:
        from .core import simplify_val
        v = simplify_val(facts.consts[t[1]]["v"])
        if isinstance(v, tuple) and v[0] in ("slice", "array"):
            return [x[1] for x in v[1] if isinstance(x, tuple) and x[0] == "char"]
    return None


def set_to_ranges(v, limit=40):
    """compact description of a bitset for reports"""
    out = []
    c = 0
    n = 0
    start = None
    while v:
        if v & 1:
            if start is None:
                start = c
        else:
            if start is not None:
                out.append((start, c - 1))
                start = None
                if len(out) >= limit:
                    break
        # skip long zero runs quickly
        if not (v & 0xFFFFFFFFFFFFFFFF) and start is None:
            v >>= 64
            c += 64
            continue
        v >>= 1
        c += 1
    if start is not None:
        out.append((start, c - 1))

    def ch(x):
        return chr(x) if 0x21 <= x < 0x7F else "U+%04X" % x

    return ", ".join(ch(a) if a == b else "%s-%s" % (ch(a), ch(b)) for a, b in out)


# ---------------------------------------------------------------- string predicates
def strpred_canon(f, facts=None):
    """Canonical form of a predicate over ONE string x (given as any term):
    returns (subject_term, truth) where truth maps assignments of the abstract
    features (is_empty, all(S1), all(S2)...) to bool, reduced to a comparable
    description: frozenset of (empty?, frozenset-of-satisfied-all-sets) is too
    rich; instead we return a normalised structure:
        {"nonempty": bool, "all": charset or None, "other": [...]}
    for the common conjunctive shape  [!is_empty(x)] && [all(x, S)] ; anything
    else yields "other" entries (rule code then fails closed)."""
    conj = list(f[1]) if f[0] == "and" else [f]
    res = {"subject": None, "nonempty": False, "all": None, "other": []}

    def subj(t):
        t = norm(t) if isinstance(t, tuple) else t
        if res["subject"] is None:
            res["subject"] = t
        elif res["subject"] != t:
            res["other"].append(("different-subject", t))

    for c in conj:
        if c[0] == "not" and c[1][0] == "p" and c[1][1] in ("core::str::<impl str>::is_empty", "smartstring::SmartString::<Mode>::is_empty", "std::string::String::is_empty"):
            subj(c[1][2][0])
            res["nonempty"] = True
        elif c[0] == "all":
            subj(c[1])
            s_ = charset(c[2], facts)
            res["all"] = s_ if res["all"] is None else (res["all"] & s_)
        elif c[0] == "not" and c[1][0] == "any":
            subj(c[1][1])
            s_ = universe() & ~charset(c[1][2], facts)
            res["all"] = s_ if res["all"] is None else (res["all"] & s_)
        else:
            res["other"].append(c)
    return res


def show_formula(f, d=0):
    k = f[0]
    if k == "T":
        return "true"
    if k == "F":
        return "false"
    if k == "bytepred":
        return "bytes:" + show_formula(f[1], d + 1)
    if k == "not":
        return "!" + show_formula(f[1], d + 1)
    if k in ("and", "or"):
        j = " && " if k == "and" else " || "
        return "(" + j.join(show_formula(x, d + 1) for x in f[1]) + ")"
    if k == "p":
        return "%s(%s)" % (f[1].split("::")[-1], ", ".join("c" if a == CPARAM else (nshow(a) if isinstance(a, tuple) else str(a)) for a in f[2]))
    if k in ("all", "any"):
        return "%s(chars(%s), c -> %s)" % (k, nshow(f[1]), show_formula(f[2], d + 1))
    return repr(f)
