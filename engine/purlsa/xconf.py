"""purlsa.xconf -- structural normal form of MIR bodies for cross-configuration comparison (DESIGN.md 2.4)."""
import json
import re

SMALL = "SmallString"
TYPE_MAP = [
    ("smartstring::SmartString<smartstring::LazyCompact>", SMALL),
    ("std::string::String", SMALL),
    ("alloc::string::String", SMALL),
]
PATH_MAP = [
    (re.compile(r"^smartstring::SmartString::<Mode>::"), SMALL + "::"),
    (re.compile(r"^std::string::String::"), SMALL + "::"),
]


FNITEM_MAP = [
    # fn-item types name the function: {SmartString::<LazyCompact>::as_str} / {String::as_str} are the aliased type's
    # inherent method, exactly as in a direct call (PATH_MAP)
    (re.compile(r"\{smartstring::SmartString::<smartstring::LazyCompact>::(\w+)\}"), r"{SmallString::\1}"),
    (re.compile(r"\{smartstring::SmartString::<Mode>::(\w+)\}"), r"{SmallString::\1}"),
    (re.compile(r"\{(?:std|alloc)::string::String::(\w+)\}"), r"{SmallString::\1}"),
]


def map_ty(s):
    for r, b in FNITEM_MAP:
        s = r.sub(b, s)
    for a, b in TYPE_MAP:
        s = s.replace(a, b)
    return s


def map_path(p):
    p = map_ty(p)
    for r, b in PATH_MAP:
        p = r.sub(b, p)
    return p


def map_key(k):
    return map_ty(k)


def rpo(body):
    seen = []
    mark = set()

    def visit(b):
        stack = [(b, iter(body.succs(b, unwind=True)))]
        mark.add(b)
        order = []
        while stack:
            n, it = stack[-1]
            adv = False
            for s in it:
                if s not in mark:
                    mark.add(s)
                    stack.append((s, iter(body.succs(s, unwind=True))))
                    adv = True
                    break
            if not adv:
                order.append(n)
                stack.pop()
        return order

    post = visit(0)
    return list(reversed(post))


class Normalizer:
    def __init__(self, body):
        self.body = body
        self.order = rpo(body)
        self.bmap = {b: i for i, b in enumerate(self.order)}
        self.lmap = {}
        for i in range(body.arg_count + 1):
            self.lmap[i] = i

    def L(self, l):
        if l not in self.lmap:
            self.lmap[l] = len(self.lmap)
        return self.lmap[l]

    def B(self, b):
        return self.bmap.get(b, "x%d" % b) if isinstance(b, int) else b

    def place(self, p):
        out = ["_%d" % self.L(p["l"])]
        for pr in p["proj"]:
            k = pr["p"]
            if k == "field":
                out.append(".%s" % pr["name"])
            elif k == "deref":
                out.append(".*")
            elif k == "downcast":
                out.append(" as %s" % pr["name"])
            elif k == "index":
                out.append("[_%d]" % self.L(pr["local"]))
            else:
                out.append(".<%s>" % k)
        return "".join(out)

    def const(self, c):
        k = c.get("k")
        if k == "fn":
            return "fn %s" % map_path(c["path"])
        if k == "unevaluated":
            return "const %s%s" % (map_path(c["def"]), "" if c.get("promoted") is None else "::promoted[%s]" % c["promoted"])
        return "const %s: %s" % (json.dumps(c.get("v"), sort_keys=True), map_ty(c.get("ty", "")))

    def op(self, o):
        if o["o"] in ("copy", "move"):
            return "%s %s" % (o["o"], self.place(o["place"]))
        if o["o"] == "const":
            return self.const(o["c"])
        return "?"

    def rv(self, r):
        k = r["r"]
        if k == "use":
            return self.op(r["op"])
        if k in ("ref", "rawptr"):
            return "&%s %s" % (r["bk"], self.place(r["place"]))
        if k == "cast":
            return "cast<%s>(%s) as %s" % (r["kind"], self.op(r["op"]), map_ty(r["ty"]))
        if k == "binop":
            return "%s(%s, %s)" % (r["bop"], self.op(r["a"]), self.op(r["b"]))
        if k == "unop":
            return "%s(%s)" % (r["uop"], self.op(r["a"]))
        if k == "discr":
            return "discr(%s)" % self.place(r["place"])
        if k == "aggregate":
            head = r["ak"]
            if head == "adt":
                head = "%s::%s" % (map_path(r["path"]), r["variant"])
            elif head == "closure":
                head = "closure %s" % map_path(r["path"])
            return "%s{%s}" % (head, ", ".join(self.op(o) for o in r["ops"]))
        if k == "repeat":
            return "[%s; %s]" % (self.op(r["op"]), r["n"])
        return "other(%s)" % map_ty(str(r.get("dbg")))

    def text(self):
        body = self.body
        lines = []
        for b in self.order:
            bl = body.blocks[b]
            lines.append("bb%s%s:" % (self.B(b), " (cleanup)" if bl["cleanup"] else ""))
            for st in bl["stmts"]:
                if st["s"] == "assign":
                    lines.append("  %s = %s" % (self.place(st["place"]), self.rv(st["rv"])))
                elif st["s"] == "setdiscr":
                    lines.append("  discr(%s) = %s" % (self.place(st["place"]), st["variant_idx"]))
                else:
                    lines.append("  other %s" % map_ty(str(st.get("dbg"))))
            t = bl["term"]
            k = t["t"]
            if k == "goto":
                lines.append("  goto bb%s" % self.B(t["target"]))
            elif k == "switch":
                arms = ", ".join("%s: bb%s" % (v, self.B(tg)) for v, tg in t["arms"])
                lines.append("  switch(%s : %s) [%s, otherwise: bb%s]" % (self.op(t["discr"]), map_ty(t["discr_ty"]), arms, self.B(t["otherwise"])))
            elif k == "call":
                ce = t["callee"]
                if "path" in ce:
                    mp = map_path(ce["path"])
                    # inherent methods of the aliased string type: the mode parameter is part of the alias
                    gargs = [] if mp.startswith(SMALL + "::") else [map_ty(a) for a in ce["args"]]
                    c = "%s<%s>" % (mp, ", ".join(gargs))
                else:
                    c = "indirect %s" % self.op(ce["indirect"])
                uw = t["unwind"]
                lines.append("  %s = call %s(%s) -> bb%s unwind %s" % (self.place(t["dest"]), c, ", ".join(self.op(a) for a in t["args"]), self.B(t["target"]) if t["target"] is not None else "!", "bb%s" % self.B(uw) if isinstance(uw, int) else uw))
            elif k == "drop":
                uw = t["unwind"]
                lines.append("  drop(%s) -> bb%s unwind %s" % (self.place(t["place"]), self.B(t["target"]), "bb%s" % self.B(uw) if isinstance(uw, int) else uw))
            elif k == "assert":
                uw = t["unwind"]
                lines.append("  assert(%s == %s, %s(%s)) -> bb%s unwind %s" % (self.op(t["cond"]), t["expected"], t["kind"], ", ".join(self.op(o) for o in t["ops"]), self.B(t["target"]), "bb%s" % self.B(uw) if isinstance(uw, int) else uw))
            else:
                lines.append("  %s" % k)
        # local types in renumbered order
        tys = sorted((n, map_ty(body.locals[o]["ty"])) for o, n in self.lmap.items())
        lines.append("locals: " + "; ".join("_%d: %s" % (n, t) for n, t in tys))
        return "\n".join(lines)


def normal_form(body):
    return Normalizer(body.raw_view()).text()


def first_diff(a, b):
    la, lb = a.split("\n"), b.split("\n")
    for i, (x, y) in enumerate(zip(la, lb)):
        if x != y:
            return "line %d: %s  |vs|  %s" % (i, x[:160], y[:160])
    if len(la) != len(lb):
        return "length %d vs %d" % (len(la), len(lb))
    return ""
