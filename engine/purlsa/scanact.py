"""purlsa.scanact -- summary of "scan the chars, then act on the whole string" functions
(lowercase_in_place / copy_as_lowercase style) and of char-loop transducers (fix_pypi_name style).

A char loop is turned into a transition table over the partition of the char domain induced by the
loop's own branch atoms; nothing is executed: classes are bitsets computed from the atoms' char-class
translation (boolsum), transitions are read off the CFG paths of the loop body.
"""
from .core import AnchorError, callee_name, strip
from .sem import norm, nshow, atom_of, is_dropflag_cond
from . import boolsum, models

CHARS = "core::str::<impl str>::chars"


def char_loop(facts, body):
    """Find the single natural loop iterating over chars(X): returns dict(header, next_bb, iter_local, subject term, blocks)."""
    found = []
    for h, (nb, it, npath) in models.loop_of_next(body).items():
        src = it[2] if it[0] == "var" else it
        while src[0] == "call" and "into_iter" in src[1]:
            src = src[2][0]
        if npath.startswith("<std::str::Chars") and src[0] == "call" and src[1] == CHARS:
            found.append({"header": h, "next_bb": nb, "iter": it, "subject": src[2][0], "blocks": body.loops()[h]})
    if len(found) != 1:
        raise AnchorError("expected exactly one loop over str::chars, found %d" % len(found), body.key)
    return found[0]


def elem_atom_formula(facts, summ, body, cond, outcome, elem_pred):
    """Formula over CPARAM for a branch condition inside the loop, or None if it does not speak about the element."""
    pos = None
    from .sem import outcome_bool
    pos = outcome_bool(outcome)
    c = strip(cond)
    if pos is None:
        # a `match` on the element itself: the arm taken says which values the element has
        n = norm(c)
        if elem_pred(n) and outcome[0] in ("eq", "in", "ne"):
            return ("p", "atom", (("val", boolsum.CPARAM, outcome),))
        if n[0] == "cast" and n[1].startswith("IntToInt>") and elem_pred(n[2]) and outcome[0] in ("eq", "in", "ne"):
            return ("p", "atom", (("val", ("cast", n[1], boolsum.CPARAM), outcome),))
        return None
    try:
        f = summ.term_formula(body, c)
    except AnchorError:
        return None
    f = subst_elem(f, elem_pred)
    return f if pos else boolsum.f_not(f)


def subst_elem(f, is_elem):
    k = f[0]
    if k in ("T", "F"):
        return f
    if k == "not":
        return ("not", subst_elem(f[1], is_elem))
    if k in ("and", "or"):
        return (k, tuple(subst_elem(x, is_elem) for x in f[1]))
    if k == "p":
        return ("p", f[1], tuple(subst_term(a, is_elem) for a in f[2]))
    return f


def subst_term(t, is_elem):
    if not isinstance(t, tuple):
        return t
    if t and isinstance(t[0], str) and is_elem(t):
        return boolsum.CPARAM
    return tuple(subst_term(x, is_elem) if isinstance(x, tuple) else x for x in t)


def mentions_cparam(f):
    k = f[0]
    if k in ("T", "F"):
        return False
    if k == "not":
        return mentions_cparam(f[1])
    if k in ("and", "or"):
        return any(mentions_cparam(x) for x in f[1])
    if k == "p":
        return any(a == boolsum.CPARAM for a in f[2])
    return False


def _const_only_locals(body):
    """locals all of whose (non-cleanup) definitions are constants, or whole-local copies of such locals (the result of an
    inlined predicate handed on through temporaries): local -> [(bb, value)]"""
    out = {}
    for _round in range(4):
        grew = False
        for local, ds in body.defs().items():
            if local in out:
                continue
            vals = []
            ok = True
            for (b, i, kind, payload) in ds:
                if body.is_cleanup(b):
                    continue
                if kind != "rv":
                    ok = False
                    break
                v = const_state_value(strip(body._rv_term(payload)))
                if v is None:
                    if payload["r"] == "use" and payload["op"]["o"] in ("copy", "move") and not payload["op"]["place"]["proj"] and payload["op"]["place"]["l"] in out and payload["op"]["place"]["l"] != local:
                        vals.extend((b, tv) for (_, tv) in out[payload["op"]["place"]["l"]])
                        continue
                    ok = False
                    break
                vals.append((b, v))
            if ok and vals:
                out[local] = vals
                grew = True
        if not grew:
            break
    return out


def _is_drop_flag(body, l):
    """a compiler-made drop flag: a bool that is only ever read by `if flag { drop(x) }` switches"""
    from .thread import _cond_drop
    if body.locals[l]["ty"] != "bool":
        return False
    reads = 0
    for b, bl in enumerate(body.blocks):
        if bl.get("dead"):
            continue
        for st in bl["stmts"]:
            if st.get("s") == "assign" and _mentions_local_rv(st["rv"], l):
                return False
        t = bl["term"]
        if t["t"] == "switch":
            op = t["discr"]
            if op["o"] in ("copy", "move") and op["place"]["l"] == l:
                if bl["cleanup"]:
                    reads += 1
                    continue
                if _cond_drop(body.blocks, b, t) is None:
                    return False
                reads += 1
        elif _mentions_local_rv(t, l) and not (t["t"] == "call" and not t["dest"]["proj"] and t["dest"]["l"] == l and not _mentions_local_rv(t.get("args", []), l)):
            return False
    return reads > 0


def _mentions_local_rv(x, l):
    if isinstance(x, dict):
        if "l" in x and "proj" in x:
            return x["l"] == l or any(pe.get("p") == "index" and pe.get("local") == l for pe in x["proj"])
        return any(_mentions_local_rv(v, l) for v in x.values())
    if isinstance(x, list):
        return any(_mentions_local_rv(v, l) for v in x)
    return False


def break_arms(body, loop_blocks, header, start, exit_none):
    """blocks that run only in the iteration that leaves the loop early: reachable from the loop body without passing the
    header again, outside the natural loop, and not reachable from the exhaustion exit (where the ways out meet again)"""
    if start is None or exit_none is None:
        return set()
    after = body.reachable_from(exit_none, avoid={header})
    return set(b for b in body.reachable_from(start, avoid={header}) if b not in loop_blocks and b not in after and not body.is_cleanup(b))


def _branch_decided(body, t, b):
    """bool local t has one definition, and a block that branches on t itself dominates block b (t is not assigned again):
    on every path into b the value of t is known from the edge taken"""
    if t >= len(body.locals) or body.locals[t]["ty"] != "bool":
        return False
    ds = [d for d in body.defs().get(t, []) if not body.is_cleanup(d[0])]
    if len(ds) != 1:
        return False
    for sb in range(len(body.blocks)):
        if body.is_cleanup(sb) or sb == b or body.term(sb)["t"] != "switch":
            continue
        op = body.term(sb)["discr"]
        if op["o"] in ("copy", "move") and not op["place"]["proj"] and op["place"]["l"] == t and body.dominates(sb, b):
            return True
    return False


def state_locals(body, loop_blocks, arms=()):
    """Loop-carried control state: locals whose every definition is a constant (enum unit variant / bool), directly or by
    copying a temporary that itself only holds constants (`state = if c { A } else { B }`), with a definition inside the
    loop (or in a break-exit block) and one before it.  Returns {local: {"init": [...], "values": set}}"""
    consts = _const_only_locals(body)
    out = {}
    headers = [b for b in loop_blocks if any(p_ not in loop_blocks and not body.is_cleanup(p_) for p_ in body.preds()[b])]
    for local, ds in body.defs().items():
        vals = []
        ok = True
        for (b, i, kind, payload) in ds:
            if body.is_cleanup(b):
                continue
            if kind != "rv":
                ok = False
                break
            v = const_state_value(strip(body._rv_term(payload)))
            if v is not None:
                vals.append((b, v))
                continue
            if payload["r"] == "use" and payload["op"]["o"] in ("copy", "move") and not payload["op"]["place"]["proj"] and payload["op"]["place"]["l"] in consts:
                for (_, tv) in consts[payload["op"]["place"]["l"]]:
                    vals.append((b, tv))
                continue
            if payload["r"] == "use" and payload["op"]["o"] in ("copy", "move") and not payload["op"]["place"]["proj"] and _branch_decided(body, payload["op"]["place"]["l"], b):
                # `flag = dash` behind `if dash { .. } else { .. }`: on every way here the copied bool has been tested, so
                # each path stores a known constant
                vals.append((b, ("bool", True)))
                vals.append((b, ("bool", False)))
                continue
            ok = False
            break
        if not ok or not vals:
            continue
        # a block entered from the loop only (the `break` side of a branch) still belongs to the iteration that leaves
        def exit_block(b):
            ps = [p_ for p_ in body.preds()[b] if not body.is_cleanup(p_)]
            return bool(ps) and all(p_ in loop_blocks for p_ in ps)
        xb = (lambda b: exit_block(b) or b in arms) if not _is_drop_flag(body, local) else (lambda b: False)
        inside = [v for b, v in vals if b in loop_blocks or xb(b)]
        outside = [v for b, v in vals if not (b in loop_blocks or xb(b))]
        in_loop = [v for b, v in vals if b in loop_blocks]
        # a value stored only on the way out is state only next to an initialisation *before* the loop (the function's
        # result assigned in an early-return arm and again after the loop is not)
        init_before = any(b not in loop_blocks and not xb(b) and any(body.dominates(b, h_) for h_ in headers) for b, v in vals)
        if inside and len(outside) >= 1 and (in_loop or init_before):
            out[local] = {"init": outside, "values": set(v for _, v in vals)}
    # temporaries that only feed a state local are not state themselves
    feeders = set()
    for local in out:
        for (b, i, kind, payload) in body.defs()[local]:
            if kind == "rv" and payload["r"] == "use" and payload["op"]["o"] in ("copy", "move") and not payload["op"]["place"]["proj"]:
                feeders.add(payload["op"]["place"]["l"])
    for f_ in feeders:
        out.pop(f_, None)
    return out


def const_state_value(t):
    if t[0] == "const" and isinstance(t[1], bool):
        return ("bool", t[1])
    if t[0] == "agg" and t[1][0] == "adt" and not t[2]:
        return ("variant", t[1][1], t[1][2])
    # a variant carrying constants only (`Some(true)` used as a three-valued state together with `None`)
    if t[0] == "agg" and t[1][0] == "adt" and t[2] and all(x[0] == "const" and isinstance(x[1], (bool, int)) for x in t[2]):
        return ("variant", t[1][1], t[1][2], tuple(x[1] for x in t[2]))
    return None


def switch_local(body, bb):
    """If block bb switches on (the discriminant of) a plain local, return (local, is_discr, variants)."""
    t = body.term(bb)
    if t["t"] != "switch":
        return None
    op = t["discr"]
    if op["o"] in ("copy", "move") and [p_.get("p") for p_ in op["place"]["proj"]] == ["downcast", "field"]:
        pl = op["place"]
        return (pl["l"], ("payload", pl["proj"][0].get("name"), pl["proj"][1]["i"]), (), False)
    if op["o"] in ("copy", "move") and len(op["place"]["proj"]) == 1 and op["place"]["proj"][0].get("p") == "field":
        # `match (a, b) { (true, _) => .. }` / `match scan(s) { .. }` with scan returning the pair: the tested field of a
        # tuple that was built from plain locals is that local
        l = _tuple_field_source(body, op["place"]["l"], op["place"]["proj"][0]["i"])
        if l is None:
            return None
    elif op["o"] not in ("copy", "move") or op["place"]["proj"]:
        return None
    else:
        l = op["place"]["l"]
    neg = False
    for _ in range(4):
        ds = [d for d in body.defs().get(l, []) if not body.is_cleanup(d[0])]
        if len(ds) == 1 and ds[0][2] == "rv" and ds[0][3]["r"] == "discr" and not ds[0][3]["place"]["proj"]:
            src = ds[0][3]["place"]["l"]
            for _ in range(4):   # the matched value may be a moved copy of the state (`match scan(s) {..}` inlined)
                d2 = [d for d in body.defs().get(src, []) if not body.is_cleanup(d[0])]
                if len(d2) == 1 and d2[0][2] == "rv" and d2[0][3]["r"] == "use" and d2[0][3]["op"]["o"] in ("copy", "move") and not d2[0][3]["op"]["place"]["proj"]:
                    src = d2[0][3]["op"]["place"]["l"]
                else:
                    break
            return (src, True, tuple(ds[0][3].get("variants", ())), neg)
        if len(ds) == 1 and ds[0][2] == "rv" and ds[0][3]["r"] == "use" and ds[0][3]["op"]["o"] in ("copy", "move") and not ds[0][3]["op"]["place"]["proj"]:
            l = ds[0][3]["op"]["place"]["l"]
            continue
        if len(ds) == 1 and ds[0][2] == "rv" and ds[0][3]["r"] == "use" and ds[0][3]["op"]["o"] in ("copy", "move") and [p_.get("p") for p_ in ds[0][3]["op"]["place"]["proj"]] == ["downcast", "field"]:
            # a test of the constant a variant of the state carries: `match state { Some(true) => .. }`
            pl = ds[0][3]["op"]["place"]
            return (pl["l"], ("payload", pl["proj"][0].get("name"), pl["proj"][1]["i"]), (), neg)
        if len(ds) == 1 and ds[0][2] == "rv" and ds[0][3]["r"] == "unop" and ds[0][3]["uop"] == "Not" and ds[0][3]["a"]["o"] in ("copy", "move") and not ds[0][3]["a"]["place"]["proj"]:
            l = ds[0][3]["a"]["place"]["l"]
            neg = not neg
            continue
        break
    return (l, False, (), neg)


def _tuple_field_source(body, l, i):
    """the plain local that field i of tuple local l was built from (through whole-local moves of the tuple), or None"""
    for _ in range(6):
        ds = [d for d in body.defs().get(l, []) if not body.is_cleanup(d[0])]
        if len(ds) != 1 or ds[0][2] != "rv":
            return None
        rv = ds[0][3]
        if rv["r"] == "use" and rv["op"]["o"] in ("copy", "move") and not rv["op"]["place"]["proj"]:
            l = rv["op"]["place"]["l"]
            continue
        if rv["r"] == "aggregate" and rv.get("ak") == "tuple" and i < len(rv["ops"]):
            o = rv["ops"][i]
            if o["o"] in ("copy", "move") and not o["place"]["proj"]:
                return o["place"]["l"]
        return None
    return None


def _reads_before_writes(body, path, test_bb, state):
    """the value tested in test_bb is the state as it was when the iteration began: it is read (directly, or into the
    temporary that is tested, `mem::replace(&mut flag, true)` modelled) before any assignment to the state on this path"""
    # where is the state read?  walk the switch operand's copy chain back to the statement that reads `state`
    t = body.term(test_bb)
    l = t["discr"]["place"]["l"]
    read_at = None
    for _ in range(6):
        if l == state:
            break
        ds = [d for d in body.defs().get(l, []) if not body.is_cleanup(d[0])]
        if len(ds) != 1 or ds[0][2] != "rv":
            return False
        b, i, _, rv = ds[0]
        src = rv.get("place") if rv["r"] == "discr" else rv["op"].get("place") if rv["r"] == "use" else rv["a"].get("place") if rv["r"] == "unop" else None
        if src is None or src["proj"]:
            return False
        if src["l"] == state:
            read_at = (b, i)
            break
        l = src["l"]
    order = {b: n for n, b in enumerate(path)}
    if read_at is None:
        read_at = (test_bb, len(body.blocks[test_bb]["stmts"]))
    if read_at[0] not in order:
        return False
    for b in path:
        if b not in order or order[b] > order[read_at[0]]:
            continue
        for i, s_ in enumerate(body.blocks[b]["stmts"]):
            if s_.get("s") == "assign" and s_["place"]["l"] == state and (order[b] < order[read_at[0]] or i < read_at[1]):
                return False
    return True


def loop_transitions(facts, summ, body, loop):
    """Enumerate the paths of one loop iteration.

    Returns (states, paths) where each path = {"conds": [formula over CPARAM], "state_pre": {local: value},
    "assign": {local: value}, "effects": [...], "exit": "continue"|"break"|"return", "blocks": tuple}"""
    h = loop["header"]
    nb = loop["next_bb"]
    blocks = loop["blocks"]
    # element term: (next(..) as Some).0
    nxt = body.call_term(nb)

    def is_elem(a):
        return len(a) == 2 and a[0] == "some" and isinstance(a[1], tuple) and len(a[1]) == 4 and a[1][0] == "call" and a[1][1] == nxt[1] and a[1][3] == nb

    # first block of the body: the Some-successor of the discriminant switch on next()
    start = None
    exit_none = None
    for b in sorted(blocks):
        t = body.term(b)
        if t["t"] == "switch":
            c = strip(body.resolve_operand(t["discr"]))
            if c[0] == "discr" and strip(c[1])[0] == "call" and strip(c[1])[3] == nb:
                for (lab, tg) in body.edges(b):
                    if lab == ("sw", 1):
                        start = tg
                    elif lab == ("sw", 0):
                        exit_none = tg
                break
    if start is None:
        raise AnchorError("loop head shape not understood (no switch on next())", body.key)
    arms = break_arms(body, blocks, h, start, exit_none)
    st = state_locals(body, blocks, arms)
    paths = []
    stack = [(start, (start,))]
    guard = 0
    while stack:
        b, path = stack.pop()
        guard += 1
        if guard > 5000:
            raise AnchorError("loop body path explosion", body.key)
        t = body.term(b)
        succs = body.succs(b)
        if not succs:
            paths.append((path, "return" if t["t"] == "return" else "diverge"))
            continue
        for s_ in succs:
            if s_ == h or (s_ in blocks and body.dominates(s_, h) and s_ == h):
                paths.append((path + (s_,), "continue"))
            elif s_ not in blocks and s_ not in arms:
                paths.append((path + (s_,), "break"))
            elif s_ in path:
                raise AnchorError("inner cycle in loop body", body.key)
            else:
                stack.append((s_, path + (s_,)))
    res = []
    for path, kind in paths:
        conds = []
        pre = {}
        assign = {}
        effects = []
        tmpenv = {}
        for a, b2 in zip(path, path[1:]):
            eg = body.edge_guards(a, b2)
            ta = body.term(a)
            if eg is not None and ta["t"] == "switch" and ta["discr"]["o"] in ("copy", "move") and not ta["discr"]["place"]["proj"] and body.locals[ta["discr"]["place"]["l"]]["ty"] == "bool":
                from .sem import outcome_bool
                ob_ = outcome_bool(eg[1])
                if ob_ is not None:
                    tmpenv[ta["discr"]["place"]["l"]] = ("bool", ob_)     # what this path knows about the tested bool itself
            if eg is None or is_dropflag_cond(eg[0]) and switch_local(body, a) is None:
                continue
            sl = switch_local(body, a)
            if sl is not None and sl[0] in st:
                # a test of the loop-carried state
                local, is_d, variants, neg = sl
                if not _reads_before_writes(body, path, a, local):
                    raise AnchorError("loop state tested after being assigned in the same iteration", body.key)
                pre.setdefault(local, []).append(state_test_value(is_d, variants, eg[1], neg))
                continue
            f = elem_atom_formula(facts, summ, body, eg[0], eg[1], is_elem)
            if f is None:
                conds.append(("p", "opaque", (nshow(norm(eg[0])), str(eg[1]))))
            else:
                conds.append(f)
        for b2 in path:
            if b2 not in blocks and b2 not in arms and b2 != path[-1]:
                continue
            if b2 == path[-1] and kind == "continue":
                continue
            if b2 == path[-1] and kind == "break" and len([p_ for p_ in body.preds()[b2] if not body.is_cleanup(p_)]) != 1:
                continue  # a join block after the loop: not part of this iteration
            for s_ in body.blocks[b2]["stmts"]:
                if s_["s"] == "assign" and not s_["place"]["proj"]:
                    v = const_state_value(strip(body._rv_term(s_["rv"])))
                    rv_ = s_["rv"]
                    if v is None and rv_["r"] == "use" and rv_["op"]["o"] in ("copy", "move") and not rv_["op"]["place"]["proj"]:
                        v = tmpenv.get(rv_["op"]["place"]["l"])
                    if v is not None:
                        tmpenv[s_["place"]["l"]] = v
                        if s_["place"]["l"] in st:
                            assign[s_["place"]["l"]] = v
            tm = body.term(b2)
            if tm["t"] == "call" and b2 != nb:
                pth = callee_name(tm["callee"]) if "path" in tm["callee"] else "?"
                raw = [body.resolve_operand(a) for a in tm["args"]]
                for a in raw:
                    tgt = models.mut_target(a)
                    if tgt is not None:
                        effects.append((pth, tgt, tuple(norm(x) for x in raw), b2))
                        break
        res.append({"conds": conds, "pre": pre, "assign": assign, "effects": effects, "exit": kind, "blocks": path})
    return st, res, is_elem, exit_none


def state_test_value(is_discr, variants, outcome, neg):
    """Which state values satisfy this branch: ("in", frozenset(values)) over ("bool", b) / variant names."""
    kind, v = outcome
    if is_discr:
        names = list(variants)
        if kind == "eq":
            return ("in", frozenset([names[v]]) if v < len(names) else frozenset())
        if kind == "in":
            return ("in", frozenset(names[i] for i in v if i < len(names)))
        if kind == "ne":
            return ("in", frozenset(n for i, n in enumerate(names) if i not in v))
    else:
        from .sem import outcome_bool
        b = outcome_bool(outcome)
        if b is not None:
            return ("in", frozenset([("bool", b != neg)]))
    return ("unknown", str(outcome))


def cond_set(conds, facts):
    v = boolsum.universe()
    for f in conds:
        v &= boolsum.charset(f, facts)
    return v
