"""purlsa.paths -- per-path outcome summaries of small loop-free bodies.

outcomes(facts, key) enumerates the acyclic entry->return paths of a body and gives for each
  atoms   : canonical atoms of the branch edges taken (models.canon_atom)
  effects : in path order, ("call", callee, target, args) for calls receiving a mutable borrow and
            ("store", place-string, value) for assignments through a projection (field / deref stores)
  calls   : every call on the path (callee, normalised args)
  ret     : models.classify_return of the value of the return place on that path
Diverging paths (ending in a call without return target, e.g. panic) are reported with ret ("diverge", callee).
"""
from .core import AnchorError, callee_name, strip
from .sem import norm, nshow, atom_of, is_dropflag_cond
from . import models


def value_along(body, local, path):
    last = None
    for b in path:
        for st in body.blocks[b]["stmts"]:
            if st["s"] == "assign" and st["place"]["l"] == local and not st["place"]["proj"]:
                last = ("rv", st["rv"])
        t = body.term(b)
        if t["t"] == "call" and t["dest"]["l"] == local and not t["dest"]["proj"] and t.get("target") is not None:
            last = ("call", b)
    if last is None:
        return None
    if last[0] == "rv":
        return body._rv_term(last[1])
    return body.call_term(last[1])


def place_str(body, pl):
    """normalised description of an assigned place: root + field names"""
    root = body.resolve_local(pl["l"])
    t = root
    for p in pl["proj"]:
        from .core import apply_proj
        t = apply_proj(t, p, body)
    return norm(t)


def outcomes(facts, key, limit=4000):
    body = facts.body(key)
    if body.back_edges():
        raise AnchorError("body has a loop; per-path outcomes need a loop-free body", key)
    outs = []
    stack = [(0, (0,))]
    n = 0
    while stack:
        b, path = stack.pop()
        succ = body.succs(b)
        t = body.term(b)
        if not succ:
            outs.append(path)
            continue
        for s_ in succ:
            stack.append((s_, path + (s_,)))
        n += 1
        if n > limit:
            raise AnchorError("path explosion", key)
    res = []
    for path in outs:
        last = body.term(path[-1])
        atoms = []
        for a, b in zip(path, path[1:]):
            eg = body.edge_guards(a, b)
            if eg is not None and not is_dropflag_cond(eg[0]):
                atoms.append(models.canon_atom(atom_of(eg[0], eg[1])))
        effects = []
        calls = []
        for b in path:
            for st in body.blocks[b]["stmts"]:
                if st["s"] == "assign" and st["place"]["proj"]:
                    effects.append(("store", place_str(body, st["place"]), norm(body._rv_term(st["rv"]), keep_conv=True), b))
                elif st["s"] == "setdiscr":
                    effects.append(("setdiscr", place_str(body, st["place"]), st["variant_idx"], b))
            t = body.term(b)
            if t["t"] == "call":
                path_name = callee_name(t["callee"]) if "path" in t["callee"] else "<indirect>"
                raw = [body.resolve_operand(a) for a in t["args"]]
                nargs = [norm(a, keep_conv=True) for a in raw]
                calls.append((path_name, tuple(nargs), b))
                for i, a in enumerate(raw):
                    tgt = models.mut_target(a)
                    if tgt is None and not models.is_plumbing(path_name):
                        tgt = models.contains_mut_target(a, body)
                    if tgt is not None:
                        effects.append(("call", path_name, tgt, tuple(nargs), b))
                if t["dest"]["proj"]:
                    effects.append(("store", place_str(body, t["dest"]), norm(body.call_term(b), keep_conv=True), b))
        if last["t"] == "return":
            v = value_along(body, 0, path)
            ret = models.classify_return(norm(v)) if v is not None else ("unit", None)
        elif last["t"] == "call":
            ret = ("diverge", callee_name(last["callee"]) if "path" in last["callee"] else "?")
        elif last["t"] == "unreachable":
            continue
        else:
            ret = ("other-end", last["t"])
        res.append({"path": path, "atoms": atoms, "effects": effects, "calls": calls, "ret": ret})
    return res
