"""purlsa.paths -- per-path outcome summaries of small loop-free bodies.

outcomes(facts, key) enumerates the acyclic entry->return paths of a body and gives for each
  atoms   : canonical atoms of the branch edges taken (models.canon_atom)
  effects : in path order, ("call", callee, target, args) for calls receiving a mutable borrow and
            ("store", place-string, value) for assignments through a projection (field / deref stores)
  calls   : every call on the path (callee, normalised args)
  ret     : models.classify_return of the value of the return place on that path
Diverging paths (ending in a call without return target, e.g. panic) are reported with ret ("diverge", callee).
"""
from .core import AnchorError, callee_name, strip, _cast_kind
from .sem import norm, nshow, atom_of, is_dropflag_cond
from . import models


def value_along(body, local, path):
    last = None
    for b in path:
        for st in body.blocks[b]["stmts"]:
            if st["s"] == "assign" and st["place"]["l"] == local and not st["place"]["proj"]:
                last = ("rv", st["rv"])
        t = body.term(b)
        if t["t"] == "call" and t["dest"]["l"] == local and not t["dest"]["proj"] and t.get("target") is not None:
            last = ("call", b)
    if last is None:
        return None
    bp = body_on_path(body, path)  # operands are resolved along this path only (a collecting local has one def here)
    if last[0] == "rv":
        return bp._rv_term(last[1])
    return bp.call_term(last[1])


def place_str(body, pl):
    """normalised description of an assigned place: root + field names"""
    root = body.resolve_local(pl["l"])
    t = root
    for p in pl["proj"]:
        from .core import apply_proj
        t = apply_proj(t, p, body)
    return norm(t)


def outcomes(facts, key, limit=4000):
    body = facts.body(key)
    if body.back_edges():
        raise AnchorError("body has a loop; per-path outcomes need a loop-free body", key)
    outs = []
    stack = [(0, (0,))]
    n = 0
    while stack:
        b, path = stack.pop()
        succ = body.succs(b)
        t = body.term(b)
        if not succ:
            outs.append(path)
            continue
        for s_ in succ:
            stack.append((s_, path + (s_,)))
        n += 1
        if n > limit:
            raise AnchorError("path explosion", key)
    res = []
    for path in outs:
        if not feasible(body, path):
            continue
        last = body.term(path[-1])
        atoms = []
        view = body_on_path(body, path)  # conditions are resolved along this path (a variable joined from several arms has one value here)
        for a, b in zip(path, path[1:]):
            eg = view.edge_guards(a, b)
            if eg is not None and not is_dropflag_cond(eg[0]):
                atoms.append(models.canon_atom(atom_of(eg[0], eg[1])))
        effects = []
        calls = []
        for b in path:
            for st in body.blocks[b]["stmts"]:
                if st["s"] == "assign" and st["place"]["proj"]:
                    effects.append(("store", place_str(body, st["place"]), norm(body._rv_term(st["rv"]), keep_conv=True), b))
                elif st["s"] == "setdiscr":
                    effects.append(("setdiscr", place_str(body, st["place"]), st["variant_idx"], b))
            t = body.term(b)
            if t["t"] == "call":
                path_name = callee_name(t["callee"]) if "path" in t["callee"] else "<indirect>"
                raw = [body.resolve_operand(a) for a in t["args"]]
                nargs = [norm(a, keep_conv=True) for a in raw]
                calls.append((path_name, tuple(nargs), b))
                for i, a in enumerate(raw):
                    tgt = models.mut_target(a)
                    if tgt is None and not models.is_plumbing(path_name):
                        tgt = models.contains_mut_target(a, body)
                    if tgt is not None:
                        effects.append(("call", path_name, tgt, tuple(nargs), b))
                if t["dest"]["proj"]:
                    effects.append(("store", place_str(body, t["dest"]), norm(body.call_term(b), keep_conv=True), b))
        if last["t"] == "return":
            v = value_along(body, 0, path)
            ret = models.classify_return(norm(v)) if v is not None else ("unit", None)
        elif last["t"] == "call":
            ret = ("diverge", callee_name(last["callee"]) if "path" in last["callee"] else "?")
        elif last["t"] == "unreachable":
            continue
        else:
            ret = ("other-end", last["t"])
        res.append({"path": path, "atoms": atoms, "effects": effects, "calls": calls, "ret": ret})
    return res


def body_on_path(body, path):
    """A view of `body` in which every local's definitions are restricted to the ones executed on `path`
    (the last one, if several): origin resolution through this view is path-sensitive (no phi terms)."""
    from .core import Body
    v = Body(body.facts, body.key, body.j, ssa=False)
    v.blocks, v.locals, v.n = body.blocks, body.locals, body.n  # the normalised MIR of `body`, not the raw one
    v.ssa_split, v.threaded = body.ssa_split, body.threaded
    v._reset()
    order = {b: i for i, b in enumerate(path)}
    d = {}
    for local, ds in body.defs().items():
        on = [x for x in ds if x[0] in order]
        if not on:
            continue
        on.sort(key=lambda x: (order[x[0]], 10 ** 6 if x[1] == "term" else x[1]))
        d[local] = [on[-1]]
    v._defs = d
    return v


def outcome_values(facts, key, o, local=0):
    """Path-sensitive value of `local` at the end of outcome `o`."""
    body = facts.body(key)
    pe = PathEval(body, o["path"])
    return norm(pe.local(local), keep_conv=True)


def feasible(body, path):
    """Prune syntactic paths that contradict themselves: a branch on the discriminant of a value that, on this very
    path, is a known aggregate variant (e.g. `if let Some(x) = y` after `y = None` on this path)."""
    view = None
    for a, b in zip(path, path[1:]):
        t = body.term(a)
        if t["t"] != "switch":
            continue
        if view is None:
            view = body_on_path(body, path)
        mb = body.materialised_bool(a)
        if mb is not None:
            # the value is whatever was assigned last on this path
            last = None
            for pb in path[:path.index(a) + 1]:
                if pb in mb[1][True]:
                    last = True
                if pb in mb[1][False]:
                    last = False
            if last is not None:
                labs = [l for l, tg in body.edges(a) if tg == b]
                takes_true = "otherwise" in labs or any(l != "otherwise" and l[1] != 0 for l in labs)
                if takes_true != last:
                    return False
            continue
        c = strip(view.resolve_operand(t["discr"]))
        if c[0] == "const" and isinstance(c[1], (bool, int)):
            # the tested value is, on this very path, a constant (a flag chosen in an earlier arm: `(s, true)`)
            val = (1 if c[1] else 0) if isinstance(c[1], bool) else c[1]
            labs = [l for l, tg in body.edges(a) if tg == b]
            listed = [ll[1] for ll, _ in body.edges(a) if ll != "otherwise"]
            if not any((l == "otherwise" and val not in listed) or (l != "otherwise" and l[1] == val) for l in labs):
                return False
            continue
        if c[0] != "discr":
            continue
        x = strip(c[1])
        if x[0] == "var":
            x = strip(x[2])
        if x[0] == "agg" and x[1][0] == "adt" and len(c) > 2 and c[2]:
            variants = list(c[2])
            if x[1][2] in variants:
                actual = variants.index(x[1][2])
                labs = [l for l, tg in body.edges(a) if tg == b]
                ok = False
                for l in labs:
                    if l == "otherwise":
                        listed = [ll[1] for ll, _ in body.edges(a) if ll != "otherwise"]
                        if actual not in listed:
                            ok = True
                    elif l[1] == actual:
                        ok = True
                if not ok:
                    return False
    return True


class PathEval:
    """Symbolic evaluation of one loop-free path: locals are bound in execution order, so a use always sees the
    definition that precedes it on the path (needed for `x = f(x)` re-bindings)."""

    def __init__(self, body, path):
        from .core import apply_proj, const_term
        self.body = body
        self.env = {}
        self.calls = []
        for b in path:
            for st in body.blocks[b]["stmts"]:
                if st["s"] == "assign":
                    val = self.rv(st["rv"])
                    if not st["place"]["proj"]:
                        self.env[st["place"]["l"]] = val
            t = body.term(b)
            if t["t"] == "call" and b != path[-1] or (t["t"] == "call" and t.get("target") is not None and b in path[:-1]):
                ce = t["callee"]
                pth = callee_name(ce) if "path" in ce else ("indirect", self.op(ce["indirect"]))
                args = tuple(self.op(a) for a in t["args"])
                term = ("call", pth, args, b)
                self.calls.append(term)
                if not t["dest"]["proj"]:
                    self.env[t["dest"]["l"]] = term

    def local(self, l):
        if l in self.env:
            return self.env[l]
        if 1 <= l <= self.body.arg_count:
            return ("arg", l)
        return ("local", l)

    def place(self, p):
        from .core import apply_proj
        t = self.local(p["l"])
        for pr in p["proj"]:
            if pr["p"] == "index":
                t = ("index", t, self.local(pr["local"]))
            else:
                t = apply_proj(t, pr, None)
        return t

    def op(self, o):
        from .core import const_term
        if o["o"] in ("copy", "move"):
            return self.place(o["place"])
        if o["o"] == "const":
            return const_term(o["c"])
        return ("unknown", o.get("dbg"))

    def rv(self, rv):
        r = rv["r"]
        if r == "use":
            return self.op(rv["op"])
        if r in ("ref", "rawptr"):
            return ("ref", rv["bk"] == "mut" or "Mut" in rv["bk"], self.place(rv["place"]))
        if r == "cast":
            return ("cast", _cast_kind(rv), self.op(rv["op"]))
        if r == "binop":
            return ("binop", rv["bop"], self.op(rv["a"]), self.op(rv["b"]))
        if r == "unop":
            return ("unop", rv["uop"], self.op(rv["a"]))
        if r == "discr":
            return ("discr", self.place(rv["place"]), tuple(rv.get("variants", ())))
        if r == "aggregate":
            ops = tuple(self.op(o) for o in rv["ops"])
            ak = rv["ak"]
            if ak == "adt":
                return ("agg", ("adt", rv["path"], rv["variant"], tuple(rv.get("fields", []))), ops)
            if ak == "closure":
                return ("closure", rv["path"], ops)
            return ("agg", (ak,), ops)
        return ("unknown", rv.get("dbg", r))

    def ret(self):
        return norm(self.local(0), keep_conv=True)
