"""purlsa.coalesce -- state-passing folds back into in-place mutation (inlined view only, DESIGN.md 14.9).

`it.try_fold(init, |mut acc, x| { ..mutate acc..; Ok(acc) })` hands the accumulator round a cycle of moves:
    acc -> (acc, x) -> closure parameter -> Ok(acc) -> payload -> acc
After the std model of try_fold / fold is spliced in and the closure inlined, two semantics-preserving clean-ups turn that
cycle back into the single mutable variable the equivalent `for` loop has:

  A. forwarding through aggregates:   t = (move a, move x); ..; b = t.0        ==>   b = move a
                                      r = Ok(move a);      ..; b = (r as Ok).0 ==>   b = move a
     when the aggregate is the only definition of t (possibly handed on by whole-local moves), the field is read exactly
     once, the definition dominates the read and `a` is not assigned on the way.

  B. move coalescing:                 b = move a   with a and b never initialised at the same time  ==>  one local
     (register coalescing; initialisedness is a forward may-analysis on MIR's explicit moves: assignment initialises, a
     whole-local `move` operand or a drop de-initialises).

Both rewrite the private block list of the inlined body in place.
"""
import copy


def _places(x):
    if isinstance(x, dict):
        if "l" in x and "proj" in x:
            yield x
            return
        for v in x.values():
            for y in _places(v):
                yield y
    elif isinstance(x, list):
        for v in x:
            for y in _places(v):
                yield y


def _operands(x):
    """operand dicts ({"o": copy|move|const ...}) inside a fragment"""
    if isinstance(x, dict):
        if "o" in x and x["o"] in ("copy", "move", "const"):
            yield x
            return
        for v in x.values():
            for y in _operands(v):
                yield y
    elif isinstance(x, list):
        for v in x:
            for y in _operands(v):
                yield y


def _defs(blocks):
    d = {}
    for b, bl in enumerate(blocks):
        if bl["cleanup"] or bl.get("dead"):
            continue
        for i, st in enumerate(bl["stmts"]):
            if st.get("s") == "assign" and not st["place"]["proj"]:
                d.setdefault(st["place"]["l"], []).append((b, i, st))
            elif st.get("s") in ("assign", "setdiscr") and st["place"]["proj"]:
                d.setdefault(st["place"]["l"], []).append((b, i, None))    # partial write: not a plain definition
        t = bl["term"]
        if t["t"] == "call":
            d.setdefault(t["dest"]["l"], []).append((b, "term", None if t["dest"]["proj"] else t))
    return d


def forward_aggregates(body):
    """step A; returns the number of reads rewritten"""
    blocks = body.blocks
    n = 0
    for _round in range(6):
        defs = _defs(blocks)
        changed = False

        def origin(l, depth=0):
            """(block, index, aggregate statement) that defines the value held by local l, through whole-local moves"""
            ds = defs.get(l, [])
            if len(ds) != 1 or ds[0][2] is None or ds[0][1] == "term" or depth > 4:
                return None
            b, i, st = ds[0]
            rv = st["rv"]
            if rv["r"] == "aggregate" and rv.get("ak") in ("tuple", "adt"):
                return (b, i, st)
            if rv["r"] == "use" and rv["op"]["o"] == "move" and not rv["op"]["place"]["proj"]:
                return origin(rv["op"]["place"]["l"], depth + 1)
            return None
        # count the reads of each (local, field) pair
        reads = {}
        for b, bl in enumerate(blocks):
            if bl["cleanup"] or bl.get("dead"):
                continue
            for pl in _places([st.get("rv") for st in bl["stmts"] if st.get("s") == "assign"] + [bl["term"]]):
                if pl["proj"]:
                    key = (pl["l"], _field_key(pl["proj"]))
                    reads[key] = reads.get(key, 0) + 1
        for b, bl in enumerate(blocks):
            if bl["cleanup"] or bl.get("dead"):
                continue
            for i, st in enumerate(bl["stmts"]):
                if st.get("s") != "assign" or st["rv"]["r"] != "use" or st["rv"]["op"]["o"] not in ("copy", "move"):
                    continue
                pl = st["rv"]["op"]["place"]
                fk = _field_key(pl["proj"])
                if fk is None or fk[2]:
                    continue
                og = origin(pl["l"])
                if og is None:
                    continue
                ob, oi, ost = og
                arv = ost["rv"]
                variant, idx = fk[0], fk[1]
                if arv.get("ak") == "adt" and arv.get("variant") is not None and variant is not None and arv.get("variant") != variant:
                    continue
                if arv.get("ak") == "tuple" and variant is not None:
                    continue
                if idx >= len(arv["ops"]):
                    continue
                src = arv["ops"][idx]
                if src["o"] not in ("copy", "move") or src["place"]["proj"]:
                    continue
                if reads.get((pl["l"], fk), 0) != 1:
                    continue
                a = src["place"]["l"]
                if not body.dominates(ob, b) or (ob == b and oi >= i):
                    continue
                if _defined_between(body, defs, a, (ob, oi), (b, i)):
                    continue
                st["rv"]["op"] = {"o": src["o"], "place": copy.deepcopy(src["place"])}
                st["fwd"] = True
                n += 1
                changed = True
        if not changed:
            break
        body._reset()
    return n


def _field_key(proj):
    """(variant or None, field index, has-more-projections) for `.f` / `(as V).f` prefixes; None otherwise"""
    if not proj:
        return None
    if proj[0].get("p") == "field":
        return (None, proj[0]["i"], len(proj) > 1)
    if proj[0].get("p") == "downcast" and len(proj) > 1 and proj[1].get("p") == "field":
        return (proj[0].get("name"), proj[1]["i"], len(proj) > 2)
    return None


def _defined_between(body, defs, a, frm, to):
    """is local a assigned on some path from program point frm to program point to (both (block, index))?"""
    fb, fi = frm
    tb, ti = to
    if fb == tb and fi < ti:
        # straight-line inside one block
        return any(b == fb and fi < (10 ** 6 if i == "term" else i) < ti for (b, i, _st) in defs.get(a, []))
    # blocks on a path from the definition to the use that does not run through the defining block again (passing it again
    # re-evaluates the aggregate)
    fwd = set()
    for s_ in body.succs(fb):
        fwd |= body.reachable_from(s_, avoid={fb})
    region = fwd & _reaching(body, tb, avoid={fb})
    for (b, i, _st) in defs.get(a, []):
        i_ = 10 ** 6 if i == "term" else i
        if b == fb and b == tb:
            if fi < i_ < ti:
                return True
        elif b == fb:
            if i_ > fi:
                return True
        elif b == tb:
            if i_ < ti:
                return True
        elif b in region:
            return True
    return False


def _reaching(body, target, avoid=()):
    """blocks from which target can be reached (including itself)"""
    preds = body.preds()
    seen = {target}
    st = [target]
    while st:
        x = st.pop()
        for p in preds[x]:
            if p not in seen and p not in avoid and not body.is_cleanup(p):
                seen.add(p)
                st.append(p)
    return seen


# ------------------------------------------------------------------------------------------------------------------
def _events(bl, a, b_):
    """initialisation events for the two locals in one block, in order: ("kill"|"def", local)"""
    ev = []
    for st in bl["stmts"]:
        if st.get("s") != "assign":
            continue
        for op in _operands(st["rv"]):
            if op["o"] == "move" and not op["place"]["proj"] and op["place"]["l"] in (a, b_):
                ev.append(("kill", op["place"]["l"]))
        if not st["place"]["proj"] and st["place"]["l"] in (a, b_):
            ev.append(("def", st["place"]["l"]))
    t = bl["term"]
    if t["t"] == "call":
        for op in _operands(t["args"]):
            if op["o"] == "move" and not op["place"]["proj"] and op["place"]["l"] in (a, b_):
                ev.append(("kill", op["place"]["l"]))
        if not t["dest"]["proj"] and t["dest"]["l"] in (a, b_):
            ev.append(("def@exit", t["dest"]["l"]))
    elif t["t"] == "drop" and not t["place"]["proj"] and t["place"]["l"] in (a, b_):
        ev.append(("kill", t["place"]["l"]))
    return ev


def interfere(body, a, b_):
    """may both locals hold a value at the same time?"""
    blocks = body.blocks
    n = len(blocks)
    inn = [frozenset() for _ in range(n)]
    out = [None] * n
    work = [0]
    seen_in = {0: frozenset()}
    while work:
        x = work.pop()
        cur = set(seen_in[x])
        for kind, l in _events(blocks[x], a, b_):
            if kind == "kill":
                cur.discard(l)
            else:
                cur.add(l)
            if a in cur and b_ in cur:
                return True
        o = frozenset(cur)
        if out[x] == o:
            continue
        out[x] = o
        for s_ in body.succs(x):
            if body.is_cleanup(s_):
                continue
            new = seen_in.get(s_, frozenset()) | o
            if s_ not in seen_in or new != seen_in[s_]:
                seen_in[s_] = new
                work.append(s_)
    return False


def coalesce_moves(body, protect=()):
    """step B; returns the number of locals merged away"""
    blocks = body.blocks
    merged = 0
    for _round in range(40):
        cand = None
        for b, bl in enumerate(blocks):
            if bl["cleanup"] or bl.get("dead"):
                continue
            for i, st in enumerate(bl["stmts"]):
                if st.get("s") != "assign" or st["place"]["proj"] or st["rv"]["r"] != "use":
                    continue
                op = st["rv"]["op"]
                if op["o"] != "move" or op["place"]["proj"]:
                    continue
                src, dst = op["place"]["l"], st["place"]["l"]
                if src == dst or src <= body.arg_count or dst <= body.arg_count or src in protect or dst in protect:
                    continue
                ta, tb = body.locals[src]["ty"], body.locals[dst]["ty"]
                if ta != tb and "?" not in (ta, tb) and not (body.locals[src].get("model") or body.locals[dst].get("model")):
                    continue
                if (src, dst) in body.__dict__.setdefault("_no_merge", set()):
                    continue
                if interfere(body, src, dst):
                    body._no_merge.add((src, dst))
                    continue
                cand = (b, i, src, dst)
                break
            if cand:
                break
        if not cand:
            break
        b, i, src, dst = cand
        # keep the local with the more informative type as the representative
        keep, drop = (dst, src) if body.locals[src]["ty"] == "?" or body.locals[src].get("model") and not body.locals[dst].get("model") else (src, dst)
        for bl in blocks:
            for pl in _all_places(bl):
                if pl["l"] == drop:
                    pl["l"] = keep
                    pl["s"] = "_%d" % keep
                for pe in pl["proj"]:
                    if pe.get("p") == "index" and pe.get("local") == drop:
                        pe["local"] = keep
        # self-moves are no-ops now
        for bl in blocks:
            bl["stmts"] = [st for st in bl["stmts"] if not (st.get("s") == "assign" and not st["place"]["proj"] and st["rv"]["r"] == "use" and st["rv"]["op"]["o"] in ("move", "copy") and not st["rv"]["op"]["place"]["proj"] and st["rv"]["op"]["place"]["l"] == st["place"]["l"])]
        merged += 1
        body._reset()
    return merged


def _all_places(bl):
    for st in bl["stmts"]:
        for pl in _deep_places(st):
            yield pl
    for pl in _deep_places(bl["term"]):
        yield pl


def _deep_places(x):
    if isinstance(x, dict):
        if "l" in x and "proj" in x:
            yield x
            for p_ in x["proj"]:
                for y in _deep_places(p_):
                    yield y
            return
        for v in x.values():
            for y in _deep_places(v):
                yield y
    elif isinstance(x, list):
        for v in x:
            for y in _deep_places(v):
                yield y
