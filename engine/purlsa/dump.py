"""debug helper: python3 -m purlsa.dump <facts.json> <body-key-substring>"""
import sys
from .core import Facts, show

def dump(body):
    print("==", body.key, "blocks", body.n, "args", body.arg_count)
    for b in range(body.n):
        bl = body.blocks[b]
        if bl["cleanup"]:
            continue
        t = bl["term"]
        print(" bb%d (line %s)" % (b, body.line_of(b)))
        for st in bl["stmts"]:
            if st["s"] == "assign":
                print("    %s = %s" % (st["place"]["s"], show(body._rv_term(st["rv"]))))
            else:
                print("    ", st["s"], st.get("place", {}).get("s"), st.get("variant_idx"))
        k = t["t"]
        if k == "call":
            print("    %s = CALL %s -> bb%s" % (t["dest"]["s"], show(body.call_term(b)), t["target"]))
        elif k == "switch":
            print("    SWITCH %s : %s otherwise bb%s" % (show(body.switch_cond(b)), t["arms"], t["otherwise"]))
        elif k == "assert":
            print("    ASSERT %s %s -> bb%s" % (t["kind"], [show(body.resolve_operand(o)) for o in t["ops"]], t["target"]))
        elif k == "drop":
            print("    drop %s -> bb%s" % (t["place"]["s"], t["target"]))
        else:
            print("    %s %s" % (k, t.get("target", "")))

if __name__ == "__main__":
    f = Facts.load(sys.argv[1])
    for k, b in f.bodies.items():
        if sys.argv[2] in k:
            dump(b)
