"""purlsa.ssa -- flow-sensitive values for re-assigned locals (DESIGN.md 2.2, "reaching versions").

The origin resolver of core.Body is flow-insensitive: the term of a local is the phi of *all* its definitions.  For the
compiler's temporaries (single assignment) that is exact; for a user variable that is assigned again (`let mut s = ..;
if .. { s = rest; }`) it is not -- a use before the second assignment would see it.  This pass rewrites the MIR (a private
copy) so that every whole-local definition of such a variable defines its own local, every use names the version that
reaches it, and a join of different versions is an explicit copy on each incoming edge into a fresh local (so that the
resolver's phi is the phi of exactly the reaching versions).  Classic SSA construction (Braun et al. 2013, on a complete
CFG) followed by phi elimination with edge splitting.

Only locals for which this is safe *and* useful are split:
  * not an argument, never mutably borrowed or partially written (those keep an identity, core.Body.mut_locals),
  * at least two whole-local definitions outside cleanup blocks,
  * not loop-carried (accumulators, scan states, the '?'/'&' prefix are what the loop analyses are written against): a
    variable whose versions meet at a loop header is left alone,
  * not a bool that only ever receives constants (drop flags and the materialised results of `matches!` / `||` are
    recognised by their shape; purlsa.thread removes the re-test where it can).
"""
import copy


class _Phi:
    __slots__ = ("block", "ops", "repl", "local")

    def __init__(self, block):
        self.block = block
        self.ops = []
        self.repl = None
        self.local = None


def _find(v):
    while isinstance(v, _Phi) and v.repl is not None:
        v = v.repl
    return v


def candidates(body):
    loops = body.loops()
    inloop = set()
    for blk in loops.values():
        inloop |= blk
    mut = body.mut_locals()
    out = []
    for l, ds in sorted(body.defs().items()):
        if l == 0 or l <= body.arg_count or l in mut:
            continue
        live = [d for d in ds if not body.is_cleanup(d[0])]
        if body.locals[l]["ty"] == "bool":
            # drop flags and purely materialised conditions (constant stores only) are recognised by their shape; a bool that
            # also receives a computed value (the last operand of `a || f(x)`) is an ordinary variable
            def is_const(d):
                return d[2] == "rv" and d[3]["r"] == "use" and d[3]["op"]["o"] == "const"
            if all(is_const(d) for d in live):
                continue
        if len(live) < 2:
            continue
        out.append(l)
    return out


def _walk_places(node, fn):
    """call fn(place_dict) for every place (dict with 'l' and 'proj') below node, and for index projections fn on a
    pseudo-place {'l': local} -- fn may rewrite 'l' / 'local' in place."""
    if isinstance(node, dict):
        if "l" in node and "proj" in node:
            fn(node, "l")
            for pr in node["proj"]:
                if pr.get("p") == "index" and "local" in pr:
                    fn(pr, "local")
            return
        for k, v in node.items():
            _walk_places(v, fn)
    elif isinstance(node, list):
        for v in node:
            _walk_places(v, fn)


def split_locals(body):
    """Rewrite body.blocks / body.locals (which must be private copies).  Returns the list of split locals."""
    cands = candidates(body)
    if not cands:
        return []
    loop_headers = set(body.loops().keys())
    reach = body.reachable_from(0)
    preds_all = body.preds()
    preds = {b: [p for p in preds_all[b] if p in reach and not body.is_cleanup(p)] for b in reach}
    blocks = body.blocks
    new_locals = body.locals
    edge_copies = {}  # (pred, succ) -> [(dst local, src local)]
    for v in cands:
        # definitions per block, in order
        dib = {}
        for (b, i, kind, payload) in body.defs()[v]:
            if body.is_cleanup(b) or b not in reach:
                continue
            dib.setdefault(b, []).append(i)
        for b in dib:
            dib[b].sort(key=lambda i: (1 << 30) if i == "term" else i)
        version = {}  # (b, i) -> local number
        first = True
        for b in sorted(dib):
            for i in dib[b]:
                if first:
                    version[(b, i)] = v
                    first = False
                else:
                    new_locals.append(dict(new_locals[v], ssa_of=v))
                    version[(b, i)] = len(new_locals) - 1
        UNDEF = ("undef", v)
        start, end = {}, {}
        phis = []

        def read_end(b):
            if b in end:
                return _find(end[b])
            if b in dib:
                r = version[(b, dib[b][-1])]
            else:
                r = read_start(b)
            end[b] = r
            return _find(r)

        def read_start(b):
            if b in start:
                return _find(start[b])
            ps = preds.get(b, [])
            if b == 0 or not ps:
                start[b] = UNDEF
                return UNDEF
            if len(ps) == 1:
                # a single-predecessor chain cannot be cyclic without a join, but guard anyway
                start[b] = ph = _Phi(b)
                r = read_end(ps[0])
                ph.repl = r if r is not ph else UNDEF
                start[b] = _find(ph)
                return start[b]
            ph = _Phi(b)
            start[b] = ph
            phis.append(ph)
            ph.ops = [(p, read_end(p)) for p in ps]
            return _find(ph)

        # iterative deepening is not needed: recursion depth is bounded by the number of blocks
        import sys
        sys.setrecursionlimit(max(sys.getrecursionlimit(), 10000))
        use_sites = []  # (container dict, key, block, position)

        def version_at(b, pos):
            """version visible at statement index pos (or 'term') of block b"""
            best = None
            for i in dib.get(b, []):
                if i == "term":
                    continue
                if pos == "term" or i < pos:
                    best = i
            if best is not None:
                return version[(b, best)]
            return read_start(b)

        for b in sorted(reach):
            if body.is_cleanup(b):
                continue
            bl = blocks[b]
            for i, st in enumerate(bl["stmts"]):
                is_def = st.get("s") == "assign" and st["place"]["l"] == v and not st["place"]["proj"]

                def visit(d, key, b=b, i=i, st=st, is_def=is_def):
                    if d[key] != v:
                        return
                    if is_def and d is st["place"]:
                        return
                    use_sites.append((d, key, b, i))
                _walk_places(st, visit)
            t = bl["term"]
            is_def_t = t.get("t") == "call" and t["dest"]["l"] == v and not t["dest"]["proj"]

            def visit_t(d, key, b=b, t=t, is_def_t=is_def_t):
                if d[key] != v:
                    return
                if is_def_t and d is t["dest"]:
                    return
                use_sites.append((d, key, b, "term"))
            _walk_places(t, visit_t)
        resolved_uses = [(d, key, version_at(b, pos)) for (d, key, b, pos) in use_sites]
        # trivial phi removal to a fixpoint
        changed = True
        while changed:
            changed = False
            for ph in phis:
                if ph.repl is not None:
                    continue
                vals = []
                for (_, o) in ph.ops:
                    o = _find(o)
                    if o is ph or o in vals:
                        continue
                    vals.append(o)
                if len(vals) == 1:
                    ph.repl = vals[0]
                    changed = True
                elif len(vals) == 0:
                    ph.repl = UNDEF
                    changed = True
        # which phis are needed: used directly, or operands of needed phis
        needed = []

        def need(x):
            x = _find(x)
            if isinstance(x, _Phi) and x not in needed:
                needed.append(x)
                for (_, o) in x.ops:
                    need(o)
        for (_, _, ver) in resolved_uses:
            need(ver)
        if any(ph.block in loop_headers for ph in needed):
            # loop-carried: the value of one iteration reaches the next.  Left alone (see the module comment).
            continue
        for ph in needed:
            new_locals.append(dict(new_locals[v], ssa_of=v, ssa_phi=True))
            ph.local = len(new_locals) - 1

        def num(x):
            x = _find(x)
            if isinstance(x, _Phi):
                return x.local
            if x == UNDEF:
                return None
            return x
        # rewrite definitions
        for (b, i), nl in version.items():
            if i == "term":
                blocks[b]["term"]["dest"]["l"] = nl
            else:
                blocks[b]["stmts"][i]["place"]["l"] = nl
        # rewrite uses
        for (d, key, ver) in resolved_uses:
            n = num(ver)
            if n is not None:
                d[key] = n
        # phi copies on edges
        for ph in needed:
            for (p, o) in ph.ops:
                n = num(o)
                if n is None or n == ph.local:
                    continue
                edge_copies.setdefault((p, ph.block), []).append((ph.local, n))
    # materialise the copies
    for (p, s), cps in sorted(edge_copies.items()):
        stmts = [{"s": "assign", "place": {"l": dst, "proj": [], "s": "_%d" % dst},
                  "rv": {"r": "use", "op": {"o": "copy", "place": {"l": src, "proj": [], "s": "_%d" % src}}}, "ssa_copy": True}
                 for (dst, src) in cps]
        t = blocks[p]["term"]
        if t["t"] == "goto":
            blocks[p]["stmts"].extend(stmts)
            continue
        nb = {"stmts": stmts, "term": {"t": "goto", "target": s}, "cleanup": False, "span": blocks[p].get("span"), "ssa_edge": True}
        blocks.append(nb)
        ni = len(blocks) - 1
        if t["t"] == "switch":
            t["arms"] = [[val, (ni if tg == s else tg)] for (val, tg) in t["arms"]]
            if t["otherwise"] == s:
                t["otherwise"] = ni
        elif t["t"] in ("call", "drop", "assert"):
            if t.get("target") == s:
                t["target"] = ni
    return cands
