"""purlsa.models -- models extracted from the analysed crate (DESIGN.md section 4).

FM  formatter model  (Display for GenericPurl)
Every model is re-extracted from the facts of the current tree; anchors are found
by trait identity / public API name, helpers by role through dataflow.
"""
from .core import MUT_STR_VIEWS, AnchorError, callee_name, strip, show, simplify_val
from .sem import norm, nshow, atom_of, atoms_at, fmt_pieces, show_atom, is_dropflag_cond
from . import boolsum

ENCODE = "percent_encoding::utf8_percent_encode"
WRITE_FMT = ("std::fmt::Formatter::<'a>::write_fmt",)
WRITE_STR = ("std::fmt::Formatter::<'a>::write_str", "<std::fmt::Formatter<'_> as std::fmt::Write>::write_str")
WRITE_CHAR = ("std::fmt::Formatter::<'a>::write_char", "<std::fmt::Formatter<'_> as std::fmt::Write>::write_char")


def display_fn(facts):
    ks = [k for k in facts.find_fns(impl_trait_def="std::fmt::Display", name="fmt") if facts.fns[k].get("impl_self", "").startswith("GenericPurl<")]
    if len(ks) != 1:
        raise AnchorError("expected exactly one `impl Display for GenericPurl<_>`, found %d" % len(ks))
    return ks[0]


def from_str_fn(facts):
    ks = [k for k in facts.find_fns(impl_trait_def="std::str::FromStr", name="from_str") if facts.fns[k].get("impl_self", "").startswith("GenericPurl<")]
    if len(ks) != 1:
        raise AnchorError("expected exactly one `impl FromStr for GenericPurl<_>`, found %d" % len(ks))
    return ks[0]


def build_fn(facts):
    ks = [k for k in facts.find_fns(name="build") if facts.fns[k].get("impl_self", "").startswith("builder::GenericPurlBuilder<") and "impl_trait" not in facts.fns[k]]
    if len(ks) != 1:
        raise AnchorError("expected exactly one GenericPurlBuilder::build, found %d" % len(ks))
    return ks[0]


def asciiset_bits(v):
    """Decode an evaluated percent_encoding::AsciiSet value into a 128-bit int."""
    if isinstance(v, tuple) and v and v[0] == "struct" and v[1] == "percent_encoding::AsciiSet":
        fields = dict(v[2])
        m = fields.get("mask")
        if isinstance(m, tuple) and m[0] == "array" and len(m[1]) == 4 and all(isinstance(x, int) and 0 <= x < (1 << 32) for x in m[1]):
            bits = 0
            for i, w in enumerate(m[1]):
                bits |= w << (32 * i)
            return bits
    raise AnchorError("AsciiSet layout not understood (expected struct AsciiSet { mask: [u32; 4] }): %r" % (v,))


def set_of_term(t):
    """(name, bits) of the AsciiSet operand of utf8_percent_encode."""
    t = strip(t)
    if t[0] == "named":
        return (t[1], asciiset_bits(t[3]))
    if t[0] == "const":
        return ("<anonymous>", asciiset_bits(t[1]))
    raise AnchorError("escape set operand is not a constant: %s" % show(t))


def classify_component(facts, body, t):
    """Which PURL component does the text term `t` (inside Display::fmt) denote?"""
    n = norm(t)
    # accessor returning Option: some(call GenericPurl::<T>::namespace(arg1))
    if n[0] == "some" and n[1][0] == "call" and n[1][2] == (("arg", 1),):
        return ("accessor", n[1][1], "some")
    if n[0] == "call" and n[2] == (("arg", 1),) and n[1] in facts.bodies:
        return ("accessor", n[1], "plain")
    # loop element of the qualifiers iteration: (some(next(var iter))).0 / .1
    if n[0] == "field" and n[1][0] == "some":
        nx = n[1][1]
        if nx[0] == "call" and "Iterator" in nx[1] and nx[1].endswith("::next"):
            it = nx[2][0]
            src = it[2] if it[0] == "var" else it
            return ("loopitem", n[2], src, nx[1])
    # the same under enumerate(): (index, (key, value))
    if n[0] == "field" and n[1][0] == "field" and n[1][2] == "1" and n[1][1][0] == "some":
        nx = n[1][1][1]
        if nx[0] == "call" and nx[1].startswith("<std::iter::Enumerate<") and nx[1].endswith("::next"):
            src = iter_source(nx, through=("std::iter::Iterator::enumerate",))
            return ("loopitem", n[2], src, nx[1])
    if n[0] == "field":
        return ("field", n)
    return ("unknown", n)


def formatter_model(facts):
    key = display_fn(facts)
    body = facts.body(key)
    emits = []
    other_uses = []
    for bb, t in body.calls():
        path = callee_name(t["callee"])
        args = [body.resolve_operand(a) for a in t["args"]]
        uses_f = any(strip(a) == ("arg", 2) for a in args)
        if not uses_f:
            continue
        if path in WRITE_FMT:
            pieces = fmt_pieces(args[1])
            if pieces is None:
                raise AnchorError("write_fmt with a format_args shape that is not understood", key)
            emits.append((bb, pieces))
        elif path in WRITE_STR:
            s0 = strip(args[1])
            if s0[0] == "const" and isinstance(s0[1], str):
                emits.append((bb, [("lit", s0[1])]))
            else:
                emits.append((bb, [("display", args[1])]))
        elif path in WRITE_CHAR:
            c0 = strip(args[1])
            if c0[0] == "const" and isinstance(c0[1], tuple) and c0[1][0] == "char":
                emits.append((bb, [("lit", chr(c0[1][1]))]))
            else:
                emits.append((bb, [("display", args[1])]))
        elif (path.endswith(" as std::fmt::Display>::fmt") or path == "std::fmt::Display::fmt") and len(args) == 2 and strip(args[1]) == ("arg", 2):
            # `x.fmt(f)`: what `write!(f, "{}", x)` writes when f carries no width / precision -- which is the case for
            # to_string(), the only formatting the properties speak about
            emits.append((bb, [("display", args[0])]))
        else:
            other_uses.append((bb, path))
    if other_uses:
        raise AnchorError("the formatter is passed to a call this model does not interpret: %s" % ", ".join(p for _, p in other_uses), key)
    # order sites: a before b if b is reachable from a and not vice versa; sites in the same loop keep block order by dominance
    def before(a, b):
        ra = body.reachable_from(a)
        rb = body.reachable_from(b)
        if b in ra and a not in rb:
            return True
        if b in ra and a in rb:
            return body.dominates(a, b) and a != b
        return False

    sites = [bb for bb, _ in emits]
    ordered = []
    remaining = list(emits)
    while remaining:
        progressed = False
        for e in remaining:
            if not any(before(o[0], e[0]) for o in remaining if o is not e):
                ordered.append(e)
                remaining.remove(e)
                progressed = True
                break
        if not progressed:
            raise AnchorError("cannot order the emission sites of Display::fmt", key)
    loops = body.loops()
    model = []
    for bb, pieces in ordered:
        atoms = [a for _, a in atoms_at(body, bb)]
        loop = None
        for h, blk in loops.items():
            if bb in blk:
                loop = h
        items = []
        for p in pieces:
            if p[0] == "lit":
                items.append(("lit", p[1]))
                continue
            if p[0] == "debug":
                items.append(("debug", nshow(norm(p[1]))))
                continue
            n = norm(p[1])
            p1 = p[1]
            if n[0] == "call" and n[1] == "std::iter::IntoIterator::into_iter" and len(n[2]) == 1 and n[2][0][0] == "call" and n[2][0][1] == ENCODE:
                # `for chunk in utf8_percent_encode(..)`: into_iter of an iterator is the iterator (core: impl<I: Iterator> IntoIterator for I)
                n = n[2][0]
                p1 = orig_arg(p1, 0)
            if n[0] == "call" and n[1] == ENCODE:
                comp = classify_component(facts, body, body_arg(n, 0))
                sname, sbits = set_of_term(orig_arg(p1, 1))
                items.append(("enc", comp, sname, sbits))
            elif n[0] == "call" and n[1] == "PurlShape::package_type":
                inner = n[2][0]
                if inner[0] == "call" and inner[2] == (("arg", 1),):
                    items.append(("type", inner[1]))
                else:
                    items.append(("raw", ("unknown", n)))
            elif n[0] == "phi" and all(x[0] == "const" and isinstance(x[1], tuple) and x[1][0] == "char" for x in n[1]):
                items.append(("prefix", prefix_roles(body, p[1], loop)))
            elif n[0] == "const" and isinstance(n[1], tuple) and n[1][0] == "char":
                items.append(("lit", chr(n[1][1])))
            elif n[0] == "const" and isinstance(n[1], str):
                items.append(("lit", n[1]))
            elif display_wrapper(facts, n) is not None and display_wrapper(facts, n)[0] == "call" and display_wrapper(facts, n)[1] == ENCODE:
                # a private wrapper whose Display impl forwards to the encoder: `write!(f, "{}", Encoded::path(x))` with
                # `impl Display for Encoded { fn fmt(..) { Display::fmt(&utf8_percent_encode(self.raw, self.set), f) } }`
                w = display_wrapper(facts, n)
                comp = classify_component(facts, body, body_arg(w, 0))
                sname, sbits = set_of_term(body_arg(w, 1))
                items.append(("enc", comp, sname, sbits))
            else:
                items.append(("raw", classify_component(facts, body, p[1])))
        model.append({"bb": bb, "site": body.site(bb), "atoms": atoms, "loop": loop, "items": items})
    # `if first { f.write_char(A) } else { f.write_char(B) }` inside a loop  ==  one prefix piece (A on the first item, B on
    # the later ones), as the loop-carried `prefix` char and the enumerate() form give
    merged = []
    i = 0
    while i < len(model):
        a = model[i]
        b = model[i + 1] if i + 1 < len(model) else None
        if b is not None and a["loop"] is not None and a["loop"] == b["loop"] and len(a["items"]) == 1 and len(b["items"]) == 1 and a["items"][0][0] == "lit" and b["items"][0][0] == "lit" and len(a["items"][0][1]) == 1 and len(b["items"][0][1]) == 1:
            sa, sb = first_flag_side(body, a["loop"], a["bb"]), first_flag_side(body, b["loop"], b["bb"])
            if {sa, sb} == {True, False}:
                fst, rest = (a, b) if sa else (b, a)
                common = [x for x in a["atoms"] if x in b["atoms"]]
                merged.append({"bb": a["bb"], "site": a["site"], "atoms": common, "loop": a["loop"], "items": [("prefix", (ord(fst["items"][0][1]), ord(rest["items"][0][1])))]})
                i += 2
                continue
        merged.append(a)
        i += 1
    return {"key": key, "body": body, "emits": merged}


def display_wrapper(facts, n):
    """n is a value of a private struct built right here whose Display impl writes exactly one other value with `{}` and
    nothing else: the term of that value with the struct's fields replaced by the operands it was built from; else None"""
    if not (n[0] == "agg" and n[1][0] == "adt" and len(n[1]) > 3 and len(n[1][3]) == len(n[2])):
        return None
    path, names, ops = n[1][1], list(n[1][3]), n[2]
    adt = facts.adts.get(path)
    if adt is None or adt.get("vis") == "pub" or adt.get("reachable"):
        return None
    ks = [k for k, f in facts.fns.items() if f.get("impl_trait_def") == "std::fmt::Display" and f.get("name") == "fmt" and (f.get("impl_self") or "").split("<")[0] == path]
    if len(ks) != 1 or ks[0] not in facts.bodies:
        return None
    b = facts.body(ks[0])
    if b.back_edges():
        return None
    inner = None
    ncalls = 0
    for bb, t in b.calls():
        pth = callee_name(t["callee"])
        args = [b.resolve_operand(a) for a in t["args"]]
        if not any(strip(a) == ("arg", 2) for a in args):
            if pth == ENCODE or is_transparent(pth):
                continue
            return None
        ncalls += 1
        if (pth.endswith(" as std::fmt::Display>::fmt") or pth == "std::fmt::Display::fmt") and len(args) == 2 and strip(args[1]) == ("arg", 2):
            inner = norm(args[0])
        elif pth in WRITE_FMT:
            pieces = fmt_pieces(args[1])
            if pieces is None or len(pieces) != 1 or pieces[0][0] != "display":
                return None
            inner = norm(pieces[0][1])
        else:
            return None
    if ncalls != 1 or inner is None:
        return None

    def sub(t):
        if not isinstance(t, tuple):
            return t
        if len(t) == 3 and t[0] == "field":
            base = t[1]
            while isinstance(base, tuple) and base and base[0] in ("ref", "deref"):
                base = base[2] if base[0] == "ref" else base[1]
            if base == ("arg", 1) and t[2] in names:
                return ops[names.index(t[2])]
        return tuple(sub(x) for x in t)
    return sub(inner)


def is_transparent(path):
    from .core import is_transparent_call
    return is_transparent_call(path)


def first_flag_side(body, h, bb):
    """Is block bb, inside the loop headed by h, on the `first iteration` side (True) or on the `not the first iteration`
    side (False) of a loop-carried flag (`let mut first = true; for .. { if first { first = false; A } else { B } }`)?
    The flag starts true, the loop only ever stores false, it is cleared on the first-iteration side only and on every
    way from there to the next iteration.  None when there is no such flag.  (The same information as an enumerate()
    index == 0 / > 0.)"""
    from . import scanact
    lb = body.loops().get(h, set())
    if bb not in lb:
        return None
    st = scanact.state_locals(body, lb)
    for d in sorted(lb):
        sl = scanact.switch_local(body, d)
        if sl is None or sl[1] or sl[0] not in st or d == bb or not body.dominates(d, bb):
            continue
        F, _, _, neg = sl
        info = st[F]
        inside = [scanact.const_state_value(strip(body._rv_term(dd[3]))) for dd in body.defs()[F] if dd[0] in lb and dd[2] == "rv"]
        if list(info["init"]) != [("bool", True)] or not inside or any(v != ("bool", False) for v in inside):
            continue
        edges = {}
        for (lab, tg) in body.edges(d):
            if lab == "otherwise" or lab == ("sw", 0):
                edges[(lab == "otherwise") != neg] = tg
        tT, tF = edges.get(True), edges.get(False)
        if tT is None or tF is None or tT == tF:
            continue
        single = lambda b_: len([p_ for p_ in body.preds()[b_] if not body.is_cleanup(p_)]) == 1  # noqa: E731
        defs_in = [dd[0] for dd in body.defs()[F] if dd[0] in lb and dd[2] == "rv"]
        # every way from the first-iteration side to the next iteration stores `false` (a store on the other side as well, or
        # after the two sides have met again, writes false over false)
        cleared = single(tT) and (tT in defs_in or h not in body.reachable_from(tT, avoid=set(defs_in)))
        if not cleared:
            continue
        if single(tF) and (tF == bb or body.dominates(tF, bb)):
            return False
        if tT == bb or body.dominates(tT, bb):
            return True
    return None


def body_arg(ncall, i):
    return ncall[2][i]


def orig_arg(t, i):
    """i-th argument of the (un-normalised) call term under references."""
    c = strip(t)
    if c[0] != "call":
        raise AnchorError("expected a call term")
    return c[2][i]


def prefix_roles(body, t, loop_header):
    """For a loop-carried char variable: (entry char, back-edge char)."""
    s_ = strip(t)
    # find the local behind the phi: search defs of locals whose resolve gives this phi
    entry = None
    back = None
    loops = body.loops()
    blk = loops.get(loop_header, set()) if loop_header is not None else set()
    for local, ds in body.defs().items():
        vals = []
        for (b, i, kind, payload) in ds:
            if kind != "rv":
                vals = None
                break
            rt = strip(body._rv_term(payload))
            if rt[0] == "const" and isinstance(rt[1], tuple) and rt[1][0] == "char":
                vals.append((b, rt[1][1]))
            else:
                vals = None
                break
        if not vals or len(vals) < 2:
            continue
        if strip(body.resolve_local(local)) != s_:
            continue
        if all(b in blk for b, _ in vals) and len(vals) == 2:
            # chosen inside the loop by the enumerate index: `if i == 0 { A } else { B }` -- A on the first item, B afterwards
            for b, c in vals:
                first = None
                for _, a in atoms_at(body, b):
                    ca = canon_atom(a)
                    if ca[0] == "cmp" and ca[1] in ("Eq", "Ne") and ca[3] in (("?", "0"), ("const", 0)) and ca[2][0] == "Field" and "Enumerate" in ca[2][1] and ca[2][1].endswith(").0"):
                        first = ca[4] if ca[1] == "Eq" else (not ca[4])
                if first is None and loop_header is not None:
                    # .. or by a loop-carried `first` flag: `let prefix = if is_first { A } else { B }; is_first = false;`
                    first = first_flag_side(body, loop_header, b)
                if first is True:
                    entry = c if entry is None else ("multi", entry, c)
                elif first is False:
                    back = c if back is None else ("multi", back, c)
            continue
        for b, c in vals:
            if b in blk:
                back = c if back is None else ("multi", back, c)
            else:
                entry = c if entry is None else ("multi", entry, c)
    return (entry, back)


# ---------------------------------------------------------------- accessor summaries
def accessor_summary(facts, key, summ=None):
    """Summarise a GenericPurl accessor as (field path, filter formula or None)."""
    summ = summ or boolsum.Summarizer(facts)
    body = facts.body(key)
    if body.back_edges():
        raise AnchorError("accessor has a loop", key)
    rets = body.exits()
    if len(rets) != 1:
        raise AnchorError("accessor with %d return blocks" % len(rets), key)
    t = norm(body.resolve_local(0))
    if t[0] == "call" and t[1] == "std::option::Option::<T>::filter":
        src, clo = t[2]
        if src[0] == "agg" and src[1][0] == "adt" and src[1][2] == "Some" and clo[0] == "closure":
            f = summ.summary(clo[1])
            return {"field": src[2][0], "filter": f, "kind": "some-filter"}
    if t[0] == "field":
        return {"field": t, "filter": None, "kind": "plain"}
    # `if x.is_empty() { None } else { Some(x) }` (possibly through a private helper, inlined): two returns, split by the
    # emptiness of the very value that is returned
    rets = [(b, classify_return(n)) for (b, n) in returns(body)]
    if len(rets) == 2 and sorted(c[0] for _, c in rets) == ["none", "some"]:
        (bn, cn), (bs_, cs) = sorted(rets, key=lambda x: x[1][0])
        an = [canon_atom(a) for _, a in atoms_at(body, bn)]
        as_ = [canon_atom(a) for _, a in atoms_at(body, bs_)]
        pay = cs[1]
        v = _value(strip(pay))
        if an == [("empty", v, True)] and as_ == [("empty", v, False)]:
            fld = strip(pay)
            while fld[0] in ("deref", "ref"):
                fld = fld[-1]
            synth = ("not", ("p", STR + "is_empty", (("arg", 2),)))
            return {"field": fld, "filter": synth, "kind": "some-filter", "form": "if-empty-none-else-some"}
    return {"field": None, "filter": None, "kind": "unknown", "term": t}


def field_path(t):
    """("field", ("field", ("arg",1), "parts"), "name") -> "parts.name" ; None if not rooted at arg1"""
    names = []
    while t[0] == "field" or (t[0] == "var" and len(t) > 2 and isinstance(t[2], tuple) and t[2] and t[2][0] in ("field", "var")):
        if t[0] == "var":
            # a local initialised by moving a field out of self (`let Self { a, b } = self;`) continues that field's life:
            # the moved-from place is dead afterwards, so the local *is* the field for every later effect
            t = t[2]
            continue
        names.append(t[2])
        t = t[1]
    if t == ("arg", 1):
        return ".".join(reversed(names))
    return None


def self_field_locals(body):
    """{local: field path} for the mutable locals initialised by moving a field out of self"""
    out = {}
    for l in sorted(body.mut_locals()):
        if l <= body.arg_count:
            continue
        t = body.resolve_local(l)
        if t[0] == "var" and len(t) > 2 and isinstance(t[2], tuple) and t[2] and t[2][0] == "field":
            fp = field_path(t[2])
            if fp is not None:
                out[l] = fp
    return out


# ====================================================================== PM -- parser model
STR = "core::str::<impl str>::"


def cchar(t):
    t = strip(t)
    if t[0] == "named" and isinstance(t[3], tuple) and t[3] and t[3][0] == "char":
        return chr(t[3][1])   # a named constant (`const SEPARATOR: char = ','`), evaluated by the compiler
    if t[0] == "const" and isinstance(t[1], tuple) and t[1][0] == "char":
        return chr(t[1][1])
    return None


def cstr(t):
    t = strip(t)
    if t[0] == "named" and isinstance(t[3], str):
        return t[3]
    if t[0] == "const" and isinstance(t[1], str):
        return t[1]
    return None


_DECODERS = set()


def set_decoders(keys):
    """Local fns recognised as the strict percent-decoder (by decoder_role); used by region()."""
    _DECODERS.clear()
    _DECODERS.update(keys)


def region(t):
    """Translate a normalised &str term into a region term over the function's input.

    ("Input", n) | ("StripPrefix", k, r) | ("TrimStart", c, r) | ("Trim", c, r) | ("TrimEnd", c, r)
    | ("RSplitL"|"RSplitR"|"SplitL"|"SplitR", c, r)
    | ("RSplitLOpt"|"RSplitROpt"|"SplitLOpt"|"SplitROpt", c, r)   -- that half if c occurs, else all of r
    | ("Item", c, r)        an element of r.split(c)
    | ("Decode", r)         ok-payload of the local strict decoder applied to r
    | ("?", shown)          not understood
    """
    n = norm(t)
    return _region(n)


def iter_source(nextcall, through=()):
    """the iterator expression a `next` call advances, looking through into_iter (and the given adaptors)"""
    src = nextcall[2][0]
    for _ in range(8):
        if src[0] == "var" and len(src) > 2:
            src = src[2]  # the iterator variable (or a variable it was moved into / out of): its initial value
        elif src[0] == "call" and (src[1] in ("std::iter::IntoIterator::into_iter", "<I as std::iter::IntoIterator>::into_iter") or src[1] in through):
            src = src[2][0]
        elif src[0] == "field" and len(src) == 3:
            # the inner iterator of a private iterator struct whose `next` was inlined: `RawPairs { pairs: s.split('&') }`,
            # advanced as `self.pairs.next()` -- the field of the struct value the loop variable was initialised with
            base = src[1]
            for _ in range(6):
                if base[0] == "var" and len(base) == 3:      # (a struct one of whose fields is assigned directly is not resolved)
                    base = base[2]
                elif base[0] == "call" and base[1] in ("std::iter::IntoIterator::into_iter", "<I as std::iter::IntoIterator>::into_iter") and len(base[2]) == 1:
                    base = base[2][0]
                elif base[0] in ("ref", "deref"):
                    base = base[2] if base[0] == "ref" else base[1]
                else:
                    break
            if base[0] == "agg" and base[1][0] == "adt" and len(base[1]) > 3 and src[2] in base[1][3] and len(base[1][3]) == len(base[2]):
                src = base[2][list(base[1][3]).index(src[2])]
            else:
                break
        else:
            break
    return src


def _split_call(n):
    """n = call rsplit_once/split_once(R, c) -> (kind, c, R) else None"""
    if n[0] == "call" and n[1] in (STR + "rsplit_once", STR + "split_once") and len(n[2]) == 2:
        c = cchar(n[2][1])
        if c is None:
            return None
        return ("R" if n[1].endswith("rsplit_once") else "", c, n[2][0])
    return None


STR_INDEX = "core::str::traits::<impl std::ops::Index<I> for str>::index"


def _find_call(n):
    """n = some/ok(find|rfind(S, c)) -> ("R"|"", c, S) else None   (c a char constant)"""
    if n[0] in ("some", "ok") and n[1][0] == "call" and n[1][1] in (STR + "find", STR + "rfind") and len(n[1][2]) == 2:
        c = cchar(n[1][2][1])
        if c is not None:
            return ("R" if n[1][1].endswith("rfind") else "", c, n[1][2][0])
    return None


def _plus_one(n):
    """n = X + 1  or  X + c.len_utf8() for an ASCII char constant -> (X, c or None) else None"""
    if n[0] == "field" and n[2] == "0" and n[1][0] == "binop" and n[1][1] in ("AddWithOverflow", "Add"):
        n = n[1]
    if n[0] == "binop" and n[1] in ("AddWithOverflow", "Add", "AddUnchecked"):
        a, b = n[2], n[3]
        if b == ("const", 1):
            return (a, None)
        if b[0] == "call" and b[1].endswith("<impl char>::len_utf8") and len(b[2]) == 1:
            c = cchar(b[2][0])
            if c is not None and ord(c) < 128:
                return (a, c)
    return None


def _slice_region(n):
    """&s[..i] / &s[i+1..] with i the position of a char found in the same s: the two halves of split_once / rsplit_once.
    (str::find / rfind return the byte index of the first / last occurrence; an ASCII char is one byte long.)"""
    if n[0] != "call" or n[1] != STR_INDEX or len(n[2]) != 2:
        return None
    s_, rg = n[2]
    if rg[0] != "agg" or rg[1][0] != "adt":
        return None
    kind = rg[1][1]
    # &s.split_at(pos).1[1..]: the tail starts with the one-byte char found at pos
    if kind == "std::ops::RangeFrom" and len(rg[2]) == 1 and rg[2][0] == ("const", 1) and s_[0] == "field" and s_[2] == "1" and s_[1][0] == "call" and s_[1][1] == STR + "split_at" and len(s_[1][2]) == 2:
        fc = _find_call(s_[1][2][1])
        if fc is not None and fc[2] == s_[1][2][0] and ord(fc[1]) < 128:
            return (fc[0] + "SplitR", fc[1], _region(s_[1][2][0]))
    if kind == "std::ops::RangeTo" and len(rg[2]) == 1:
        fc = _find_call(rg[2][0])
        if fc is not None and fc[2] == s_:
            return (fc[0] + "SplitL", fc[1], _region(s_))
    if kind == "std::ops::RangeFrom" and len(rg[2]) == 1:
        po = _plus_one(rg[2][0])
        if po is not None:
            fc = _find_call(po[0])
            if fc is not None and fc[2] == s_ and ord(fc[1]) < 128 and (po[1] is None or po[1] == fc[1]):
                return (fc[0] + "SplitR", fc[1], _region(s_))
    return None


def _skip_leading(n):
    """&s[s.as_bytes().iter().position(|&b| b != C)..] for an ASCII C: s without its leading C's  ->  (C, s) else None.
    (position gives the first byte that is not C; all bytes before it are the one-byte char C, so it is a char boundary;
    together with the `None => ""` arm this is s.trim_start_matches(C).)"""
    if n[0] != "call" or n[1] != STR_INDEX or len(n[2]) != 2:
        return None
    s_, rg = n[2]
    if not (rg[0] == "agg" and rg[1][0] == "adt" and rg[1][1] == "std::ops::RangeFrom" and len(rg[2]) == 1):
        return None
    pos = rg[2][0]
    if not (pos[0] in ("some", "ok") and pos[1][0] == "call" and pos[1][1].endswith("::position") and "slice::Iter" in pos[1][1] and len(pos[1][2]) == 2):
        return None
    it, clo = pos[1][2]
    while it[0] == "var" and len(it) > 2:
        it = it[2]
    if not (it[0] == "call" and it[1] == "core::slice::<impl [T]>::iter" and it[2][0][0] == "call" and it[2][0][1] == STR + "as_bytes" and it[2][0][2][0] == s_):
        return None
    if clo[0] not in ("closure", "fn"):
        return None
    oc = _only_char(("bytes", clo[1]), "any", True)   # `any(pred)` is false exactly on strings made of C only
    if oc is None or oc[1] is not False:
        return None
    return (oc[0], s_)


def _item(c, r):
    """an element of r.split(c).  Trimming c off the ends of r first only removes empty elements at the ends; the rules
    that use items require the empty element to be skipped anyway (skip-set obligations of C02/C07), so the trimmed and
    the untrimmed form denote the same significant items and are given one canonical form."""
    while r[0] in ("Trim", "TrimStart", "TrimEnd") and r[1] == c:
        r = r[2]
    return ("Item", c, r)


def _region(n):
    k = n[0]
    if k == "arg":
        return ("Input", n[1])
    if k == "call":
        p = n[1]
        if p == STR + "trim_start_matches" and cchar(n[2][1]) is not None:
            return ("TrimStart", cchar(n[2][1]), _region(n[2][0]))
        if p == STR + "trim_end_matches" and cchar(n[2][1]) is not None:
            return ("TrimEnd", cchar(n[2][1]), _region(n[2][0]))
        if p == STR + "trim_matches" and cchar(n[2][1]) is not None:
            return ("Trim", cchar(n[2][1]), _region(n[2][0]))
        sl = _slice_region(n)
        if sl is not None:
            return sl
        return ("?", nshow(n))
    if k in ("some", "ok"):
        x = n[1]
        if x[0] == "call" and x[1] in _DECODERS and len(x[2]) == 1:
            return ("Decode", _region(x[2][0]))
        # ok(ok_or(X, e)) == some(X)
        if x[0] == "call" and x[1] == "std::option::Option::<T>::ok_or":
            x = x[2][0]
        if x[0] == "call" and x[1] == STR + "strip_prefix":
            ks = cstr(x[2][1])
            if ks is not None:
                return ("StripPrefix", ks, _region(x[2][0]))
        if x[0] == "call" and "Iterator" in x[1] and x[1].endswith("::next"):
            # an item of split(c).filter(p) is an item of split(c) for which p holds (sem.filter_atoms supplies p as path atoms)
            src = iter_source(x, through=("std::iter::Iterator::filter",) if x[1].startswith("<std::iter::Filter<") else ())
            if src is not None and src[0] == "call" and src[1] == STR + "split" and cchar(src[2][1]) is not None:
                return _item(cchar(src[2][1]), _region(src[2][0]))
        return ("?", nshow(n))
    if k == "field":
        base = n[1]
        # (head, tail) = s.split_at(pos) with pos the position of a char found in s: head = s[..pos]
        if n[2] == "0" and base[0] == "call" and base[1] == STR + "split_at" and len(base[2]) == 2:
            fc = _find_call(base[2][1])
            if fc is not None and fc[2] == base[2][0]:
                return (fc[0] + "SplitL", fc[1], _region(base[2][0]))
        # element of an enumerate()d split: (index, item)
        if base[0] == "some" and n[2] == "1" and base[1][0] == "call" and base[1][1].startswith("<std::iter::Enumerate<") and base[1][1].endswith("::next"):
            src = iter_source(base[1], through=("std::iter::Iterator::enumerate",))
            if src is not None and src[0] == "call" and src[1] == STR + "split" and cchar(src[2][1]) is not None:
                return _item(cchar(src[2][1]), _region(src[2][0]))
        if base[0] in ("some", "ok"):
            x = base[1]
            if x[0] == "call" and x[1] == "std::option::Option::<T>::ok_or":
                x = x[2][0]
            sc = _split_call(x)
            if sc is not None and n[2] in ("0", "1"):
                d, c, r = sc
                return (d + "Split" + ("L" if n[2] == "0" else "R"), c, _region(r))
        return ("?", nshow(n))
    if k == "phi":
        leaves = []

        def flat(x):
            if x[0] == "phi":
                for y in x[1]:
                    flat(y)
            elif x not in leaves:
                leaves.append(x)
        flat(n)
        # { "", &s[first non-C byte..] }  ==  s.trim_start_matches(C)
        rs = []
        if ("const", "") in leaves:
            for x in list(leaves):
                sk = _skip_leading(x)
                if sk is not None:
                    leaves = [y for y in leaves if y != x and y != ("const", "")]
                    rs.append(("TrimStart", sk[0], _region(sk[1])))
                    break
        for x in leaves:
            r = _region(x)
            if r[0] == "Phi":
                for y in r[1]:
                    if y not in rs:
                        rs.append(y)
            elif r not in rs:
                rs.append(r)
        # reduce: {X, Split(c, X)} -> SplitOpt(c, X) ("that half if c occurs, else all of X"), repeatedly; an optional split
        # already contains "or all of X"
        changed = True
        while changed and len(rs) > 1:
            changed = False
            for r in list(rs):
                if r[0] in ("RSplitL", "RSplitR", "SplitL", "SplitR") and r[2] in rs:
                    a = r[2]
                    rs = [x for x in rs if x != r and x != a] + [(r[0] + "Opt", r[1], a)]
                    changed = True
                    break
                if r[0].endswith("Opt") and len(r) == 3 and r[2] in rs:
                    rs = [x for x in rs if x != r[2]]
                    changed = True
                    break
        if len(rs) == 1:
            return rs[0]
        if len(rs) == 2:
            for a, b in ((rs[0], rs[1]), (rs[1], rs[0])):
                if b[0] in ("RSplitL", "RSplitR", "SplitL", "SplitR") and b[2] == a:
                    return (b[0] + "Opt", b[1], a)
        return ("Phi", tuple(rs))
    return ("?", nshow(n))


def show_region(r):
    k = r[0]
    if k == "Input":
        return "Input"
    if k == "?":
        return "?<%s>" % r[1][:80]
    if k == "Phi":
        return "Phi(%s)" % " | ".join(show_region(x) for x in r[1])
    if k == "Decode":
        return "Decode(%s)" % show_region(r[1])
    if k in ("Var", "Field"):
        return "%s(%s)" % (k, r[1])
    if len(r) != 3:
        return repr(r)
    return "%s(%r, %s)" % (k, r[1], show_region(r[2]))


def region_ok(r):
    if r[0] == "?":
        return False
    if r[0] == "Input":
        return True
    if r[0] == "Phi":
        return False
    if r[0] == "Decode":
        return region_ok(r[1])
    return region_ok(r[2])


def variant_constraint(body, bb, local):
    """frozenset of enum variant names `local` can have at block bb according to the dominating `switch discr(local)`
    tests, or None if there is no such test"""
    res = None
    dom = body.dominators()
    if bb not in dom:
        return None
    for d in sorted(dom[bb]):
        t = body.term(d)
        if t["t"] != "switch" or d == bb:
            continue
        op = t["discr"]
        if op["o"] not in ("copy", "move") or op["place"]["proj"]:
            continue
        ds = [x for x in body.defs().get(op["place"]["l"], []) if not body.is_cleanup(x[0])]
        if len(ds) != 1 or ds[0][2] != "rv" or ds[0][3]["r"] != "discr":
            continue
        rv = ds[0][3]
        if rv["place"]["proj"] or rv["place"]["l"] != local or not rv.get("variants"):
            continue
        ok_vals = set()
        for (lab, tg) in body.edges(d):
            if tg == bb or bb in body.reachable_from(tg, avoid={d}):
                if lab == "otherwise":
                    taken = set(v for (l2, _) in body.edges(d) if l2 != "otherwise" for v in [l2[1]])
                    ok_vals |= set(range(len(rv["variants"]))) - taken
                else:
                    ok_vals.add(lab[1])
        names = frozenset(rv["variants"][v] for v in ok_vals if 0 <= v < len(rv["variants"]))
        res = names if res is None else (res & names)
    return res


def returns(body):
    """Definition sites of the return place _0: [(bb, normalised term)]"""
    out = []
    seen = set()
    work = [(0, None)]
    while work:
        l, allowed = work.pop()
        if (l, allowed) in seen:
            continue
        seen.add((l, allowed))
        for (b, i, kind, payload) in body.defs().get(l, []):
            if body.is_cleanup(b):
                continue
            if kind == "call":
                out.append((b, norm(body.call_term(b))))
                continue
            # `_0 = move _r` where _r collects the value on several paths (an inlined callee's return place, a version
            # join): the returns are the definitions of _r, each at its own block
            if payload["r"] == "use" and payload["op"]["o"] in ("copy", "move") and not payload["op"]["place"]["proj"]:
                src = payload["op"]["place"]["l"]
                if src > body.arg_count and src not in body.mut_locals() and len([d for d in body.defs().get(src, []) if not body.is_cleanup(d[0])]) >= 1:
                    # only the variants the dominating discriminant tests let through reach this copy (`Err(e) => return Err(e)`)
                    al = variant_constraint(body, b, src)
                    if allowed is not None:
                        al = allowed if al is None else (al & allowed)
                    work.append((src, al))
                    continue
            if allowed is not None and payload["r"] == "aggregate" and payload.get("ak") == "adt" and payload.get("variant") is not None and payload["variant"] not in allowed:
                continue
            out.append((b, norm(body._rv_term(payload))))
    out.sort(key=lambda x: x[0])
    return out


def classify_return(n):
    """('ok', payload) | ('err', errterm) | ('propagate', callterm_of_failed_result) | ('tail', callterm) | ('other', n)"""
    if n[0] == "agg" and n[1][0] == "adt" and n[1][1] == "std::result::Result":
        if n[1][2] == "Err" and len(n[2]) == 1 and n[2][0][0] == "err" and n[2][0][1][0] == "from_residual":
            # Err(e) with e the error of a value that `?` produced (`r @ Err(_) => return r` spelled `Err(e) => return Err(e)`,
            # as the model of std's try_fold does): the same as handing that value on
            return classify_return(n[2][0][1])
        if n[1][2] == "Err" and len(n[2]) == 1 and n[2][0][0] == "err" and n[2][0][1][0] == "call":
            # `match f(x) { Ok(v) => v, Err(e) => return Err(e) }`: the error of f(x) handed on as it is  ==  f(x)?
            return ("propagate", n[2][0][1])
        return ("ok" if n[1][2] == "Ok" else "err", n[2][0])
    if n[0] == "agg" and n[1][0] == "adt" and n[1][1] == "std::option::Option":
        return ("some" if n[1][2] == "Some" else "none", n[2][0] if n[2] else None)
    if n[0] == "from_residual":
        e = n[1]
        if e[0] == "err":
            x = e[1]
            # `Err(e)?` (the residual of a value built as Err right here): returns Err(From::from(e))
            if x[0] == "agg" and x[1][0] == "adt" and x[1][1] == "std::result::Result" and x[1][2] == "Err" and len(x[2]) == 1:
                if x[2][0][0] == "err" and x[2][0][1][0] == "from_residual":
                    return classify_return(x[2][0][1])   # the error of a value that `?` produced, wrapped again and re-raised
                return ("err", x[2][0])
            return ("propagate", e[1])
        return ("propagate", e)
    if n[0] == "call":
        return ("tail", n)
    return ("other", n)


def error_const(e):
    """Name a constant error value: 'ParseError::InvalidEscape', 'ParseError::MissingRequiredField(Name)' ..."""
    if e[0] == "conv":
        return error_const(e[1])
    if e[0] == "call" and (e[1].endswith("::from") or e[1].endswith("::into")) and len(e[2]) == 1:
        return error_const(e[2][0])
    if e[0] == "agg" and e[1][0] == "adt":
        path = e[1][1].split("::")[-1]
        name = "%s::%s" % (path, e[1][2])
        if e[2]:
            return "%s(%s)" % (name, ", ".join(error_const(x) for x in e[2]))
        return name
    if e[0] == "const":
        return repr(e[1])
    return "?" + nshow(e)[:80]


def parts_writes(body, var_local):
    """Partial writes `var.field = term` to a PurlParts local: [(bb, fieldname, normalised term)]"""
    out = []
    for (b, i, st) in body.partial_writes(var_local):
        if body.is_cleanup(b):
            continue
        if i == "term":
            pl = st["dest"]
            term = norm(body.call_term(b), keep_conv=True)
        else:
            if st["s"] != "assign":
                continue
            pl = st["place"]
            term = norm(body._rv_term(st["rv"]), keep_conv=True)
        names = [p["name"] for p in pl["proj"] if p["p"] == "field"]
        out.append((b, ".".join(names), term))
    return out


def unconv(t):
    while t[0] == "conv":
        t = t[1]
    return t


def decoder_role(facts, key):
    """Is the local fn `key` the strict percent-decoder?  (percent_decode_str(x).decode_utf8().map_err(_ -> InvalidEscape))"""
    if key not in facts.bodies:
        return None
    b = facts.body(key)
    if b.back_edges() or b.arg_count != 1:
        return None
    t = norm(b.resolve_local(0))
    # map_err(decode_utf8(percent_decode_str(arg1)), closure)
    if t[0] == "call" and t[1] == "std::result::Result::<T, E>::map_err":
        inner, clo = t[2]
        if inner[0] == "call" and inner[1] == "percent_encoding::PercentDecode::<'a>::decode_utf8":
            src = inner[2][0]
            if src[0] == "call" and src[1] == "percent_encoding::percent_decode_str" and src[2] == (("arg", 1),):
                err = None
                if clo[0] == "closure" and clo[1] in facts.bodies:
                    cb = facts.body(clo[1])
                    err = error_const(norm(cb.resolve_local(0)))
                return {"kind": "strict", "error": err}
    # the same as an explicit match: Ok(d) => Ok(d), Err(_) => Err(E)
    calls = [(bb, callee_name(tt["callee"])) for bb, tt in b.calls()]
    dec = [bb for bb, pth in calls if pth == "percent_encoding::PercentDecode::<'a>::decode_utf8"]
    DEC_CALLS = ["percent_encoding::percent_decode_str", "percent_encoding::PercentDecode::<'a>::decode_utf8"]
    SCAN_CALLS = (STR + "as_bytes", SLICE_CONTAINS, STR_CONTAINS)
    if len(dec) == 1 and sorted(pth for _, pth in calls if pth not in SCAN_CALLS) == sorted(DEC_CALLS):
        dt = norm(b.call_term(dec[0]))
        src = dt[2][0]
        if src[0] == "call" and src[1] == "percent_encoding::percent_decode_str" and src[2] == (("arg", 1),):
            rets = [(bb, classify_return(n)) for (bb, n) in returns(b)]
            # a fast path for text without '%': percent_decode_str(s).decode_utf8() of such an s is Ok(Cow::Borrowed(s))
            # (percent-encoding: `PercentDecode::if_any` finds no escape -> the input bytes borrowed; they are a valid &str)
            NOPCT = ("contains", "%", ("Input", 1), False)
            PCT = ("contains", "%", ("Input", 1), True)
            fast = [(bb, c) for bb, c in rets if c == ("ok", ("agg", ("adt", "std::borrow::Cow", "Borrowed", ("0",)), (("arg", 1),)))]
            if len(fast) == 1 and len(rets) == 3 and [canon_atom(a) for _, a in atoms_at(b, fast[0][0])] == [NOPCT]:
                rets = [r for r in rets if r[0] != fast[0][0]]
                drop_pct = True
            else:
                drop_pct = False
            if len(rets) == 2 and sorted(c[0] for _, c in rets) == ["err", "ok"]:
                (be, ce), (bo, co) = sorted(rets, key=lambda r: r[1][0])
                ae = [canon_atom(a) for _, a in atoms_at(b, be)]
                ao = [canon_atom(a) for _, a in atoms_at(b, bo)]
                if drop_pct:
                    ae = [a for a in ae if a != PCT]
                    ao = [a for a in ao if a != PCT]
                okp = co[1] == ("ok", dt)
                if okp and len(ae) == 1 and ae[0][0] == "callres" and ae[0][1] == dt[1] and ae[0][-1] in ("Err", "Err?") and len(ao) == 1 and ao[0][0] == "callres" and ao[0][-1] in ("Ok", "Ok?"):
                    return {"kind": "strict", "error": error_const(ce[1])}
    return None


def parser_model(facts):
    key = from_str_fn(facts)
    body = facts.body(key)
    if body.back_edges():
        raise AnchorError("from_str contains a loop; the term dataflow of the parser model assumes a loop-free body", key)
    pm = {"key": key, "body": body, "sinks": {}, "calls": [], "guards": [], "returns": []}
    # the region reading of `match bytes.position(p) { Some(i) => &s[i..], None => "" }` as a leading trim (_skip_leading)
    # merges the "" of the None arm into the slice: an empty-string constant stored anywhere else in the parser would be
    # merged with it, so there must be none
    for bi, bl in enumerate(body.blocks):
        if bl["cleanup"] or bl.get("dead"):
            continue
        for st_ in bl["stmts"]:
            if st_.get("s") == "assign" and st_["rv"]["r"] == "use" and st_["rv"]["op"]["o"] == "const" and st_["rv"]["op"]["c"].get("v") == "" and st_["rv"]["op"]["c"].get("ty", "").startswith("&") and "str" in st_["rv"]["op"]["c"].get("ty", ""):
                ats = [a for _, a in atoms_at(body, bi)]
                if not any(a[0] == "is" and a[-1] == "None" and a[1][0] == "call" and a[1][1].endswith("::position") for a in ats):
                    raise AnchorError("from_str stores an empty string constant outside the `position(..) == None` arm of a leading trim", key)
    # the PurlParts accumulator: a var local of type PurlParts
    parts_locals = [i for i, l in enumerate(body.locals) if l["ty"] == "PurlParts" and i in body.mut_locals()]
    if len(parts_locals) != 1:
        raise AnchorError("expected exactly one mutable PurlParts local in from_str, found %d" % len(parts_locals), key)
    pv = parts_locals[0]
    pm["parts_local"] = pv
    init = norm(body._resolve_local(pv))
    pm["parts_init"] = init
    decoders = {k: decoder_role(facts, k) for k in facts.bodies}
    decoders = {k: v for k, v in decoders.items() if v}
    pm["decoders"] = decoders
    set_decoders(decoders.keys())
    # field stores
    for (b, fld, term) in parts_writes(body, pv):
        t = unconv(term)
        sink = {"bb": b, "site": body.site(b), "field": fld, "term": term, "atoms": [a for _, a in atoms_at(body, b)]}
        if t[0] == "ok" and t[1][0] == "call" and t[1][1] in facts.bodies and len(t[1][2]) == 1:
            callee = t[1][1]
            sink["via"] = callee
            sink["region"] = _region(t[1][2][0])
            sink["decoded"] = callee in decoders
        else:
            sink["via"] = None
            sink["region"] = _region(t)
            sink["decoded"] = False
        pm["sinks"].setdefault(fld, []).append(sink)
    # calls that receive &mut parts (the qualifier decoder) and the type conversion / build
    for bb, t in body.calls():
        path = callee_name(t["callee"])
        args = [norm(body.resolve_operand(a)) for a in t["args"]]
        rec = {"bb": bb, "site": body.site(bb), "path": path, "args": args, "atoms": [a for _, a in atoms_at(body, bb)], "generic": t["callee"].get("trait")}
        def is_parts(a):
            return a == ("var", pv, init) or (a[0] == "var" and a[1] == pv)
        if any(is_parts(a) or (a[0] == "field" and a[2] == "qualifiers" and is_parts(a[1])) for a in args):
            rec["takes_parts"] = True   # the whole accumulator, or just its qualifier list
            rec["parts_field"] = next(("qualifiers" for a in args if a[0] == "field" and a[2] == "qualifiers" and is_parts(a[1])), None)
        pm["calls"].append(rec)
    for (b, n) in returns(body):
        pm["returns"].append({"bb": b, "site": body.site(b), "cls": classify_return(n), "atoms": [a for _, a in atoms_at(body, b)]})
    return pm


# ====================================================================== effects on mutable locals
def mut_effects(body):
    """Calls that receive a mutable borrow of (part of) a local/argument, and partial writes.

    Returns [{bb, path, target, args, atoms, in_loop}] where target = ("var", n, path...) / ("arg", n, path...)."""
    out = []
    loops = body.loops()
    for bb, t in body.calls():
        path = callee_name(t["callee"])
        raw = [body.resolve_operand(a) for a in t["args"]]
        for i, a in enumerate(raw):
            tgt = mut_target(a)
            derived = False
            if tgt is None and not is_plumbing(path):
                tgt = contains_mut_target(a, body)
                derived = tgt is not None
            if tgt is not None:
                out.append({
                    "derived": derived,
                    "bb": bb,
                    "site": body.site(bb),
                    "path": path,
                    "argi": i,
                    "target": tgt,
                    "args": [norm(x, keep_conv=True) for x in raw],
                    "raw": raw,
                    "atoms": [x for _, x in atoms_at(body, bb)],
                    "loop": next((h for h, blk in loops.items() if bb in blk), None),
                })
    return out


PLUMBING = ("std::ops::Try::branch", "std::ops::FromResidual::from_residual", "std::iter::IntoIterator::into_iter", "std::convert::Into::into", "std::convert::From::from")


def is_plumbing(path):
    if not isinstance(path, str):
        return False
    return any(path == p or path.endswith(p.split("::")[-2] + ">::" + p.split("::")[-1]) for p in PLUMBING) or "as std::ops::Try>::branch" in path or "FromResidual" in path


def mut_target(a):
    """If term `a` is a mutable reference (possibly reborrowed / deref_mut'ed) to a place rooted at a var/arg,
    return ("var"|"arg", n, fieldpath)."""
    mutable = False
    t = a
    fields = []
    while True:
        if t[0] == "ref":
            if t[1]:
                mutable = True
            t = t[2]
        elif t[0] == "deref":
            t = t[1]
        elif t[0] == "call" and isinstance(t[1], str) and (t[1] == "std::ops::DerefMut::deref_mut" or t[1].endswith("as std::ops::DerefMut>::deref_mut") or t[1] in MUT_STR_VIEWS) and len(t[2]) == 1:
            mutable = True
            t = t[2][0]
        elif t[0] == "cast" and ("Pointer" in t[1] or "Unsize" in t[1]):
            t = t[2]
        elif t[0] == "field":
            fields.append(t[2])
            t = t[1]
        elif t[0] == "downcast":
            fields.append("<%s>" % t[2])
            t = t[1]
        elif t[0] == "var" and len(t) > 2 and isinstance(t[2], tuple) and t[2] and t[2][0] == "field" and field_path(t[2]) is not None:
            t = t[2]  # a local that continues a field moved out of self (see field_path)
        else:
            break
    if not mutable:
        return None
    if t[0] == "var":
        return ("var", t[1], ".".join(reversed(fields)))
    if t[0] == "arg":
        return ("arg", t[1], ".".join(reversed(fields)))
    return None


def _call_may_hold_borrow(body, a):
    """Can the result of this call hold a reference?  (its type mentions a reference or a lifetime)"""
    if body is None:
        return True
    t = body.term(a[3])
    if t["t"] != "call":
        return True
    ty = body.locals[t["dest"]["l"]]["ty"] if not t["dest"]["proj"] else "&mut"
    # a mutable borrow can hide in `&mut T` or behind a lifetime *parameter* of an ADT (Entry<'_, K>);
    # a plain shared reference (&'a str) cannot carry one.
    import re
    return "&mut" in ty or re.search(r"[<,]\s*'", ty) is not None


def contains_mut_target(a, body=None, depth=0):
    """A value that *holds* a mutable borrow (e.g. an entry object returned by a call that took &mut x)."""
    if depth > 12 or not isinstance(a, tuple):
        return None
    if a[0] == "call" and not _call_may_hold_borrow(body, a):
        return None
    if a[0] == "ref" and a[1]:
        t = mut_target(a)
        if t is not None:
            return t
    if a[0] in ("call",):
        for x in a[2]:
            t = mut_target(x) or contains_mut_target(x, body, depth + 1)
            if t is not None:
                return t
        return None
    if a[0] in ("field", "downcast", "deref", "discr"):
        return contains_mut_target(a[1], body, depth + 1)
    if a[0] in ("ref", "cast", "var"):
        return contains_mut_target(a[2], body, depth + 1)
    if a[0] in ("agg", "closure"):
        for x in a[2]:
            t = mut_target(x) or contains_mut_target(x, body, depth + 1)
            if t is not None:
                return t
    if a[0] == "phi":
        for x in a[1]:
            t = contains_mut_target(x, body, depth + 1)
            if t is not None:
                return t
    return None


def loop_of_next(body):
    """loops whose header (or a block in the loop dominating all others) calls Iterator::next: {header: (bb_next, iter term)}"""
    out = {}
    for h, blk in body.loops().items():
        for b in sorted(blk):
            t = body.term(b)
            if t["t"] == "call" and "path" in t["callee"]:
                p = callee_name(t["callee"])
                if t["callee"].get("item") == "next" or p.endswith("::next"):
                    if all(body.dominates(b, x) or x == b or body.dominates(x, b) and x == h for x in blk):
                        out[h] = (b, norm(body.resolve_operand(t["args"][0])), p)
                        break
    return out


# ====================================================================== canonical atoms
EMPTY_PREDS = (STR + "is_empty", "smartstring::SmartString::<Mode>::is_empty", "std::string::String::is_empty")
STR_CONTAINS = STR + "contains"
SLICE_CONTAINS = "core::slice::<impl [T]>::contains"


def const_strs(t):
    """list of strings of a constant [&str; N] / &[&str] term, else None"""
    t = strip(t) if t[0] in ("ref", "deref", "cast", "call") else t
    if t[0] == "cast":
        t = strip(t[2])
    v = None
    if t[0] == "named":
        v = t[3]
    elif t[0] == "const":
        v = t[1]
    if isinstance(v, tuple) and v and v[0] in ("array", "slice") and all(isinstance(x, str) for x in v[1]):
        return list(v[1])
    return None


def const_chars_t(t):
    return boolsum.const_chars(t)


CONTEXT = {"facts": None, "summ": None}   # the program the atoms come from (set by the runner), for predicates that are closures


def set_context(facts):
    if CONTEXT["facts"] is not facts:
        CONTEXT["facts"] = facts
        CONTEXT["summ"] = None


def _only_char(pred_key, quant, pos):
    """`x.chars()/bytes().all(|c| c == K)` (or `!any(|c| c != K)`): x consists of K only == x.trim_matches(K).is_empty().
    Returns K when the predicate (a closure / fn of the analysed program) has exactly that meaning, else None."""
    facts = CONTEXT["facts"]
    if facts is None:
        return None
    key = pred_key[1] if isinstance(pred_key, tuple) and pred_key[0] == "bytes" else pred_key
    if key not in facts.bodies:
        return None
    try:
        if CONTEXT["summ"] is None:
            CONTEXT["summ"] = boolsum.Summarizer(facts)
        cs = boolsum.charset(boolsum.pred_formula(facts, CONTEXT["summ"], pred_key), facts)
    except AnchorError:
        return None
    if quant == "any":
        cs = boolsum.universe() & ~cs
        pos = not pos
    if cs and cs & (cs - 1) == 0 and cs.bit_length() - 1 < 128:
        return chr(cs.bit_length() - 1), pos
    return None


def _any_of_few(pred_key):
    """`x.chars()/bytes().any(P)` with P true for a handful of ASCII chars only  ==  x.contains([those chars])"""
    facts = CONTEXT["facts"]
    if facts is None:
        return None
    key = pred_key[1] if isinstance(pred_key, tuple) and pred_key[0] == "bytes" else pred_key
    if key not in facts.bodies:
        return None
    try:
        if CONTEXT["summ"] is None:
            CONTEXT["summ"] = boolsum.Summarizer(facts)
        cs = boolsum.charset(boolsum.pred_formula(facts, CONTEXT["summ"], pred_key), facts)
    except AnchorError:
        return None
    if cs and cs < (1 << 128) and bin(cs).count("1") <= 8:
        return tuple(i for i in range(128) if cs >> i & 1)
    return None


def canon_atom(a):
    """Canonical, region-based description of a guard atom (see DESIGN 2.2 item 3)."""
    c = _canon_atom(a)
    if c[0] in ("all", "any") and len(c) == 4:
        oc = _only_char(c[2], c[0], c[3])
        if oc is not None:
            return ("empty", ("Trim", oc[0], c[1]), oc[1])
        if c[0] == "any":
            few = _any_of_few(c[2])
            if few is not None and len(few) > 1:
                return ("contains-any", few, c[1], c[3])
            if few is not None and len(few) == 1:
                return ("contains", chr(few[0]), c[1], c[3])
    return c


def _canon_atom(a):
    k = a[0]
    if k == "is":
        x, v = a[1], a[2]
        if x[0] == "call" and x[1] == "std::option::Option::<T>::ok_or":
            x = x[2][0]
            v = {"Ok?": "Some", "Err?": "None", "Ok": "Some", "Err": "None"}.get(v, v)
        if x[0] == "call" and x[1] == STR + "strip_prefix":
            return ("prefix", cstr(x[2][1]), _region(x[2][0]), v == "Some")
        sc = _split_call(x)
        if sc is not None:
            return ("found", sc[0] + "Split", sc[1], _region(sc[2]), v == "Some")
        if x[0] == "call" and x[1] in (STR + "find", STR + "rfind") and len(x[2]) == 2 and cchar(x[2][1]) is None and const_chars_t(x[2][1]) is not None and v in ("Some", "None"):
            # s.find(&[c1, c2, ..][..]) is Some  ==  s.contains(&[c1, c2, ..][..])
            return ("contains-any", tuple(const_chars_t(x[2][1])), _value(x[2][0]), v == "Some")
        fc = _find_call(("some", x))
        if fc is not None and v in ("Some", "None"):
            return ("found", fc[0] + "Split", fc[1], _region(fc[2]), v == "Some")
        if x[0] == "call" and x[1].endswith("::next"):
            return ("next", _region(("some", x)), v == "Some")
        if x[0] == "call":
            return ("callres", x[1], tuple(_region(y) for y in x[2]), v)
        return ("is", nshow(x), v)
    if k == "isin":
        return ("isin", nshow(a[1]), tuple(a[2]))
    if k == "pred":
        p, args, pos = a[1], a[2], a[3]
        if p in EMPTY_PREDS:
            return ("empty", _value(args[0]), pos)
        if p == STR_CONTAINS and cchar(args[1]) is not None:
            return ("contains", cchar(args[1]), _value(args[0]), pos)
        if p == STR_CONTAINS and const_chars_t(args[1]) is not None:
            return ("contains-any", tuple(const_chars_t(args[1])), _value(args[0]), pos)
        if p == SLICE_CONTAINS and const_strs(args[0]) is not None:
            return ("inlist", tuple(const_strs(args[0])), _value(args[1]), pos)
        if p == SLICE_CONTAINS and len(args) == 2 and args[0][0] == "call" and args[0][1] == STR + "as_bytes":
            # s.as_bytes().contains(&b'c') for an ASCII c  ==  s.contains('c')   (an ASCII byte never occurs inside a
            # multi-byte UTF-8 sequence)
            bv = strip(args[1])
            bv = bv[3] if bv[0] == "named" else bv[1] if bv[0] == "const" else None
            if isinstance(bv, int) and not isinstance(bv, bool) and 0 <= bv < 128:
                return ("contains", chr(bv), _value(args[0][2][0]), pos)
        if (p.endswith("<impl std::cmp::PartialEq for str>::eq") or p.endswith("<impl std::cmp::PartialEq for str>::ne")
                or p in ("std::cmp::impls::<impl std::cmp::PartialEq<&B> for &A>::eq", "std::cmp::impls::<impl std::cmp::PartialEq<&B> for &A>::ne")
                or ("std::cmp::PartialEq<" in p and (p.endswith("::eq") or p.endswith("::ne")) and any(w in p for w in ("str>", "&str", "std::string::String", "std::borrow::Cow<", "SmartString")))) and len(args) == 2:
            eqpos = pos if p.endswith("::eq") else (not pos)
            for x, y in ((args[0], args[1]), (args[1], args[0])):
                y = strip(y)
                if y[0] == "named" and isinstance(y[3], str):
                    y = ("const", y[3])
                if y[0] == "const" and isinstance(y[1], str):
                    # (&A == &B delegates to A == B; only taken as a str comparison when the other side is a str constant)
                    if y[1] == "":
                        return ("empty", _value(strip(x)), eqpos)
                    return ("inlist", (y[1],), _value(strip(x)), eqpos)
        if p in ("<std::str::Bytes<'_> as std::iter::Iterator>::all", "<std::str::Bytes<'_> as std::iter::Iterator>::any") and len(args) == 2 and args[1][0] in ("closure", "fn"):
            it = args[0]
            while it[0] == "var" and len(it) > 2:
                it = it[2]
            if it[0] == "call" and it[1] == STR + "bytes":
                return (p.split("::")[-1], _value(it[2][0]), ("bytes", args[1][1]), pos)
        if p in ("std::iter::Iterator::all", "std::iter::Iterator::any") and len(args) == 2 and args[1][0] in ("closure", "fn"):
            it = args[0]
            for _ in range(4):
                if it[0] == "var" and len(it) > 2:
                    it = it[2]
                elif it[0] == "call" and it[1].endswith("::into_iter") and len(it[2]) == 1 and it[2][0][0] in ("call", "var"):
                    it = it[2][0]   # `for x in it` reads IntoIterator::into_iter(it), the identity on iterators
                else:
                    break
            if it[0] == "call" and it[1] == STR + "chars":
                return (p.split("::")[-1], _value(it[2][0]), args[1][1], pos)
            # x.split(c).all(str::is_empty): x consists of separators only  ==  x.trim_matches(c).is_empty()
            if p.endswith("::all") and it[0] == "call" and it[1] == STR + "split" and cchar(it[2][1]) is not None and args[1] == ("fn", STR + "is_empty"):
                return ("empty", ("Trim", cchar(it[2][1]), _value(it[2][0])), pos)
        return ("pred", p, tuple(_value(y) for y in args), pos)
    if k == "cmp":
        # x.len() == 0  /  x.len() != 0   is an emptiness test
        if a[1] in ("Eq", "Ne"):
            for x, y in ((a[2], a[3]), (a[3], a[2])):
                if y == ("const", 0) and x[0] == "call" and x[1].split("::")[-1] == "len" and len(x[2]) == 1:
                    return ("empty", _value(x[2][0]), a[4] if a[1] == "Eq" else not a[4])
        return ("cmp", a[1], _value(a[2]), _value(a[3]), a[4])
    return ("other", show_atom(a))


def _value(n):
    """region if the term is a region, else a var identity or a shown term"""
    if n[0] == "named" and len(n) > 3 and isinstance(n[3], (int, bool)):
        return ("const", n[3])     # a named scalar constant is its evaluated value (`const FIRST: usize = 0; i == FIRST`)
    r = _region(n)
    if region_ok(r):
        return r
    if n[0] == "var":
        return ("Var", n[1])
    if n[0] == "field":
        fp = field_path(n)
        if fp is not None:
            return ("Field", "arg1." + fp)
        return ("Field", nshow(n))
    return r


def show_canon(c):
    def sv(v):
        if isinstance(v, tuple) and v and v[0] in ("Input", "StripPrefix", "TrimStart", "Trim", "TrimEnd", "RSplitL", "RSplitR", "SplitL", "SplitR", "RSplitLOpt", "RSplitROpt", "SplitLOpt", "SplitROpt", "Item", "Decode", "?", "Phi"):
            return show_region(v)
        return str(v)
    return "%s(%s)" % (c[0], ", ".join(sv(x) for x in c[1:]))


def body_summary(facts, key):
    """Generic per-body summary used by the loop rules: effects on mutable locals, returns, loops -- all with canonical atoms."""
    body = facts.body(key)
    eff = mut_effects(body)
    for e in eff:
        e["gatoms"] = [(gb, canon_atom(a)) for gb, a in atoms_at(body, e["bb"])]
        e["catoms"] = [c for _, c in e["gatoms"]]
    rets = []
    for (b, n) in returns(body):
        ga = [(gb, canon_atom(a)) for gb, a in atoms_at(body, b)]
        rets.append({"bb": b, "site": body.site(b), "cls": classify_return(n), "gatoms": ga, "catoms": [c for _, c in ga]})
    return {"key": key, "body": body, "effects": eff, "returns": rets, "loops": loop_of_next(body)}


# ====================================================================== rejection lists
def edge_triggers(body, bb, depth=0):
    """Canonical atoms of the edges entering block bb (looking through trivial goto blocks)."""
    out = []
    preds = body.preds()
    for p in preds[bb]:
        if body.is_cleanup(p):
            continue
        eg = body.edge_guards(p, bb)
        if eg is not None and is_dropflag_cond(eg[0]):
            out.extend(edge_triggers(body, p, depth + 1) if depth < 4 else [])
        elif eg is not None:
            out.append((p, canon_atom(atom_of(eg[0], eg[1]))))
        else:
            t = body.term(p)
            if t["t"] == "goto" and _only_copies(body, p) and depth < 6:
                out.extend(edge_triggers(body, p, depth + 1))
            elif t["t"] in ("call", "drop") and depth < 4 and not _defines_anything_relevant(body, p):
                out.extend(edge_triggers(body, p, depth + 1))
            else:
                out.append((p, ("fallthrough",)))
    return out


def _only_copies(body, p):
    """a block that only moves values / stores constants (no computation): transparent for 'which test led here'"""
    # MIR statements compute and move values but call nothing and decide nothing: a goto-terminated block is transparent
    # for the question "which test led here" whatever it stores
    return True


def _defines_anything_relevant(body, p):
    t = body.term(p)
    if t["t"] == "drop":
        return False
    if t["t"] == "call":
        # conversions of the error value (Into::into / From::from) are transparent
        pth = callee_name(t["callee"]) if "path" in t["callee"] else ""
        raw = t["callee"].get("path", "")
        return not (pth.endswith("::into") or pth.endswith("::from") or raw in ("std::ops::Try::branch", "std::ops::FromResidual::from_residual"))
    return True


def is_assertion_guard(body, gb):
    """the branch in block gb has a side from which the function cannot return (it panics: `assert!`, `debug_assert!`,
    `unreachable!`): its condition does not decide between results, it is an assertion (C06 judges whether it can fail)"""
    cache = body.__dict__.setdefault("_assert_guard", {})
    if gb in cache:
        return cache[gb]
    res = False
    if isinstance(gb, int) and 0 <= gb < len(body.blocks) and body.term(gb)["t"] == "switch":
        rets = set(b for b in range(len(body.blocks)) if not body.is_cleanup(b) and body.term(b)["t"] == "return")
        for s_ in set(body.succs(gb)):
            if body.is_cleanup(s_):
                continue
            reach = body.reachable_from(s_)
            panics = any(body.term(x)["t"] == "call" and body.term(x).get("target") is None for x in reach if not body.is_cleanup(x))
            if not (reach & rets) and panics:     # (the `unreachable` arm of an exhaustive enum match is not a panic)
                res = True
    cache[gb] = res
    return res


def rejections(facts, key):
    """Every way the body `key` can return an error / None:
    [{kind: 'err'|'propagate'|'none', error, callee, args(region), triggers, catoms, site, bb}]"""
    body = facts.body(key)
    rows = []
    for (b, n) in returns(body):
        cls = classify_return(n)
        ga = [(gb, canon_atom(a)) for gb, a in atoms_at(body, b)]
        row = {"bb": b, "site": body.site(b), "catoms": [c for _, c in ga], "gatoms": ga, "fn": key}
        row["assert_atoms"] = set(c for gb, c in ga if is_assertion_guard(body, gb))
        k, v = cls
        if k == "err" and v[0] == "err" and v[1][0] == "call":
            # `match f(x) { Ok(v) => .., Err(e) => return Err(e) }`: the error of f(x) handed on unchanged -- what `f(x)?` does
            # when no conversion is involved
            c = v[1]
            row.update(kind="propagate", callee=c[1], args=tuple(_value(y) for y in c[2]), callterm=c, via="match-err")
            rows.append(row)
        elif k == "err":
            row.update(kind="err", error=error_const(v), errterm=v, triggers=[c for _, c in edge_triggers(body, b)])
            rows.append(row)
        elif k == "propagate":
            c = v
            if c[0] == "call" and c[1] == "std::option::Option::<T>::ok_or":
                inner, e = c[2]
                trig = canon_atom(("is", inner, "None"))
                row.update(kind="err", error=error_const(e), errterm=e, triggers=[trig], via="ok_or")
            elif c[0] == "call" and c[1] == "std::result::Result::<T, E>::map_err":
                row.update(kind="propagate", callee="map_err", args=tuple(_value(y) for y in c[2]), callterm=c)
            elif c[0] == "call":
                row.update(kind="propagate", callee=c[1], args=tuple(_value(y) for y in c[2]), callterm=c)
            else:
                row.update(kind="propagate", callee="?", args=(), callterm=c)
            rows.append(row)
        elif k == "none":
            row.update(kind="none", error="None", triggers=[c for _, c in edge_triggers(body, b)])
            rows.append(row)
        elif k == "tail":
            row.update(kind="tail", callee=v[1], args=tuple(_value(y) for y in v[2]), callterm=v)
            rows.append(row)
        elif k in ("ok", "some"):
            row.update(kind=k, payload=v)
            rows.append(row)
        else:
            row.update(kind="other", term=v)
            rows.append(row)
    return rows


# ====================================================================== BM -- builder model
def builder_model(facts):
    key = build_fn(facts)
    body = facts.body(key)
    bm = {"key": key, "body": body}
    eff = mut_effects(body)
    for e in eff:
        e["gatoms"] = [(gb, canon_atom(a)) for gb, a in atoms_at(body, e["bb"])]
        e["catoms"] = [c for _, c in e["gatoms"]]
    bm["effects"] = eff
    bm["rejections"] = rejections(facts, key)
    bm["calls"] = []
    for bb, t in body.calls():
        path = callee_name(t["callee"])
        bm["calls"].append({"bb": bb, "path": path, "raw_path": t["callee"].get("path"), "args": [norm(body.resolve_operand(a)) for a in t["args"]], "site": body.site(bb), "callee": t["callee"]})
    # stages
    st = {}
    fin = [c for c in bm["calls"] if c["raw_path"] == "PurlShape::finish"]
    st["S1"] = fin
    name_err = [r for r in bm["rejections"] if r["kind"] == "err" and any(t[0] == "empty" for t in r.get("triggers", []))]
    st["S2"] = name_err
    st["S3"] = [e for e in eff if e["path"].endswith("::retain") or e["path"].endswith("::retain_mut")]
    st["S4get"] = [c for c in bm["calls"] if c["path"].endswith("::try_get_typed") or c["path"].endswith("::get_typed")]
    st["S4ser"] = [c for c in bm["calls"] if facts.fns.get(c["path"], {}).get("impl_trait_def") == "std::convert::TryFrom" and "Checksum<" in facts.fns.get(c["path"], {}).get("impl_trait", "")]
    st["S4ins"] = [e for e in eff if e["path"] == "qualifiers::Qualifiers::insert"]
    st["S5"] = [r for r in bm["rejections"] if r["kind"] == "ok"]
    bm["stages"] = st
    return bm


def aggregates_of(facts, adt_path):
    """All MIR aggregate constructions of the ADT: [(body key, bb, line)]"""
    out = []
    for k, b in facts.bodies.items():
        for bi, bl in enumerate(b.blocks):
            for st in bl["stmts"]:
                if st["s"] == "assign" and st["rv"]["r"] == "aggregate" and st["rv"].get("ak") == "adt" and st["rv"]["path"] == adt_path:
                    out.append((k, bi, st.get("line")))
    return out
