"""purlsa.models -- models extracted from the analysed crate (DESIGN.md section 4).

FM  formatter model  (Display for GenericPurl)
Every model is re-extracted from the facts of the current tree; anchors are found
by trait identity / public API name, helpers by role through dataflow.
"""
from .core import AnchorError, callee_name, strip, show, simplify_val
from .sem import norm, nshow, atom_of, atoms_at, fmt_pieces, show_atom
from . import boolsum

ENCODE = "percent_encoding::utf8_percent_encode"
WRITE_FMT = ("std::fmt::Formatter::<'a>::write_fmt",)
WRITE_STR = ("std::fmt::Formatter::<'a>::write_str",)
WRITE_CHAR = ("std::fmt::Formatter::<'a>::write_char",)


def display_fn(facts):
    ks = [k for k in facts.find_fns(impl_trait_def="std::fmt::Display", name="fmt") if facts.fns[k].get("impl_self", "").startswith("GenericPurl<")]
    if len(ks) != 1:
        raise AnchorError("expected exactly one `impl Display for GenericPurl<_>`, found %d" % len(ks))
    return ks[0]


def from_str_fn(facts):
    ks = [k for k in facts.find_fns(impl_trait_def="std::str::FromStr", name="from_str") if facts.fns[k].get("impl_self", "").startswith("GenericPurl<")]
    if len(ks) != 1:
        raise AnchorError("expected exactly one `impl FromStr for GenericPurl<_>`, found %d" % len(ks))
    return ks[0]


def build_fn(facts):
    ks = [k for k in facts.find_fns(name="build") if facts.fns[k].get("impl_self", "").startswith("builder::GenericPurlBuilder<") and "impl_trait" not in facts.fns[k]]
    if len(ks) != 1:
        raise AnchorError("expected exactly one GenericPurlBuilder::build, found %d" % len(ks))
    return ks[0]


def asciiset_bits(v):
    """Decode an evaluated percent_encoding::AsciiSet value into a 128-bit int."""
    if isinstance(v, tuple) and v and v[0] == "struct" and v[1] == "percent_encoding::AsciiSet":
        fields = dict(v[2])
        m = fields.get("mask")
        if isinstance(m, tuple) and m[0] == "array" and len(m[1]) == 4 and all(isinstance(x, int) and 0 <= x < (1 << 32) for x in m[1]):
            bits = 0
            for i, w in enumerate(m[1]):
                bits |= w << (32 * i)
            return bits
    raise AnchorError("AsciiSet layout not understood (expected struct AsciiSet { mask: [u32; 4] }): %r" % (v,))


def set_of_term(t):
    """(name, bits) of the AsciiSet operand of utf8_percent_encode."""
    t = strip(t)
    if t[0] == "named":
        return (t[1], asciiset_bits(t[3]))
    if t[0] == "const":
        return ("<anonymous>", asciiset_bits(t[1]))
    raise AnchorError("escape set operand is not a constant: %s" % show(t))


def classify_component(facts, body, t):
    """Which PURL component does the text term `t` (inside Display::fmt) denote?"""
    n = norm(t)
    # accessor returning Option: some(call GenericPurl::<T>::namespace(arg1))
    if n[0] == "some" and n[1][0] == "call" and n[1][2] == (("arg", 1),):
        return ("accessor", n[1][1], "some")
    if n[0] == "call" and n[2] == (("arg", 1),) and n[1] in facts.bodies:
        return ("accessor", n[1], "plain")
    # loop element of the qualifiers iteration: (some(next(var iter))).0 / .1
    if n[0] == "field" and n[1][0] == "some":
        nx = n[1][1]
        if nx[0] == "call" and "Iterator" in nx[1] and nx[1].endswith("::next"):
            it = nx[2][0]
            src = it[2] if it[0] == "var" else it
            return ("loopitem", n[2], src, nx[1])
    if n[0] == "field":
        return ("field", n)
    return ("unknown", n)


def formatter_model(facts):
    key = display_fn(facts)
    body = facts.body(key)
    emits = []
    other_uses = []
    for bb, t in body.calls():
        path = callee_name(t["callee"])
        args = [body.resolve_operand(a) for a in t["args"]]
        uses_f = any(strip(a) == ("arg", 2) for a in args)
        if not uses_f:
            continue
        if path in WRITE_FMT:
            pieces = fmt_pieces(args[1])
            if pieces is None:
                raise AnchorError("write_fmt with a format_args shape that is not understood", key)
            emits.append((bb, pieces))
        elif path in WRITE_STR:
            s0 = strip(args[1])
            if s0[0] == "const" and isinstance(s0[1], str):
                emits.append((bb, [("lit", s0[1])]))
            else:
                emits.append((bb, [("display", args[1])]))
        elif path in WRITE_CHAR:
            c0 = strip(args[1])
            if c0[0] == "const" and isinstance(c0[1], tuple) and c0[1][0] == "char":
                emits.append((bb, [("lit", chr(c0[1][1]))]))
            else:
                emits.append((bb, [("display", args[1])]))
        else:
            other_uses.append((bb, path))
    if other_uses:
        raise AnchorError("the formatter is passed to a call this model does not interpret: %s" % ", ".join(p for _, p in other_uses), key)
    # order sites: a before b if b is reachable from a and not vice versa; sites in the same loop keep block order by dominance
    def before(a, b):
        ra = body.reachable_from(a)
        rb = body.reachable_from(b)
        if b in ra and a not in rb:
            return True
        if b in ra and a in rb:
            return body.dominates(a, b) and a != b
        return False

    sites = [bb for bb, _ in emits]
    ordered = []
    remaining = list(emits)
    while remaining:
        progressed = False
        for e in remaining:
            if not any(before(o[0], e[0]) for o in remaining if o is not e):
                ordered.append(e)
                remaining.remove(e)
                progressed = True
                break
        if not progressed:
            raise AnchorError("cannot order the emission sites of Display::fmt", key)
    loops = body.loops()
    model = []
    for bb, pieces in ordered:
        atoms = [a for _, a in atoms_at(body, bb)]
        loop = None
        for h, blk in loops.items():
            if bb in blk:
                loop = h
        items = []
        for p in pieces:
            if p[0] == "lit":
                items.append(("lit", p[1]))
                continue
            if p[0] == "debug":
                items.append(("debug", nshow(norm(p[1]))))
                continue
            n = norm(p[1])
            if n[0] == "call" and n[1] == ENCODE:
                comp = classify_component(facts, body, p[1] if False else body_arg(n, 0))
                sname, sbits = set_of_term(orig_arg(p[1], 1))
                items.append(("enc", comp, sname, sbits))
            elif n[0] == "call" and n[1] == "PurlShape::package_type":
                inner = n[2][0]
                if inner[0] == "call" and inner[2] == (("arg", 1),):
                    items.append(("type", inner[1]))
                else:
                    items.append(("raw", ("unknown", n)))
            elif n[0] == "phi" and all(x[0] == "const" and isinstance(x[1], tuple) and x[1][0] == "char" for x in n[1]):
                items.append(("prefix", prefix_roles(body, p[1], loop)))
            elif n[0] == "const" and isinstance(n[1], tuple) and n[1][0] == "char":
                items.append(("lit", chr(n[1][1])))
            elif n[0] == "const" and isinstance(n[1], str):
                items.append(("lit", n[1]))
            else:
                items.append(("raw", classify_component(facts, body, p[1])))
        model.append({"bb": bb, "site": body.site(bb), "atoms": atoms, "loop": loop, "items": items})
    return {"key": key, "body": body, "emits": model}


def body_arg(ncall, i):
    return ncall[2][i]


def orig_arg(t, i):
    """i-th argument of the (un-normalised) call term under references."""
    c = strip(t)
    if c[0] != "call":
        raise AnchorError("expected a call term")
    return c[2][i]


def prefix_roles(body, t, loop_header):
    """For a loop-carried char variable: (entry char, back-edge char)."""
    s_ = strip(t)
    # find the local behind the phi: search defs of locals whose resolve gives this phi
    entry = None
    back = None
    loops = body.loops()
    blk = loops.get(loop_header, set()) if loop_header is not None else set()
    for local, ds in body.defs().items():
        vals = []
        for (b, i, kind, payload) in ds:
            if kind != "rv":
                vals = None
                break
            rt = strip(body._rv_term(payload))
            if rt[0] == "const" and isinstance(rt[1], tuple) and rt[1][0] == "char":
                vals.append((b, rt[1][1]))
            else:
                vals = None
                break
        if not vals or len(vals) < 2:
            continue
        if strip(body.resolve_local(local)) != s_:
            continue
        for b, c in vals:
            if b in blk:
                back = c if back is None else ("multi", back, c)
            else:
                entry = c if entry is None else ("multi", entry, c)
    return (entry, back)


# ---------------------------------------------------------------- accessor summaries
def accessor_summary(facts, key, summ=None):
    """Summarise a GenericPurl accessor as (field path, filter formula or None)."""
    summ = summ or boolsum.Summarizer(facts)
    body = facts.body(key)
    if body.back_edges():
        raise AnchorError("accessor has a loop", key)
    rets = body.exits()
    if len(rets) != 1:
        raise AnchorError("accessor with %d return blocks" % len(rets), key)
    t = norm(body.resolve_local(0))
    if t[0] == "call" and t[1] == "std::option::Option::<T>::filter":
        src, clo = t[2]
        if src[0] == "agg" and src[1][0] == "adt" and src[1][2] == "Some" and clo[0] == "closure":
            f = summ.summary(clo[1])
            return {"field": src[2][0], "filter": f, "kind": "some-filter"}
    if t[0] == "field":
        return {"field": t, "filter": None, "kind": "plain"}
    return {"field": None, "filter": None, "kind": "unknown", "term": t}


def field_path(t):
    """("field", ("field", ("arg",1), "parts"), "name") -> "parts.name" ; None if not rooted at arg1"""
    names = []
    while t[0] == "field":
        names.append(t[2])
        t = t[1]
    if t == ("arg", 1):
        return ".".join(reversed(names))
    return None
