"""purlsa.roll -- `for x in it { acc.push(x) }`  ==  `acc.extend(it)`  (a CFG normalisation, DESIGN.md 14).

An inner loop that only moves the items of an iterator into an accumulator is what `Extend::extend` does by definition
(rust-src alloc/src/string.rs `impl Extend<char> for String`: `iterator.for_each(move |c| self.push(c))`, Vec and
SmartString alike).  Rewriting it as the call keeps semantics and spares every loop analysis a nested cycle.

Recognised shape (all of it, nothing else inside the loop):
    header:  r = &mut iter;  n = Iterator::next(move r)            -> test
    test:    d = discr(n);   switch d { 0 => exit, 1 => body }
    body:    x = move (n as Some).0;  a = &mut ACC;  _ = push(move a, move x)   -> (gotos) -> header
where push is String::push / SmartString::push / Vec::push / push_str of the payload.  The loop is replaced by
    header:  a = &mut ACC;  _ = Extend::extend(move a, move iter)   -> exit
"""
import copy

PUSHES = ("std::string::String::push", "smartstring::SmartString::<Mode>::push", "std::vec::Vec::<T, A>::push", "std::vec::Vec::<T>::push")


def _some_none(tt):
    """{0: None target, 1: Some target} of a switch on an Option discriminant, whichever of the two is spelled `otherwise`
    (`for` desugars to arms for both and an unreachable otherwise, `while let` to one arm and otherwise)"""
    arms = dict((v, tg) for (v, tg) in tt["arms"])
    if 0 in arms and 1 in arms:
        return {0: arms[0], 1: arms[1]}
    if 1 in arms and len(arms) == 1:
        return {0: tt["otherwise"], 1: arms[1]}
    if 0 in arms and len(arms) == 1:
        return {0: arms[0], 1: tt["otherwise"]}
    return None


def _callee(t):
    ce = t.get("callee", {})
    r = ce.get("resolved")
    return (r or {}).get("path") or ce.get("path")


def roll_push_loops(body):
    """Rewrite body.blocks (private copy).  Returns the number of loops rolled."""
    blocks = body.blocks
    n = 0
    for h, blk in sorted(body.loops().items()):
        th = blocks[h]["term"]
        if th["t"] != "call" or not (th["callee"].get("item") == "next" or (_callee(th) or "").endswith("::next")) or len(th["args"]) != 1:
            continue
        nloc = th["dest"]["l"] if not th["dest"]["proj"] else None
        if nloc is None or th.get("target") not in blk:
            continue
        # the iterator local: header has `r = &mut iter` and next(move r)
        rl = th["args"][0]["place"]["l"] if th["args"][0]["o"] in ("copy", "move") and not th["args"][0]["place"]["proj"] else None
        iter_local = None
        refs = {}
        for st in blocks[h]["stmts"]:
            if st.get("s") == "assign" and not st["place"]["proj"] and st["rv"]["r"] == "ref" and st["rv"]["bk"] == "mut":
                refs[st["place"]["l"]] = st["rv"]["place"]
        cur_l = rl
        for _ in range(3):   # r = &mut *q; q = &mut iter
            pl = refs.get(cur_l)
            if pl is None:
                break
            if not pl["proj"]:
                iter_local = pl["l"]
                break
            if [p_.get("p") for p_ in pl["proj"]] == ["deref"]:
                cur_l = pl["l"]
            else:
                break
        if iter_local is None:
            continue
        test = th["target"]
        tt = blocks[test]["term"]
        if tt["t"] != "switch":
            continue
        arms = _some_none(tt)
        if arms is None or arms[0] in blk or arms[1] not in blk:
            continue
        exit_bb, bb = arms[0], arms[1]
        # walk the body: exactly one call (the push), then gotos back to the header
        calls = []
        others = 0
        cur = bb
        seen = set()
        ref_stmt = None
        payload_locals = set()
        ok = True
        while cur != h:
            if cur in seen or cur not in blk:
                ok = False
                break
            seen.add(cur)
            for st in blocks[cur]["stmts"]:
                if st.get("s") != "assign":
                    continue
                rv = st["rv"]
                if rv["r"] == "use" and rv["op"]["o"] == "const":
                    continue  # unit values of statement expressions
                if rv["r"] == "use" and rv["op"]["o"] in ("copy", "move"):
                    pl = rv["op"]["place"]
                    if pl["l"] == nloc and [p.get("p") for p in pl["proj"]] == ["downcast", "field"]:
                        payload_locals.add(st["place"]["l"])
                    elif not pl["proj"] and pl["l"] in payload_locals:
                        payload_locals.add(st["place"]["l"])
                    else:
                        others += 1
                elif rv["r"] == "ref" and rv["bk"] == "mut":
                    ref_stmt = st
                elif rv["r"] == "discr" and rv["place"]["l"] == nloc:
                    continue   # a dead re-read of the item's discriminant (drop elaboration)
                else:
                    others += 1
            t = blocks[cur]["term"]
            if t["t"] == "call":
                calls.append((cur, t))
                cur = t.get("target")
            elif t["t"] == "goto":
                cur = t["target"]
            elif t["t"] == "drop":
                cur = t["target"]
            else:
                ok = False
                break
            if cur is None:
                ok = False
                break
        if not ok or len(calls) != 1 or others or ref_stmt is None:
            continue
        cb, ct = calls[0]
        if _callee(ct) not in PUSHES or len(ct["args"]) != 2:
            continue
        a0, a1 = ct["args"]
        if not (a0["o"] == "move" and not a0["place"]["proj"] and a0["place"]["l"] == ref_stmt["place"]["l"]):
            continue
        if not (a1["o"] in ("move", "copy") and not a1["place"]["proj"] and a1["place"]["l"] in payload_locals):
            continue
        # the whole loop is {header, test, body chain}
        if set(blk) - ({h, test} | seen):
            continue
        # rewrite
        newh = blocks[h]
        newh["stmts"] = [copy.deepcopy(ref_stmt)]
        newh["term"] = {
            "t": "call",
            "callee": {"path": "std::iter::Extend::extend", "full": "std::iter::Extend::extend", "args": [], "local": False, "resolved": None, "trait": "std::iter::Extend", "item": "extend", "rolled_from": _callee(ct)},
            "args": [{"o": "move", "place": copy.deepcopy(ref_stmt["place"])}, {"o": "move", "place": {"l": iter_local, "proj": [], "s": "_%d" % iter_local}}],
            "dest": copy.deepcopy(ct["dest"]),
            "target": exit_bb,
            "unwind": ct.get("unwind", "continue"),
            "rolled": True,
        }
        for b in ({test} | seen):
            blocks[b]["stmts"] = []
            blocks[b]["term"] = {"t": "unreachable"}
            blocks[b]["dead"] = True
        n += 1
    return n


# ------------------------------------------------------------------------------------------------------------------
def _places(x):
    """all place dicts inside a statement / terminator fragment"""
    if isinstance(x, dict):
        if "l" in x and "proj" in x:
            yield x
            for p_ in x["proj"]:
                for y in _places(p_):
                    yield y
            return
        for v in x.values():
            for y in _places(v):
                yield y
    elif isinstance(x, list):
        for v in x:
            for y in _places(v):
                yield y


def roll_map_push_loops(body, key, root):
    """`for x in it { acc.push(f(x)) }`  ==  `acc.extend(it.map(|x| f(x)))`     (inlined view only)

    f is a straight chain of calls on the item and on values computed from it, reading nothing else of the enclosing
    function; it becomes a synthetic closure body, so that the rules see the loop exactly as they see the adaptor
    spelling.  Rewrites body.blocks in place; returns [(closure key, closure body json)]."""
    blocks = body.blocks
    out = []
    for h, blk in sorted(body.loops().items()):
        th = blocks[h]["term"]
        if th["t"] != "call" or th["callee"].get("item") != "next" or len(th["args"]) != 1 or th["dest"]["proj"]:
            continue
        nloc = th["dest"]["l"]
        if th.get("target") not in blk:
            continue
        a0 = th["args"][0]
        if a0["o"] not in ("copy", "move") or a0["place"]["proj"]:
            continue
        refs = {}
        for st in blocks[h]["stmts"]:
            if st.get("s") == "assign" and not st["place"]["proj"] and st["rv"]["r"] == "ref" and st["rv"]["bk"] == "mut":
                refs[st["place"]["l"]] = st["rv"]["place"]
        cur_l = a0["place"]["l"]
        iter_local = None
        for _ in range(3):
            pl = refs.get(cur_l)
            if pl is None:
                break
            if not pl["proj"]:
                iter_local = pl["l"]
                break
            if [p_.get("p") for p_ in pl["proj"]] == ["deref"]:
                cur_l = pl["l"]
            else:
                break
        if iter_local is None:
            continue
        test = th["target"]
        tt = blocks[test]["term"]
        if tt["t"] != "switch":
            continue
        arms = _some_none(tt)
        if arms is None or arms[0] in blk or arms[1] not in blk:
            continue
        exit_bb, bb = arms[0], arms[1]
        # walk the body
        seq = []      # ("st", stmt) / ("call", term)
        seen = set()
        cur = bb
        ok = True
        while cur != h:
            if cur in seen or cur not in blk:
                ok = False
                break
            seen.add(cur)
            for st in blocks[cur]["stmts"]:
                if st.get("s") == "assign" and st["rv"]["r"] == "use" and not st["place"]["proj"] and body.locals[st["place"]["l"]]["ty"] == "()":
                    continue   # unit values of statement expressions (constants, or the push's own `()` handed on)
                if st.get("s") == "assign":
                    seq.append(("st", st))
                elif st.get("s") != "other":
                    ok = False
            t = blocks[cur]["term"]
            if t["t"] == "call":
                if t.get("target") is None or t["dest"]["proj"] or "path" not in t["callee"]:
                    ok = False
                    break
                seq.append(("call", t))
                cur = t["target"]
            elif t["t"] in ("goto", "drop"):
                cur = t["target"]
            else:
                ok = False
                break
        if not ok or set(blk) - ({h, test} | seen):
            continue
        calls = [x for x in seq if x[0] == "call"]
        if len(calls) < 2:
            continue   # the plain push loop is roll_push_loops' business
        push = calls[-1][1]
        if _callee(push) not in PUSHES or len(push["args"]) != 2 or seq[-1][0] != "call":
            continue
        pa0, pa1 = push["args"]
        if not (pa0["o"] == "move" and not pa0["place"]["proj"] and pa1["o"] in ("move", "copy") and not pa1["place"]["proj"]):
            continue
        # the statements that compute the accumulator reference (a backward slice from the push's receiver: `&mut v`, or
        # `&mut *(closure.0)` when the push sits in an inlined `for_each` closure) stay with the caller
        need = {pa0["place"]["l"]}
        acc_stmts = []
        for kind, x in reversed(seq[:-1]):
            if kind == "st" and not x["place"]["proj"] and x["place"]["l"] in need:
                acc_stmts.insert(0, x)
                for pl in _places([x["rv"]]):
                    need.add(pl["l"])
        if not acc_stmts or acc_stmts[-1]["place"]["l"] != pa0["place"]["l"] or acc_stmts[-1]["rv"]["r"] != "ref" or acc_stmts[-1]["rv"]["bk"] != "mut":
            continue
        if any(kind == "call" and x["dest"]["l"] in need for kind, x in seq[:-1]):
            continue   # the receiver depends on a call made in the loop body
        acc_ids = set(id(x) for x in acc_stmts)
        acc_ref = acc_stmts[-1]
        chain = [x for x in seq[:-1] if not (x[0] == "st" and id(x[1]) in acc_ids)]
        # locals of the chain: everything it assigns; it may read only those, the item, and constants
        defined = set()
        for kind, x in chain:
            pl = x["place"] if kind == "st" else x["dest"]
            if pl["proj"]:
                ok = False
            defined.add(pl["l"])
        if not ok or pa1["place"]["l"] not in defined:
            continue
        for x in acc_stmts:   # the receiver is the same in every iteration: nothing of it comes from the item or the chain
            for pl in _places([x["rv"]]):
                if pl["l"] in defined or pl["l"] == nloc:
                    ok = False
        if not ok:
            continue

        def item_place(pl):
            return pl["l"] == nloc and [p_.get("p") for p_ in pl["proj"][:2]] == ["downcast", "field"]
        for kind, x in chain:
            frag = [x["rv"]] if kind == "st" else [x["args"]]
            for pl in _places(frag):
                if pl["l"] in defined or item_place(pl):
                    continue
                ok = False
        # nothing the chain computes is used after the loop or in the header
        for b2, bl2 in enumerate(blocks):
            if b2 in seen or bl2["cleanup"]:
                continue
            for pl in _places([bl2["stmts"], bl2["term"]]):
                if pl["l"] in defined:
                    ok = False
        if not ok:
            continue
        # ---- the closure body
        lmap = {}
        clocals = [dict(body.locals[pa1["place"]["l"]]), {"ty": "&mut {rolled loop body}", "mut": True}, None]
        item_ty = None

        def remap(frag):
            nonlocal item_ty
            frag = copy.deepcopy(frag)
            for pl in _places(frag):
                if item_place(pl):
                    if item_ty is None:
                        item_ty = pl["proj"][1].get("ty")
                    pl["l"] = 2
                    pl["proj"] = pl["proj"][2:]
                elif pl["l"] in defined:
                    if pl["l"] not in lmap:
                        lmap[pl["l"]] = len(clocals)
                        clocals.append(dict(body.locals[pl["l"]]))
                    pl["l"] = lmap[pl["l"]]
                pl["s"] = "_%d" % pl["l"]
            return frag
        cblocks = [{"cleanup": False, "stmts": [], "term": None, "span": blocks[bb].get("span"), "file": blocks[bb].get("file")}]
        for kind, x in chain:
            if kind == "st":
                cblocks[-1]["stmts"].append(remap(x))
            else:
                t2 = remap(x)
                t2["target"] = len(cblocks)
                t2["unwind"] = "continue"
                cblocks[-1]["term"] = t2
                cblocks.append({"cleanup": False, "stmts": [], "term": None, "span": blocks[bb].get("span"), "file": blocks[bb].get("file")})
        res = remap({"o": "move", "place": copy.deepcopy(pa1["place"])})
        cblocks[-1]["stmts"].append({"s": "assign", "place": {"l": 0, "proj": [], "s": "_0"}, "rv": {"r": "use", "op": res}, "line": None})
        cblocks[-1]["term"] = {"t": "return"}
        clocals[2] = {"ty": item_ty or "?", "mut": False}
        ckey = "%s::{rolled#%d}" % (key, h)
        cj = {"kind": "closure", "def_kind": "Closure", "arg_count": 2, "locals": clocals, "debug": [], "blocks": cblocks, "span": blocks[bb].get("span"), "parent": key, "parent_kind": "Fn", "root": root, "synthetic": True}
        # ---- the caller:  c = closure; m = Iterator::map(move it, move c); extend(&mut acc, move m) -> exit
        nl = len(body.locals)
        body.locals.append({"ty": "{rolled loop body}", "mut": False})
        body.locals.append({"ty": "std::iter::Map<_, {rolled loop body}>", "mut": False})
        mapblock = len(blocks)
        line = acc_ref.get("line")
        newh = blocks[h]
        newh["stmts"] = [{"s": "assign", "place": {"l": nl, "proj": [], "s": "_%d" % nl}, "rv": {"r": "aggregate", "ak": "closure", "path": ckey, "ops": []}, "line": line}]
        newh["term"] = {
            "t": "call",
            "callee": {"path": "std::iter::Iterator::map", "full": "std::iter::Iterator::map", "args": [], "local": False, "resolved": None, "trait": "std::iter::Iterator", "item": "map", "rolled": True},
            "args": [{"o": "move", "place": {"l": iter_local, "proj": [], "s": "_%d" % iter_local}}, {"o": "move", "place": {"l": nl, "proj": [], "s": "_%d" % nl}}],
            "dest": {"l": nl + 1, "proj": [], "s": "_%d" % (nl + 1)},
            "target": mapblock,
            "unwind": "continue",
        }
        blocks.append({
            "cleanup": False,
            "stmts": [copy.deepcopy(x) for x in acc_stmts],
            "term": {
                "t": "call",
                "callee": {"path": "std::iter::Extend::extend", "full": "std::iter::Extend::extend", "args": [], "local": False, "resolved": None, "trait": "std::iter::Extend", "item": "extend", "rolled_from": _callee(push)},
                "args": [{"o": "move", "place": copy.deepcopy(acc_ref["place"])}, {"o": "move", "place": {"l": nl + 1, "proj": [], "s": "_%d" % (nl + 1)}}],
                "dest": copy.deepcopy(push["dest"]),
                "target": exit_bb,
                "unwind": "continue",
                "rolled": True,
            },
            "span": blocks[h].get("span"),
            "file": blocks[h].get("file"),
        })
        for b2 in ({test} | seen):
            blocks[b2]["stmts"] = []
            blocks[b2]["term"] = {"t": "unreachable"}
            blocks[b2]["dead"] = True
        out.append((ckey, cj))
        body._reset()
    return out


# ------------------------------------------------------------------------------------------------------------------
def _loop_head(body, h, blk):
    """the `x = it.next(); match x { None => exit, Some(..) => body }` head of a loop: (item option local, iterator local,
    test block, exit target, first body block) or None"""
    blocks = body.blocks
    th = blocks[h]["term"]
    if th["t"] != "call" or th["callee"].get("item") != "next" or len(th["args"]) != 1 or th["dest"]["proj"]:
        return None
    nloc = th["dest"]["l"]
    if th.get("target") not in blk:
        return None
    a0 = th["args"][0]
    if a0["o"] not in ("copy", "move") or a0["place"]["proj"]:
        return None
    refs = {}
    for st in blocks[h]["stmts"]:
        if st.get("s") == "assign" and not st["place"]["proj"] and st["rv"]["r"] == "ref" and st["rv"]["bk"] == "mut":
            refs[st["place"]["l"]] = st["rv"]["place"]
    cur_l = a0["place"]["l"]
    iter_local = None
    for _ in range(3):
        pl = refs.get(cur_l)
        if pl is None:
            break
        if not pl["proj"]:
            iter_local = pl["l"]
            break
        if [p_.get("p") for p_ in pl["proj"]] == ["deref"]:
            cur_l = pl["l"]
        else:
            break
    if iter_local is None:
        return None
    test = th["target"]
    tt = blocks[test]["term"]
    if tt["t"] != "switch":
        return None
    arms = _some_none(tt)
    if arms is None or arms[0] in blk or arms[1] not in blk:
        return None
    return nloc, iter_local, test, arms[0], arms[1]


def _unit_only(body, bl):
    for st in bl["stmts"]:
        if st.get("s") == "other":
            continue
        if st.get("s") == "assign" and not st["place"]["proj"] and st["rv"]["r"] in ("use", "discr") and (body.locals[st["place"]["l"]]["ty"] == "()" or st["rv"]["r"] == "discr"):
            continue
        return False
    return True


def _skip_trivial(body, b, limit=4):
    """follow gotos through blocks that only shuffle unit values"""
    blocks = body.blocks
    for _ in range(limit):
        bl = blocks[b]
        if bl["term"]["t"] == "goto" and _unit_only(body, bl):
            b = bl["term"]["target"]
        else:
            break
    return b


def roll_flag_loops(body, key, root):
    """`let mut found = false; for x in it { if p(x) { found = true; break; } }`   ==   `let found = it.any(|x| p(x));`
    (and the mirror image with `true` / `false` swapped == `!it.any(..)`, i.e. `it.all(|x| !p(x))`), with or without the
    `break`.  p is a straight chain of calls on the item; it becomes a synthetic closure body, so that the flag is what
    the quantifier spelling computes.  Inlined view only.  Returns [(closure key, closure body json)]."""
    blocks = body.blocks
    out = []
    for h, blk in sorted(body.loops().items()):
        hd = _loop_head(body, h, blk)
        if hd is None:
            continue
        nloc, iter_local, test, exit_bb, bb = hd
        # walk the chain up to the deciding switch
        seq = []
        seen = set()
        cur = bb
        ok = True
        sw = None
        while True:
            if cur in seen or cur not in blk:
                ok = False
                break
            seen.add(cur)
            for st in blocks[cur]["stmts"]:
                if st.get("s") == "assign" and st["rv"]["r"] == "use" and not st["place"]["proj"] and body.locals[st["place"]["l"]]["ty"] == "()":
                    continue
                if st.get("s") == "assign":
                    seq.append(("st", st))
                elif st.get("s") != "other":
                    ok = False
            t = blocks[cur]["term"]
            if t["t"] == "call":
                if t.get("target") is None or t["dest"]["proj"] or "path" not in t["callee"]:
                    ok = False
                    break
                seq.append(("call", t))
                cur = t["target"]
            elif t["t"] == "goto":
                cur = t["target"]
            elif t["t"] == "switch":
                sw = cur
                break
            else:
                ok = False
                break
        if not ok or sw is None:
            continue
        tsw = blocks[sw]["term"]
        if tsw.get("discr_ty") != "bool" or tsw["discr"]["o"] not in ("copy", "move") or tsw["discr"]["place"]["proj"]:
            continue
        bl_ = tsw["discr"]["place"]["l"]
        edges = [(0, tg) for (v, tg) in tsw["arms"] if v == 0] + [(1, tsw["otherwise"])]
        if len(edges) != 2:
            continue
        # the two sides: one sets the flag (and may leave the loop), the other goes on with the next item
        side = {}
        for val, tg in edges:
            side[val] = tg
        flag = None
        set_val = None
        hit = None      # the value of the tested bool on which the flag is set
        after_hit = None
        plain = None
        for val in (0, 1):
            tg = side[val]
            other = side[1 - val]
            bset = blocks[tg]
            assigns = [st for st in bset["stmts"] if st.get("s") == "assign" and not (st["rv"]["r"] == "use" and not st["place"]["proj"] and body.locals[st["place"]["l"]]["ty"] == "()")]
            if len(assigns) == 1 and not assigns[0]["place"]["proj"] and assigns[0]["rv"]["r"] == "use" and assigns[0]["rv"]["op"]["o"] == "const" and isinstance(assigns[0]["rv"]["op"]["c"].get("v"), bool) and bset["term"]["t"] == "goto":
                if _skip_trivial(body, other) == h or other == h:
                    flag, set_val, hit, after_hit, plain = assigns[0]["place"]["l"], assigns[0]["rv"]["op"]["c"]["v"], val, bset["term"]["target"], other
                    hit_block = tg
                    break
        if flag is None:
            continue
        # every block of the loop is accounted for
        trivial_back = set()
        x_ = plain
        for _ in range(4):
            if x_ == h:
                break
            trivial_back.add(x_)
            x_ = blocks[x_]["term"].get("target") if blocks[x_]["term"]["t"] == "goto" else h
        loop_blocks = {h, test} | seen | trivial_back | ({hit_block} if hit_block in blk else set())
        if set(blk) - loop_blocks:
            continue
        # where does the hit side go: out of the loop (break) or on with the next item?
        breaks = hit_block not in blk
        if not breaks and _skip_trivial(body, after_hit) != h and after_hit != h:
            continue
        # the flag: one definition before the loop with the opposite constant, dominating the header; none elsewhere
        fdefs = []
        for b2, bl2 in enumerate(blocks):
            if bl2["cleanup"]:
                continue
            for st in bl2["stmts"]:
                if st.get("s") == "assign" and st["place"]["l"] == flag:
                    fdefs.append((b2, st))
            if bl2["term"]["t"] == "call" and bl2["term"]["dest"]["l"] == flag:
                fdefs.append((b2, None))
        inits = [(b2, st) for b2, st in fdefs if b2 != hit_block]
        if len(fdefs) != 2 or len(inits) != 1 or inits[0][1] is None or inits[0][0] in blk or not body.dominates(inits[0][0], h):
            continue
        ist = inits[0][1]
        if ist["place"]["proj"] or ist["rv"]["r"] != "use" or ist["rv"]["op"]["o"] != "const" or ist["rv"]["op"]["c"].get("v") is not (not set_val):
            continue
        # the flag is not read inside the loop
        if any(pl["l"] == flag for b2 in loop_blocks for pl in _places([blocks[b2]["stmts"], blocks[b2]["term"]]) if not (b2 == hit_block)):
            continue
        # both ways out meet again
        exit_join = _skip_trivial(body, exit_bb)
        if breaks:
            if _skip_trivial(body, after_hit) != exit_join:
                continue
        # the chain reads only the item and what it computes itself
        defined = set()
        for kind, x in seq:
            pl = x["place"] if kind == "st" else x["dest"]
            if pl["proj"]:
                ok = False
            defined.add(pl["l"])
        if not ok or bl_ not in defined:
            continue

        def item_place(pl):
            return pl["l"] == nloc and [p_.get("p") for p_ in pl["proj"][:2]] == ["downcast", "field"]
        for kind, x in seq:
            for pl in _places([x["rv"]] if kind == "st" else [x["args"]]):
                if not (pl["l"] in defined or item_place(pl)):
                    ok = False
        for b2, bl2 in enumerate(blocks):
            if b2 in loop_blocks or bl2["cleanup"]:
                continue
            for pl in _places([bl2["stmts"], bl2["term"]]):
                if pl["l"] in defined:
                    ok = False
        if not ok:
            continue
        # ---- closure body: the chain, then return (tested bool == hit)
        lmap = {}
        clocals = [{"ty": "bool", "mut": True}, {"ty": "&mut {rolled loop test}", "mut": True}, None]
        item_ty = [None]

        def remap(frag):
            frag = copy.deepcopy(frag)
            for pl in _places(frag):
                if item_place(pl):
                    if item_ty[0] is None:
                        item_ty[0] = pl["proj"][1].get("ty")
                    pl["l"] = 2
                    pl["proj"] = pl["proj"][2:]
                elif pl["l"] in defined:
                    if pl["l"] not in lmap:
                        lmap[pl["l"]] = len(clocals)
                        clocals.append(dict(body.locals[pl["l"]]))
                    pl["l"] = lmap[pl["l"]]
                pl["s"] = "_%d" % pl["l"]
            return frag
        sp, fl = blocks[bb].get("span"), blocks[bb].get("file")
        cblocks = [{"cleanup": False, "stmts": [], "term": None, "span": sp, "file": fl}]
        for kind, x in seq:
            if kind == "st":
                cblocks[-1]["stmts"].append(remap(x))
            else:
                t2 = remap(x)
                t2["target"] = len(cblocks)
                t2["unwind"] = "continue"
                cblocks[-1]["term"] = t2
                cblocks.append({"cleanup": False, "stmts": [], "term": None, "span": sp, "file": fl})
        res = remap({"o": "copy", "place": {"l": bl_, "proj": [], "s": "_%d" % bl_}})
        if hit == 1:
            rv = {"r": "use", "op": res}
        else:
            rv = {"r": "unop", "uop": "Not", "a": res}
        cblocks[-1]["stmts"].append({"s": "assign", "place": {"l": 0, "proj": [], "s": "_0"}, "rv": rv, "line": None})
        cblocks[-1]["term"] = {"t": "return"}
        clocals[2] = {"ty": item_ty[0] or "?", "mut": False}
        ckey = "%s::{rolled-test#%d}" % (key, h)
        cj = {"kind": "closure", "def_kind": "Closure", "arg_count": 2, "locals": clocals, "debug": [], "blocks": cblocks, "span": sp, "parent": key, "parent_kind": "Fn", "root": root, "synthetic": True}
        # ---- the caller:  c = closure; r = Iterator::any(move it, move c); flag = r | !r; goto join
        nl = len(body.locals)
        body.locals.append({"ty": "{rolled loop test}", "mut": False})
        body.locals.append({"ty": "bool", "mut": False})
        line = ist.get("line")
        setb = len(blocks)
        newh = blocks[h]
        newh["stmts"] = [{"s": "assign", "place": {"l": nl, "proj": [], "s": "_%d" % nl}, "rv": {"r": "aggregate", "ak": "closure", "path": ckey, "ops": []}, "line": line}]
        newh["term"] = {
            "t": "call",
            "callee": {"path": "std::iter::Iterator::any", "full": "std::iter::Iterator::any", "args": [], "local": False, "resolved": None, "trait": "std::iter::Iterator", "item": "any", "rolled": True},
            "args": [{"o": "move", "place": {"l": iter_local, "proj": [], "s": "_%d" % iter_local}}, {"o": "move", "place": {"l": nl, "proj": [], "s": "_%d" % nl}}],
            "dest": {"l": nl + 1, "proj": [], "s": "_%d" % (nl + 1)},
            "target": setb,
            "unwind": "continue",
        }
        r_op = {"o": "move", "place": {"l": nl + 1, "proj": [], "s": "_%d" % (nl + 1)}}
        frv = {"r": "use", "op": r_op} if set_val else {"r": "unop", "uop": "Not", "a": r_op}
        blocks.append({"cleanup": False, "stmts": [{"s": "assign", "place": {"l": flag, "proj": [], "s": "_%d" % flag}, "rv": frv, "line": line}], "term": {"t": "goto", "target": exit_join}, "span": blocks[h].get("span"), "file": blocks[h].get("file"), "model": True})
        # the old initialisation of the flag is dead now; the loop body and the break block go
        blocks[inits[0][0]]["stmts"] = [st for st in blocks[inits[0][0]]["stmts"] if st is not ist]
        for b2 in (loop_blocks | {hit_block}) - {h}:
            blocks[b2]["stmts"] = []
            blocks[b2]["term"] = {"t": "unreachable"}
            blocks[b2]["dead"] = True
        out.append((ckey, cj))
        body._reset()
    return out


# ------------------------------------------------------------------------------------------------------------------
DISPLAY_ITERS = {
    # iterator type prefix -> the Display impl that is *defined* as "write every item with write_str, stop at the first error"
    # percent-encoding 2.3.0 src/lib.rs:299-306:  for c in (*self).clone() { formatter.write_str(c)? }  Ok(())
    "percent_encoding::PercentEncode<": "<percent_encoding::PercentEncode<'a> as std::fmt::Display>::fmt",
}
WRITE_STR_PATHS = ("std::fmt::Formatter::<'a>::write_str", "std::fmt::Write::write_str", "<std::fmt::Formatter<'_> as std::fmt::Write>::write_str")


def roll_display_loops(body, key):
    """`for chunk in enc { f.write_str(chunk)?; }`   ==   `fmt::Display::fmt(&enc, f)?`   for an iterator type whose Display impl
    is defined as exactly that loop (DISPLAY_ITERS).  The hand-written loop is what `write!(f, "{}", enc)` runs anyway; rolled
    back, the formatter model reads one encode-and-emit piece again.  The error handling after write_str (`?` or an explicit
    `match`) is kept as it is: it now handles the result of the one fmt call, and the way back to the loop head becomes the
    way out of the loop.  Inlined view only.  Returns the number of loops rolled."""
    blocks = body.blocks
    n = 0
    for h, blk in sorted(body.loops().items()):
        hd = _loop_head(body, h, blk)
        if hd is None:
            continue
        nloc, iter_local, test, exit_bb, bb = hd
        ity = body.locals[iter_local]["ty"]
        disp = None
        for pre, d in DISPLAY_ITERS.items():
            if ity.startswith(pre):
                disp = d
        if disp is None:
            continue
        # the chain from the Some arm to the write_str call
        cur = bb
        seen = set()
        stmts = []
        wcall = None
        ok = True
        while True:
            if cur in seen or cur not in blk:
                ok = False
                break
            seen.add(cur)
            stmts.extend(blocks[cur]["stmts"])
            t = blocks[cur]["term"]
            if t["t"] == "goto":
                cur = t["target"]
                continue
            if t["t"] == "call" and (t["callee"].get("path") in WRITE_STR_PATHS or (t["callee"].get("resolved") or {}).get("path") in WRITE_STR_PATHS or t["callee"].get("item") == "write_str") and len(t["args"]) == 2 and t.get("target") is not None and not t["dest"]["proj"]:
                wcall = cur
            else:
                ok = False
            break
        if not ok or wcall is None:
            continue
        wt = blocks[wcall]["term"]
        # item-derived locals: the payload of the Some and its reborrows
        derived = {nloc}
        keep = []
        for st in stmts:
            if st.get("s") == "other":
                continue
            if st.get("s") != "assign" or st["place"]["proj"]:
                ok = False
                break
            if any(pl["l"] in derived for pl in _places([st["rv"]])):
                if st["rv"]["r"] not in ("use", "ref"):
                    ok = False
                    break
                derived.add(st["place"]["l"])
            else:
                if st["rv"]["r"] not in ("use", "ref"):
                    ok = False
                    break
                keep.append(st)
        if not ok:
            continue
        a_f, a_item = wt["args"]
        if a_item["o"] not in ("copy", "move") or a_item["place"]["l"] not in derived or any(pl["l"] in derived for pl in _places([a_f])):
            continue
        # after the call: everything in the loop is error plumbing that either leaves the loop or returns to the head; no
        # further call except Try::branch, no use of the item
        rest = set(blk) - seen - {h, test}
        fine = True
        for b2 in rest:
            bl2 = blocks[b2]
            t2 = bl2["term"]
            if t2["t"] == "call" and t2["callee"].get("path") != "std::ops::Try::branch":
                fine = False
            if t2["t"] not in ("call", "goto", "switch", "drop"):
                fine = False
            if any(pl["l"] in derived for pl in _places([bl2["stmts"], t2])):
                fine = False
            for st in bl2["stmts"]:
                if st.get("s") == "assign" and st["place"]["proj"]:
                    fine = False
        # the iterator and the item are not used outside the loop head / chain
        for b2, bl2 in enumerate(blocks):
            if bl2["cleanup"] or bl2.get("dead") or b2 in seen or b2 in (h, test):
                continue
            if any(pl["l"] in derived for pl in _places([bl2["stmts"], bl2["term"]])):
                fine = False
        if not fine:
            continue
        # ---- rewrite: head = kept statements; r = Display::fmt(&it, f) -> the old continuation of write_str; back edges -> exit
        nl = len(body.locals)
        body.locals.append({"ty": "&" + ity, "mut": False, "model": True})
        line = blocks[wcall]["stmts"][-1].get("line") if blocks[wcall]["stmts"] else None
        newstmts = [st for st in keep] + [{"s": "assign", "place": {"l": nl, "proj": [], "s": "_%d" % nl}, "rv": {"r": "ref", "bk": "shared", "place": {"l": iter_local, "proj": [], "s": "_%d" % iter_local}}, "line": line, "model": True}]
        newterm = {
            "t": "call",
            "callee": {"path": "std::fmt::Display::fmt", "full": disp, "args": [ity], "local": False, "resolved": {"path": disp, "full": disp, "args": [], "local": False, "kind": "Item"}, "trait": "std::fmt::Display", "item": "fmt", "rolled": True},
            "args": [{"o": "move", "place": {"l": nl, "proj": [], "s": "_%d" % nl}}, copy.deepcopy(a_f)],
            "dest": copy.deepcopy(wt["dest"]),
            "target": wt["target"],
            "unwind": wt.get("unwind", "continue"),
        }
        for k_ in ("span", "fn_span", "line"):
            if k_ in wt:
                newterm[k_] = wt[k_]
        # the head keeps its own statements that do not borrow the iterator for `next`
        hst = [st for st in blocks[h]["stmts"] if not (st.get("s") == "assign" and st["rv"]["r"] == "ref" and st["rv"].get("bk") == "mut")]
        blocks[h]["stmts"] = hst + newstmts
        blocks[h]["term"] = newterm
        blocks[h]["span"] = blocks[wcall].get("span", blocks[h].get("span"))
        for b2 in rest:
            t2 = blocks[b2]["term"]
            if t2["t"] == "goto" and t2["target"] == h:
                t2["target"] = exit_bb
            elif t2["t"] == "switch":
                t2["arms"] = [[v, (exit_bb if tg == h else tg)] for (v, tg) in t2["arms"]]
                if t2["otherwise"] == h:
                    t2["otherwise"] = exit_bb
            elif t2["t"] in ("call", "drop") and t2.get("target") == h:
                t2["target"] = exit_bb
        for b2 in (seen | {test}) - {h}:
            blocks[b2]["stmts"] = []
            blocks[b2]["term"] = {"t": "unreachable"}
            blocks[b2]["dead"] = True
        n += 1
        body._reset()
    return n
