"""purlsa.roll -- `for x in it { acc.push(x) }`  ==  `acc.extend(it)`  (a CFG normalisation, DESIGN.md 14).

An inner loop that only moves the items of an iterator into an accumulator is what `Extend::extend` does by definition
(rust-src alloc/src/string.rs `impl Extend<char> for String`: `iterator.for_each(move |c| self.push(c))`, Vec and
SmartString alike).  Rewriting it as the call keeps semantics and spares every loop analysis a nested cycle.

Recognised shape (all of it, nothing else inside the loop):
    header:  r = &mut iter;  n = Iterator::next(move r)            -> test
    test:    d = discr(n);   switch d { 0 => exit, 1 => body }
    body:    x = move (n as Some).0;  a = &mut ACC;  _ = push(move a, move x)   -> (gotos) -> header
where push is String::push / SmartString::push / Vec::push / push_str of the payload.  The loop is replaced by
    header:  a = &mut ACC;  _ = Extend::extend(move a, move iter)   -> exit
"""
import copy

PUSHES = ("std::string::String::push", "smartstring::SmartString::<Mode>::push", "std::vec::Vec::<T, A>::push", "std::vec::Vec::<T>::push")


def _callee(t):
    ce = t.get("callee", {})
    r = ce.get("resolved")
    return (r or {}).get("path") or ce.get("path")


def roll_push_loops(body):
    """Rewrite body.blocks (private copy).  Returns the number of loops rolled."""
    blocks = body.blocks
    n = 0
    for h, blk in sorted(body.loops().items()):
        th = blocks[h]["term"]
        if th["t"] != "call" or not (th["callee"].get("item") == "next" or (_callee(th) or "").endswith("::next")) or len(th["args"]) != 1:
            continue
        nloc = th["dest"]["l"] if not th["dest"]["proj"] else None
        if nloc is None or th.get("target") not in blk:
            continue
        # the iterator local: header has `r = &mut iter` and next(move r)
        rl = th["args"][0]["place"]["l"] if th["args"][0]["o"] in ("copy", "move") and not th["args"][0]["place"]["proj"] else None
        iter_local = None
        refs = {}
        for st in blocks[h]["stmts"]:
            if st.get("s") == "assign" and not st["place"]["proj"] and st["rv"]["r"] == "ref" and st["rv"]["bk"] == "mut":
                refs[st["place"]["l"]] = st["rv"]["place"]
        cur_l = rl
        for _ in range(3):   # r = &mut *q; q = &mut iter
            pl = refs.get(cur_l)
            if pl is None:
                break
            if not pl["proj"]:
                iter_local = pl["l"]
                break
            if [p_.get("p") for p_ in pl["proj"]] == ["deref"]:
                cur_l = pl["l"]
            else:
                break
        if iter_local is None:
            continue
        test = th["target"]
        tt = blocks[test]["term"]
        if tt["t"] != "switch":
            continue
        arms = dict((v, tg) for (v, tg) in tt["arms"])
        if 0 not in arms or 1 not in arms or arms[0] in blk or arms[1] not in blk:
            continue
        exit_bb, bb = arms[0], arms[1]
        # walk the body: exactly one call (the push), then gotos back to the header
        calls = []
        others = 0
        cur = bb
        seen = set()
        ref_stmt = None
        payload_locals = set()
        ok = True
        while cur != h:
            if cur in seen or cur not in blk:
                ok = False
                break
            seen.add(cur)
            for st in blocks[cur]["stmts"]:
                if st.get("s") != "assign":
                    continue
                rv = st["rv"]
                if rv["r"] == "use" and rv["op"]["o"] == "const":
                    continue  # unit values of statement expressions
                if rv["r"] == "use" and rv["op"]["o"] in ("copy", "move"):
                    pl = rv["op"]["place"]
                    if pl["l"] == nloc and [p.get("p") for p in pl["proj"]] == ["downcast", "field"]:
                        payload_locals.add(st["place"]["l"])
                    elif not pl["proj"] and pl["l"] in payload_locals:
                        payload_locals.add(st["place"]["l"])
                    else:
                        others += 1
                elif rv["r"] == "ref" and rv["bk"] == "mut":
                    ref_stmt = st
                else:
                    others += 1
            t = blocks[cur]["term"]
            if t["t"] == "call":
                calls.append((cur, t))
                cur = t.get("target")
            elif t["t"] == "goto":
                cur = t["target"]
            elif t["t"] == "drop":
                cur = t["target"]
            else:
                ok = False
                break
            if cur is None:
                ok = False
                break
        if not ok or len(calls) != 1 or others or ref_stmt is None:
            continue
        cb, ct = calls[0]
        if _callee(ct) not in PUSHES or len(ct["args"]) != 2:
            continue
        a0, a1 = ct["args"]
        if not (a0["o"] == "move" and not a0["place"]["proj"] and a0["place"]["l"] == ref_stmt["place"]["l"]):
            continue
        if not (a1["o"] in ("move", "copy") and not a1["place"]["proj"] and a1["place"]["l"] in payload_locals):
            continue
        # the whole loop is {header, test, body chain}
        if set(blk) - ({h, test} | seen):
            continue
        # rewrite
        newh = blocks[h]
        newh["stmts"] = [copy.deepcopy(ref_stmt)]
        newh["term"] = {
            "t": "call",
            "callee": {"path": "std::iter::Extend::extend", "full": "std::iter::Extend::extend", "args": [], "local": False, "resolved": None, "trait": "std::iter::Extend", "item": "extend", "rolled_from": _callee(ct)},
            "args": [{"o": "move", "place": copy.deepcopy(ref_stmt["place"])}, {"o": "move", "place": {"l": iter_local, "proj": [], "s": "_%d" % iter_local}}],
            "dest": copy.deepcopy(ct["dest"]),
            "target": exit_bb,
            "unwind": ct.get("unwind", "continue"),
            "rolled": True,
        }
        for b in ({test} | seen):
            blocks[b]["stmts"] = []
            blocks[b]["term"] = {"t": "unreachable"}
            blocks[b]["dead"] = True
        n += 1
    return n
