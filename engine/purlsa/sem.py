"""purlsa.sem -- semantic normalisation of terms and guard atoms.

norm(t) removes representation noise (references, Deref/AsRef views, pointer
casts, `?` plumbing) so that rules can compare *values*:

  ("some", x)      payload of Some(x)          (x as Some).0
  ("ok", x)        payload of Ok(x) / Continue   (branch(x) as Continue).0, (x as Ok).0
  ("err", x)       payload of Err(x) / the residual of `?`
  ("conv", x)      From::from / Into::into / to_owned / to_string of x (value-preserving for strings)

Atoms (what a branch condition says):
  ("pred", callee, (args...), positive)
  ("is", x, Variant)                 discriminant test
  ("cmp", op, a, b, positive)
  ("val", x, outcome)                switch on a plain value
"""
from .core import AnchorError, strip, show, is_transparent_call

CONV_CALLS = (
    "std::convert::From::from",
    "std::convert::Into::into",
    "<T as std::convert::Into<U>>::into",
    "<T as std::convert::From<T>>::from",
    "std::borrow::ToOwned::to_owned",
    "std::string::ToString::to_string",
    "<smartstring::SmartString<Mode> as std::convert::From<&str>>::from",
    "<smartstring::SmartString<Mode> as std::convert::From<std::string::String>>::from",
    "<smartstring::SmartString<Mode> as std::convert::From<std::borrow::Cow<'_, str>>>::from",
    "<std::string::String as std::convert::From<&str>>::from",
    "<std::borrow::Cow<'a, str> as std::convert::From<&'a str>>::from",
    "<std::borrow::Cow<'a, str> as std::convert::From<std::string::String>>::from",
    "std::clone::Clone::clone",
    "<smartstring::SmartString<Mode> as std::clone::Clone>::clone",
)

TRY_BRANCH = (
    "std::ops::Try::branch",
    "<std::result::Result<T, E> as std::ops::Try>::branch",
    "<std::option::Option<T> as std::ops::Try>::branch",
)


def is_conv(path):
    if not isinstance(path, str):
        return False
    if path in CONV_CALLS:
        return True
    # resolved From impls between string-like types
    if path.endswith("::from") and "std::convert::From<" in path and ("SmartString" in path or "String" in path or "Cow<" in path):
        if "qualifiers::" in path:
            return False
        return True
    return False


def norm(t, keep_conv=False):
    """Canonical value form of a term (recursive)."""
    t = strip(t)
    k = t[0]
    if k == "field":
        base = norm(t[1], keep_conv)
        name = t[2]
        if base[0] == "vpay":  # variant payload projection
            if name in ("0",):
                v = base[2]
                x = base[1]
                # the payload of a value that was built as that very variant right here (an expanded combinator:
                # `Some(v) => Ok(v)` followed by `?`) is the operand
                if x[0] == "agg" and x[1][0] == "adt" and len(x[2]) == 1:
                    built = x[1][2]
                    if (v, built) in (("Some", "Some"), ("Ok", "Ok"), ("Continue", "Ok"), ("Continue", "Some"), ("Err", "Err")):
                        return x[2][0]
                if v in ("Some",):
                    return ("some", x)
                if v in ("Ok", "Continue"):
                    return ("ok", x)
                if v in ("Err", "Break"):
                    return ("err", x)
            return ("vfield", base[1], base[2], name)
        # a field of a struct / tuple value built right here is the operand it was built from (a private struct used to
        # hand two values from a helper to its caller, destructured at once)
        if base[0] == "agg" and base[1][0] == "adt" and len(base[1]) > 3 and name in base[1][3] and len(base[1][3]) == len(base[2]):
            return base[2][list(base[1][3]).index(name)]
        if base[0] == "agg" and base[1][0] == "tuple" and name.isdigit() and int(name) < len(base[2]):
            return base[2][int(name)]
        return ("field", base, name)
    if k == "downcast":
        base = norm(t[1], keep_conv)
        if base[0] == "trybranch":
            return ("vpay", base[1], t[2])
        return ("vpay", base, t[2])
    if k == "call":
        path = t[1]
        if path in TRY_BRANCH and len(t[2]) == 1:
            return ("trybranch", norm(t[2][0], keep_conv))
        if is_conv(path) and len(t[2]) == 1:
            inner = norm(t[2][0], keep_conv)
            return ("conv", inner) if keep_conv else inner
        if path in ("std::option::Option::<T>::unwrap", "std::option::Option::<T>::expect", "std::option::Option::<T>::unwrap_unchecked") and len(t[2]) >= 1:
            return ("some", norm(t[2][0], keep_conv))   # the payload (whether it can panic is C06's question)
        if path in ("std::result::Result::<T, E>::unwrap", "std::result::Result::<T, E>::expect") and len(t[2]) >= 1:
            return ("ok", norm(t[2][0], keep_conv))
        if "FromResidual" in str(path) and len(t[2]) == 1:
            inner = norm(t[2][0], keep_conv)
            # the residual of a value that was itself built by `?` (an inlined helper's `Err(e)?` re-raised by its caller):
            # from_residual(err(from_residual(err(Y)))) carries the error of Y, converted once more
            if inner[0] == "err" and inner[1][0] == "from_residual" and inner[1][1][0] == "err":
                inner = ("err", ("conv", inner[1][1][1])) if keep_conv else inner[1][1]
            return ("from_residual", inner)
        return ("call", path, tuple(norm(a, keep_conv) for a in t[2]), t[3])
    if k == "var":
        return ("var", t[1], norm(t[2], keep_conv))
    if k == "phi":
        arms = []
        for x in t[1]:
            nx = norm(x, keep_conv)
            if nx not in arms:
                arms.append(nx)
        return arms[0] if len(arms) == 1 else ("phi", tuple(arms))
    if k == "index":
        return ("index", norm(t[1], keep_conv), norm(t[2], keep_conv))
    if k == "binop":
        return ("binop", t[1], norm(t[2], keep_conv), norm(t[3], keep_conv))
    if k == "unop":
        return ("unop", t[1], norm(t[2], keep_conv))
    if k == "discr":
        return ("discr", norm(t[1], keep_conv), t[2] if len(t) > 2 else ())
    if k == "agg":
        ops = tuple(norm(a, keep_conv) for a in t[2])
        return ("agg", t[1], ops)
    if k == "closure":
        return ("closure", t[1], tuple(norm(a, keep_conv) for a in t[2]))
    if k == "cast":
        return ("cast", t[1], norm(t[2], keep_conv))
    if k == "nth":
        return ("nth", norm(t[1], keep_conv), t[2])
    return t


def nshow(t, depth=0):
    if depth > 10:
        return "..."
    k = t[0]
    d = depth + 1
    if k in ("some", "ok", "err"):
        return "%s(%s)" % (k, nshow(t[1], d))
    if k == "conv":
        return "conv(%s)" % nshow(t[1], d)
    if k == "vpay":
        return "(%s as %s)" % (nshow(t[1], d), t[2])
    if k == "vfield":
        return "(%s as %s).%s" % (nshow(t[1], d), t[2], t[3])
    if k == "trybranch":
        return "try(%s)" % nshow(t[1], d)
    if k == "from_residual":
        return "residual(%s)" % nshow(t[1], d)
    if k == "field":
        return "%s.%s" % (nshow(t[1], d), t[2])
    if k == "call":
        p = t[1] if isinstance(t[1], str) else "<indirect>"
        return "%s(%s)" % (p, ", ".join(nshow(a, d) for a in t[2]))
    if k == "var":
        return "var_%d" % t[1]
    if k == "phi":
        return "phi(%s)" % " | ".join(nshow(a, d) for a in t[1])
    if k == "index":
        return "%s[%s]" % (nshow(t[1], d), nshow(t[2], d))
    if k == "binop":
        return "(%s %s %s)" % (nshow(t[2], d), t[1], nshow(t[3], d))
    if k == "unop":
        return "%s(%s)" % (t[1], nshow(t[2], d))
    if k == "discr":
        return "discr(%s)" % nshow(t[1], d)
    if k == "agg":
        w = t[1]
        name = "%s::%s" % (w[1], w[2]) if w[0] == "adt" else w[0]
        return "%s{%s}" % (name, ", ".join(nshow(a, d) for a in t[2]))
    if k == "closure":
        return "closure %s" % t[1]
    if k == "cast":
        return "cast<%s>(%s)" % (t[1], nshow(t[2], d))
    return show(t, depth)


def outcome_bool(outcome):
    """For a bool-valued condition: True / False / None."""
    kind, v = outcome
    if kind == "eq":
        return bool(v)
    if kind == "ne":
        # ne (0,) -> true ; ne (1,) -> false
        if v == (0,):
            return True
        if v == (1,):
            return False
    return None


def atom_of(cond, outcome):
    """Translate (condition term, outcome) into an atom."""
    c = strip(cond)
    if c[0] == "cast" and c[1].startswith("IntToInt"):
        c = strip(c[2])
    if c[0] == "unop" and c[1] == "Not":
        pos = outcome_bool(outcome)
        if pos is None:
            return ("unknown", nshow(norm(cond)), outcome)
        inner = atom_of(c[2], ("eq", 0 if pos else 1))
        return inner
    if c[0] == "discr":
        variants = c[2] if len(c) > 2 else ()
        x = norm(c[1])
        if x[0] == "trybranch":
            x = x[1]
            variants = tuple({"Continue": "Ok?", "Break": "Err?"}.get(v, v) for v in variants)
        kind, v = outcome
        if kind == "eq" and variants and 0 <= v < len(variants):
            return ("is", x, variants[v])
        if kind == "ne" and variants:
            rest = [variants[i] for i in range(len(variants)) if i not in v]
            if len(rest) == 1:
                return ("is", x, rest[0])
            return ("isin", x, tuple(rest))
        if kind == "in" and variants:
            return ("isin", x, tuple(variants[i] for i in v if 0 <= i < len(variants)))
        return ("discr", x, outcome)
    if c[0] == "call":
        pos = outcome_bool(outcome)
        n = norm(c)
        if pos is None or n[0] != "call":
            return ("val", n, outcome)
        # x.is_some() / x.is_none() / r.is_ok() / r.is_err() are the variant test of x
        VT = {"std::option::Option::<T>::is_some": ("Some", "None"), "std::option::Option::<T>::is_none": ("None", "Some"),
              "std::result::Result::<T, E>::is_ok": ("Ok", "Err"), "std::result::Result::<T, E>::is_err": ("Err", "Ok")}
        if n[1] in VT and len(n[2]) == 1:
            return ("is", n[2][0], VT[n[1]][0 if pos else 1])
        return ("pred", n[1], n[2], pos)
    if c[0] == "binop":
        pos = outcome_bool(outcome)
        n = norm(c)
        if pos is None:
            return ("val", n, outcome)
        return ("cmp", n[1], n[2], n[3], pos)
    return ("val", norm(c), outcome)


def is_dropflag_cond(cond):
    """MIR drop flags: bool locals assigned only constants; branches on them carry no program condition."""
    c = strip(cond)
    if c[0] == "var":
        c = c[2]
    if c[0] == "phi":
        return all(x[0] == "const" and isinstance(x[1], bool) for x in c[1])
    return c[0] == "const" and isinstance(c[1], bool)


def atoms_at(body, bb):
    out = [(g[0], atom_of(g[1], g[2])) for g in body.guards(bb) if not is_dropflag_cond(g[1])]
    extra = []
    for gb, a in out:
        if a[0] == "is" and a[2] == "Some" and a[1][0] == "call" and a[1][1].startswith("<std::iter::Filter<") and a[1][1].endswith("::next"):
            extra.extend((FilterGuard(gb), x) for x in filter_atoms(body, a[1]))
    return out + extra


class FilterGuard(int):
    """guard 'block' of an atom implied by Iterator::filter: the block of the `next` test; items failing the predicate are
    dropped inside the adaptor (the loop continues with the next item and nothing else happens)"""


def subst_term(t, mapping):
    if isinstance(t, tuple):
        if t in mapping:
            return mapping[t]
        return tuple(subst_term(x, mapping) for x in t)
    return t


def filter_atoms(body, nextcall):
    """`for x in it.filter(p)`: inside the loop body p(&x) holds.  The atoms of the closure's (single) true-path, with the
    closure parameter replaced by the item, are returned; nothing is returned when the closure is not of that shape (the
    rules then see an item about which nothing is known and fail closed)."""
    it = nextcall[2][0]
    src = it[2] if it[0] == "var" else it
    src = strip(src)
    for _ in range(3):
        if src[0] == "call" and src[1] in ("std::iter::IntoIterator::into_iter", "<I as std::iter::IntoIterator>::into_iter"):
            src = strip(src[2][0])
    if src[0] != "call" or src[1] != "std::iter::Iterator::filter" or len(src[2]) != 2:
        return []
    clo = strip(src[2][1])
    if clo[0] != "closure" or clo[1] not in body.facts.bodies:
        return []
    cb = body.facts.body(clo[1])
    item = ("ref", "shared", ("some", nextcall))
    mapping = {("arg", 2): item}
    return true_path_atoms(cb, mapping)


def true_path_atoms(cb, mapping):
    """Atoms that hold whenever the (loop-free, bool-returning) body cb returns true, provided there is exactly one path on
    which it can: every path is walked with constant propagation of the bools it stores (`matches!`, `!`, `&&`, `||`
    materialise their result), a path whose result is a computed value contributes that value as a last atom."""
    if cb.loops():
        return []
    exits = set(cb.exits())
    try:
        paths = cb.acyclic_paths(0, exits, limit=400)
    except AnchorError:
        return []
    cands = []
    for path in paths:
        if path[-1] not in exits:
            continue
        env = {}
        for b in path:
            for st in cb.blocks[b]["stmts"]:
                if st.get("s") != "assign" or st["place"]["proj"]:
                    if st.get("s") in ("assign", "setdiscr"):
                        env.pop(st["place"]["l"], None)
                    continue
                l, rv = st["place"]["l"], st["rv"]
                v = None
                if rv["r"] == "use":
                    op = rv["op"]
                    if op["o"] == "const" and isinstance(op["c"].get("v"), bool):
                        v = op["c"]["v"]
                    elif op["o"] in ("copy", "move") and not op["place"]["proj"] and op["place"]["l"] in env:
                        v = env[op["place"]["l"]]
                elif rv["r"] == "unop" and rv["uop"] == "Not" and rv["a"]["o"] in ("copy", "move") and not rv["a"]["place"]["proj"] and rv["a"]["place"]["l"] in env:
                    x = env[rv["a"]["place"]["l"]]
                    v = (not x) if isinstance(x, bool) else ("expr", x[1], not x[2])
                if v is None:
                    if cb.locals[l]["ty"] == "bool":
                        v = ("expr", cb._rv_term(rv), False)
                    else:
                        env.pop(l, None)
                        continue
                env[l] = v
            t = cb.term(b)
            if t["t"] == "call" and not t["dest"]["proj"]:
                if cb.locals[t["dest"]["l"]]["ty"] == "bool":
                    env[t["dest"]["l"]] = ("expr", cb.call_term(b), False)
                else:
                    env.pop(t["dest"]["l"], None)
        v = env.get(0)
        if v is None:
            return []
        if v is False:
            continue
        cands.append((path, v))
    if len(cands) != 1:
        return []
    path, v = cands[0]
    res = []
    for p, q in zip(path, path[1:]):
        eg = cb.edge_guards(p, q)
        if eg is None or is_dropflag_cond(eg[0]):
            continue
        a = atom_of(subst_term(eg[0], mapping), eg[1])
        if a not in res:
            res.append(a)
    if v is not True:
        res.append(atom_of(subst_term(v[1], mapping), ("eq", 0 if v[2] else 1)))
    return res


def show_atom(a):
    k = a[0]
    if k == "pred":
        return "%s%s(%s)" % ("" if a[3] else "!", a[1], ", ".join(nshow(x) for x in a[2]))
    if k == "is":
        return "%s is %s" % (nshow(a[1]), a[2])
    if k == "isin":
        return "%s in %s" % (nshow(a[1]), "|".join(a[2]))
    if k == "cmp":
        return "%s(%s %s %s)" % ("" if a[4] else "!", nshow(a[2]), a[1], nshow(a[3]))
    if k == "val":
        return "%s %s" % (nshow(a[1]), a[2])
    return repr(a)


# ---------------------------------------------------------------- format_args templates
def decode_template(bs):
    """Decode a core::fmt::Arguments byte template (rust-src core/src/fmt/mod.rs).

    n < 0x80 : literal of n bytes follows;  0x80 lo hi : long literal;
    0xC0 : next argument with default options;  0x00 : end.
    Returns list of ("lit", str) / ("arg", index).  Raises ValueError on any
    other opcode (fail closed)."""
    out = []
    i = 0
    argi = 0
    n = len(bs)
    while i < n:
        b = bs[i]
        if b == 0:
            if i != n - 1:
                raise ValueError("template: data after end marker")
            return out
        if b < 0x80:
            lit = bytes(bs[i + 1:i + 1 + b])
            if len(lit) != b:
                raise ValueError("template: truncated literal")
            out.append(("lit", lit.decode("utf-8")))
            i += 1 + b
        elif b == 0x80:
            ln = bs[i + 1] | (bs[i + 2] << 8)
            lit = bytes(bs[i + 3:i + 3 + ln])
            out.append(("lit", lit.decode("utf-8")))
            i += 3 + ln
        elif b == 0xC0:
            out.append(("arg", argi))
            argi += 1
            i += 1
        else:
            raise ValueError("template: unsupported opcode 0x%02x" % b)
    raise ValueError("template: missing end marker")


def template_bytes(t):
    """Extract the byte template from the first argument term of Arguments::new."""
    t = strip(t)
    if t[0] in ("const", "named"):
        v = t[1] if t[0] == "const" else t[3]
        if isinstance(v, tuple) and v and v[0] in ("array", "slice"):
            return list(v[1])
        if isinstance(v, tuple) and v and v[0] == "bytes":
            return list(v[1])
    return None


def fmt_pieces(args_term):
    """Given the term of a core::fmt::Arguments value, return pieces:
    ("lit", s) | ("display", term) | ("debug", term).  None if not understood."""
    a = strip(args_term)
    if a[0] != "call":
        return None
    p = a[1]
    if p == "std::fmt::Arguments::<'a>::from_str":
        s0 = strip(a[2][0])
        if s0[0] == "const" and isinstance(s0[1], str):
            return [("lit", s0[1])]
        return None
    if p != "std::fmt::Arguments::<'a>::new":
        return None
    bs = template_bytes(a[2][0])
    if bs is None:
        return None
    tpl = decode_template(bs)
    arr = strip(a[2][1])
    if arr[0] != "agg":
        return None
    argterms = arr[2]
    out = []
    for piece in tpl:
        if piece[0] == "lit":
            out.append(piece)
        else:
            i = piece[1]
            if i >= len(argterms):
                return None
            at = strip(argterms[i])
            if at[0] != "call":
                return None
            if at[1] == "core::fmt::rt::Argument::<'_>::new_display":
                out.append(("display", at[2][0]))
            elif at[1] == "core::fmt::rt::Argument::<'_>::new_debug":
                out.append(("debug", at[2][0]))
            else:
                return None
    return out
