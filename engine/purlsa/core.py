"""purlsa.core -- facts loading, CFG, dominators, origin resolution, guards.

Everything here works on the JSON written by engine/driver (purl-mir).  Nothing
of the analysed crate is executed: bodies are graphs, values are symbolic terms.

Terms (nested tuples, hashable):
  ("arg", n)                       n-th argument local of the body (1-based)
  ("const", repr)                  literal constant (repr is a hashable python value)
  ("named", def, promoted, repr)   named/promoted constant with its evaluated value
  ("fn", path)                     function item
  ("call", path, (args...), site)  result of the call terminating block `site`
  ("ref", mut, t) ("deref", t) ("field", t, name) ("downcast", t, variant)
  ("index", t, i) ("discr", t) ("binop", op, a, b) ("unop", op, a)
  ("cast", kind, t) ("agg", what, (ops...)) ("closure", path, (upvars...))
  ("phi", (t...))                  several reaching definitions
  ("var", n, init)                 local whose storage is mutated in place (identity n, initial value init)
  ("local", n)                     local without a (unique) resolvable definition
  ("cycle", n)                     loop-carried dependency on local n
"""
import json


class AnchorError(Exception):
    """A construct the checker needs could not be found / interpreted (fail closed)."""

    def __init__(self, what, where=None):
        super().__init__(what)
        self.what = what
        self.where = where


def freeze(v):
    if isinstance(v, dict):
        return tuple(sorted((k, freeze(x)) for k, x in v.items()))
    if isinstance(v, list):
        return tuple(freeze(x) for x in v)
    return v


def const_repr(c):
    """Hashable python representation of a driver constant object."""
    k = c.get("k")
    if k == "fn":
        r = c.get("resolved")
        # the impl method a trait-method fn item resolves to (same convention as callee_name for direct calls)
        if r and r != c["path"] and not r.startswith("<T as ") and not r.startswith("<I as "):
            return ("fn", r)
        return ("fn", c["path"])
    v = c.get("v")
    return simplify_val(v)


def simplify_val(v):
    """Turn the driver's decoded memory values into plain python values."""
    if isinstance(v, (bool, int, str)) or v is None:
        return v
    if isinstance(v, dict):
        k = v.get("k")
        if k == "char":
            return ("char", v["v"])
        if k in ("ref",):
            return simplify_val(v["v"])
        if k in ("slice", "array", "tuple"):
            return (k, tuple(simplify_val(x) for x in v["v"]))
        if k == "bytes":
            return ("bytes", bytes(v["v"]))
        if k == "struct":
            return ("struct", v["path"], tuple((n, simplify_val(x)) for n, x in v["fields"].items()))
        if k == "enum":
            return ("enum", v["path"], v["variant"], tuple((n, simplify_val(x)) for n, x in v["fields"].items()))
        if k == "fn":
            return ("fn", v["path"])
        if k == "closure":
            return ("closure", v["path"])
        if k == "zst":
            return ("zst", v["ty"])
        return ("opaque", freeze(v))
    return ("opaque", repr(v))


def _cast_kind(rv):
    """cast kind; integer casts carry the target type (`IntToInt>u8`): a narrowing cast truncates, which matters to the
    character-set evaluation of `c as u8`"""
    k = rv["kind"]
    if k.startswith("IntToInt") and rv.get("ty") in ("u8", "u16", "u32", "u64", "usize", "i8", "i16", "i32", "i64", "isize", "u128", "i128", "char"):
        return "IntToInt>" + rv["ty"]
    return k


def _mentions(x, local):
    """does the rvalue / operand JSON mention `local` as the base of a place?"""
    if isinstance(x, dict):
        if "l" in x and "proj" in x and x["l"] == local:
            return True
        return any(_mentions(v, local) for v in x.values())
    if isinstance(x, list):
        return any(_mentions(v, local) for v in x)
    return False


class Body:
    def __init__(self, facts, key, j, ssa=True):
        self.facts = facts
        self.key = key
        self.j = j
        self.kind = j["kind"]
        self.blocks = j["blocks"]
        self.locals = j["locals"]
        self.arg_count = j["arg_count"]
        self.n = len(self.blocks)
        self.ssa_split = []
        self.threaded = 0
        self.rolled = 0
        self._raw = None
        self._reset()
        if ssa:
            self._split_reassigned()

    def _reset(self):
        self._succ = None
        self._pred = None
        self._dom = None
        self._pdom = None
        self._defs = None
        self._resolving = None
        self._mut = None
        self._ba = None
        self.__dict__.pop("_rl_cache", None)
        self.__dict__.pop("_pw", None)
        self.__dict__.pop("_assert_guard", None)

    def _split_reassigned(self):
        """normal form of the MIR used by every analysis: materialised booleans threaded (purlsa.thread), re-assigned user
        variables split into versions (purlsa.ssa).  Both are semantics-preserving; the compiler's MIR stays in self.j."""
        import copy
        private = False
        has_bool_store = False
        cnt = {}
        # `for x in it { acc.push(x) }` -> `acc.extend(it)` (purlsa.roll)
        has_next = has_push = False
        for bl in self.blocks:
            t = bl["term"]
            if t["t"] == "call" and not bl["cleanup"]:
                ce = t["callee"]
                if ce.get("item") == "next":
                    has_next = True
                pth = (ce.get("resolved") or {}).get("path") or ce.get("path") or ""
                if pth.endswith("::push"):
                    has_push = True
        if has_next and has_push:
            from . import roll
            self.blocks = copy.deepcopy(self.blocks)
            self.locals = copy.deepcopy(self.locals)
            private = True
            self._reset()
            self.rolled = roll.roll_push_loops(self)
            self._reset()
        for bl in self.blocks:
            if bl["cleanup"]:
                continue
            for st in bl["stmts"]:
                if st["s"] == "assign" and not st["place"]["proj"]:
                    l = st["place"]["l"]
                    cnt[l] = cnt.get(l, 0) + 1
                    if bl["term"]["t"] == "goto" and st["rv"]["r"] == "use" and st["rv"]["op"]["o"] == "const" and isinstance(st["rv"]["op"]["c"].get("v"), bool):
                        has_bool_store = True
                    if bl["term"]["t"] == "goto" and st["rv"]["r"] == "aggregate" and st["rv"].get("ak") == "adt" and st["rv"].get("variant") is not None:
                        has_bool_store = True  # a value of known variant is stored: a later match on it can be threaded
            t = bl["term"]
            if t["t"] == "call" and not t["dest"]["proj"]:
                cnt[t["dest"]["l"]] = cnt.get(t["dest"]["l"], 0) + 1
                if t["callee"].get("path") == "std::ops::FromResidual::from_residual":
                    has_bool_store = True
        if has_bool_store:
            from . import thread
            if not private:
                self.blocks = copy.deepcopy(self.blocks)
                self.locals = copy.deepcopy(self.locals)
            private = True
            self._reset()
            self.threaded = thread.thread_bools(self)
            self.n = len(self.blocks)
            self._reset()
        if not any(c >= 2 and l > self.arg_count for l, c in cnt.items()):
            self.ssa_split = ["<threaded>"] if private and (self.threaded or self.rolled) else []
            return
        from . import ssa
        if not ssa.candidates(self):
            self.ssa_split = ["<threaded>"] if private and (self.threaded or self.rolled) else []
            return
        if not private:
            self.blocks = copy.deepcopy(self.blocks)
            self.locals = copy.deepcopy(self.locals)
            self._reset()
        self.ssa_split = ssa.split_locals(self)
        self.n = len(self.blocks)
        self._reset()

    def raw_view(self):
        """the body exactly as the compiler produced it (no version splitting) -- used by the cross-configuration diff"""
        if not self.ssa_split:
            return self
        if self._raw is None:
            self._raw = Body(self.facts, self.key, self.j, ssa=False)
        return self._raw

    # ---------------------------------------------------------------- spans
    def file(self):
        sp = self.j.get("span") or {}
        return sp.get("file", "?")

    def line_of(self, bb):
        sp = self.blocks[bb].get("span") or {}
        return sp.get("line")

    def site(self, bb):
        return "%s:%s" % (self.blocks[bb].get("file") or self.file(), self.line_of(bb))

    def debug_name(self, local):
        for d in self.j["debug"]:
            v = d["val"]
            if "l" in v and v["l"] == local and not v["proj"]:
                return d["name"]
        return None

    def local_by_name(self, name):
        out = []
        for d in self.j["debug"]:
            v = d["val"]
            if d["name"] == name and "l" in v and not v["proj"]:
                out.append(v["l"])
        return out

    # ---------------------------------------------------------------- CFG
    def term(self, bb):
        return self.blocks[bb]["term"]

    def is_cleanup(self, bb):
        return self.blocks[bb]["cleanup"]

    def edges(self, bb, unwind=False):
        """[(label, target)] -- labels: 'goto', ('sw', value), 'otherwise', 'ret', 'unwind'."""
        t = self.term(bb)
        k = t["t"]
        out = []
        if k == "goto":
            out.append(("goto", t["target"]))
        elif k == "switch":
            for v, tg in t["arms"]:
                out.append((("sw", v), tg))
            out.append(("otherwise", t["otherwise"]))
        elif k in ("call", "drop", "assert"):
            if t.get("target") is not None:
                out.append(("ret", t["target"]))
            if unwind and isinstance(t.get("unwind"), int):
                out.append(("unwind", t["unwind"]))
        elif k == "other":
            pass
        return out

    def succs(self, bb, unwind=False):
        return [t for _, t in self.edges(bb, unwind)]

    def preds(self):
        if self._pred is None:
            p = [[] for _ in range(self.n)]
            for b in range(self.n):
                for s_ in self.succs(b):
                    p[s_].append(b)
            self._pred = p
        return self._pred

    def reachable_from(self, start, avoid=(), unwind=False):
        seen = set()
        st = [start] if start not in avoid else []
        while st:
            b = st.pop()
            if b in seen:
                continue
            seen.add(b)
            for s_ in self.succs(b, unwind):
                if s_ not in seen and s_ not in avoid:
                    st.append(s_)
        return seen

    def _bool_assigns(self):
        """block -> {local: value} for constant assignments to materialised bool locals"""
        if self._ba is not None:
            return self._ba
        mats = {}
        for b in range(self.n):
            mb = self.materialised_bool(b) if self.term(b)["t"] == "switch" else None
            if mb:
                mats[mb[0]] = mb[1]
        ba = {}
        for l, d in mats.items():
            for v, blocks in d.items():
                for b in blocks:
                    ba.setdefault(b, {})[l] = v
        self._ba = ba
        self._mats = mats
        return ba

    def reachable_feasible(self, start, avoid=()):
        """Like reachable_from, but a switch on a materialised bool only follows the edge that agrees with the value
        assigned on the path taken (prunes the infeasible half of `matches!` / `||` joins)."""
        ba = self._bool_assigns()
        if not ba:
            return self.reachable_from(start, avoid)
        seen = set()
        out = set()
        st = [(start, frozenset())] if start not in avoid else []
        while st:
            b, known = st.pop()
            if (b, known) in seen:
                continue
            seen.add((b, known))
            out.add(b)
            k = dict(known)
            k.update(ba.get(b, {}))
            mb = self.materialised_bool(b) if self.term(b)["t"] == "switch" else None
            for (lab, tg) in self.edges(b):
                if tg in avoid:
                    continue
                if mb is not None and mb[0] in k:
                    takes_true = lab == "otherwise" or (lab != "otherwise" and lab[1] != 0)
                    if takes_true != k[mb[0]]:
                        continue
                st.append((tg, frozenset(k.items())))
        return out

    def dominators(self):
        """dom[b] = set of blocks dominating b (normal edges only, entry bb0)."""
        if self._dom is not None:
            return self._dom
        reach = self.reachable_from(0)
        allb = set(reach)
        dom = {b: set(allb) for b in reach}
        dom[0] = {0}
        preds = self.preds()
        changed = True
        order = sorted(reach)
        while changed:
            changed = False
            for b in order:
                if b == 0:
                    continue
                ps = [p for p in preds[b] if p in reach]
                if not ps:
                    new = {b}
                else:
                    new = set.intersection(*[dom[p] for p in ps]) | {b}
                if new != dom[b]:
                    dom[b] = new
                    changed = True
        self._dom = dom
        return dom

    def dominates(self, a, b):
        d = self.dominators()
        return b in d and a in d[b]

    def exits(self):
        return [b for b in range(self.n) if self.term(b)["t"] == "return"]

    def back_edges(self):
        out = []
        dom = self.dominators()
        for b in dom:
            for s_ in self.succs(b):
                if s_ in dom[b]:
                    out.append((b, s_))
        return out

    def loops(self):
        """natural loops: {header: set(blocks)}"""
        preds = self.preds()
        loops = {}
        for (tail, head) in self.back_edges():
            body = {head, tail}
            st = [tail]
            while st:
                x = st.pop()
                if x == head:
                    continue
                for p in preds[x]:
                    if p not in body and p in self.dominators():
                        body.add(p)
                        st.append(p)
            loops.setdefault(head, set()).update(body)
        return loops

    def in_loop(self, bb):
        return any(bb in blk for blk in self.loops().values())

    # ---------------------------------------------------------------- defs
    def defs(self):
        """local -> list of (bb, idx|'term', kind, payload) for FULL definitions."""
        if self._defs is not None:
            return self._defs
        d = {}
        for b, bl in enumerate(self.blocks):
            for i, st in enumerate(bl["stmts"]):
                if st["s"] == "assign" and not st["place"]["proj"]:
                    d.setdefault(st["place"]["l"], []).append((b, i, "rv", st["rv"]))
            t = bl["term"]
            if t["t"] == "call" and not t["dest"]["proj"]:
                d.setdefault(t["dest"]["l"], []).append((b, "term", "call", t))
        self._defs = d
        return d

    def partial_writes(self, local):
        out = []
        for b, bl in enumerate(self.blocks):
            for i, st in enumerate(bl["stmts"]):
                if st["s"] in ("assign", "setdiscr") and st["place"]["l"] == local and st["place"]["proj"]:
                    out.append((b, i, st))
            t = bl["term"]
            if t["t"] == "call" and t["dest"]["l"] == local and t["dest"]["proj"]:
                out.append((b, "term", t))
        return out

    # ---------------------------------------------------------------- origin
    def mut_locals(self):
        """locals whose own storage is mutably borrowed or partially written:
        they get a stable identity ("var", n, init) instead of their initial value."""
        if self._mut is not None:
            return self._mut
        m = set()
        for b, bl in enumerate(self.blocks):
            for st in bl["stmts"]:
                if st["s"] == "assign":
                    rv = st["rv"]
                    if rv["r"] in ("ref", "rawptr") and (rv["bk"] == "mut" or "Mut" in rv["bk"]):
                        pl = rv["place"]
                        if not any(p["p"] == "deref" for p in pl["proj"]):
                            m.add(pl["l"])
                    if st["place"]["proj"] and not any(p["p"] == "deref" for p in st["place"]["proj"]):
                        m.add(st["place"]["l"])
                elif st["s"] == "setdiscr":
                    m.add(st["place"]["l"])
            t = bl["term"]
            if t["t"] == "call" and t["dest"]["proj"] and not any(p["p"] == "deref" for p in t["dest"]["proj"]):
                m.add(t["dest"]["l"])
        self._mut = m
        return m

    def resolve_local(self, local, _stack=None):
        t = self._resolve_local(local, _stack)
        if local in self.mut_locals() and t[0] not in ("arg", "cycle"):
            if local in self.partially_written():
                return ("var", local, t, "pw")     # some field is assigned directly: the initial value is not the whole story
            return ("var", local, t)
        return t

    def partially_written(self):
        """locals one of whose fields is assigned directly (`x.f = ..`, not through a `&mut` borrow)"""
        pw = self.__dict__.get("_pw")
        if pw is None:
            pw = set()
            for bl in self.blocks:
                for st in bl["stmts"]:
                    if st["s"] == "assign" and st["place"]["proj"] and not any(p["p"] == "deref" for p in st["place"]["proj"]):
                        pw.add(st["place"]["l"])
                t_ = bl["term"]
                if t_["t"] == "call" and t_["dest"]["proj"] and not any(p["p"] == "deref" for p in t_["dest"]["proj"]):
                    pw.add(t_["dest"]["l"])
            self.__dict__["_pw"] = pw
        return pw

    def _resolve_local(self, local, _stack=None):
        # memoised when the term is closed (contains no cycle marker, whose meaning depends on the resolution stack)
        cache = self.__dict__.setdefault("_rl_cache", {})
        if local in cache:
            return cache[local]
        c0 = self.__dict__.get("_cycle_hits", 0)
        t = self._resolve_local_uncached(local, _stack)
        if self.__dict__.get("_cycle_hits", 0) == c0:
            cache[local] = t
        return t

    def _resolve_local_uncached(self, local, _stack=None):
        if _stack is None:
            _stack = ()
        if local in _stack:
            self.__dict__["_cycle_hits"] = self.__dict__.get("_cycle_hits", 0) + 1
            return ("cycle", local)
        if 1 <= local <= self.arg_count:
            # arguments may be reassigned, but not in this code base's MIR; check
            if local not in self.defs():
                return ("arg", local)
        ds = [d for d in self.defs().get(local, []) if not self.is_cleanup(d[0])]
        if not ds:
            if 1 <= local <= self.arg_count:
                return ("arg", local)
            return ("local", local)
        st = _stack + (local,)
        terms = []
        for (b, i, kind, payload) in ds:
            if kind == "call":
                terms.append(self._call_term(b, payload, st))
            else:
                terms.append(self._rv_term(payload, st))
        if 1 <= local <= self.arg_count:
            terms.insert(0, ("arg", local))
        if len(terms) == 1:
            return terms[0]
        # dedupe
        uniq = []
        for t in terms:
            if t not in uniq:
                uniq.append(t)
        if len(uniq) == 1:
            return uniq[0]
        return ("phi", tuple(uniq))

    def _call_term(self, bb, t, st=()):
        ce = t["callee"]
        if "path" in ce:
            path = callee_name(ce)
        else:
            path = ("indirect", self.resolve_operand(ce["indirect"], st))
        args = tuple(self.resolve_operand(a, st) for a in t["args"])
        if ce.get("item") == "next" and len(args) == 1:
            pos = self.cursor_positions().get(bb)
            if pos is not None:
                # the k-th read of a case-mapping iterator that is only ever read in a fixed order: a pure function of
                # the mapped character and k
                args = (("nth", self._resolve_local(pos[0], st), pos[1]),)
        return ("call", path, args, bb)

    CURSOR_SOURCES = ("std::char::methods::<impl char>::to_lowercase", "std::char::methods::<impl char>::to_uppercase")

    def cursor_positions(self):
        """{block of a `next` call: (iterator local, k)} for iterator locals that are created once from a char case
        mapping and then only advanced by `next` calls which dominance orders totally, outside loops: the k-th of them
        always yields element k of the mapping."""
        if "_cursor_pos" in self.__dict__:
            return self._cursor_pos
        out = {}
        self._cursor_pos = out
        in_loop = set()
        for h, blk in self.loops().items():
            in_loop |= set(blk)
        for L, ds in self.defs().items():
            ds = [d for d in ds if not self.is_cleanup(d[0])]
            if len(ds) != 1 or ds[0][2] != "call" or ds[0][0] in in_loop:
                continue
            if callee_name(ds[0][3]["callee"]) not in self.CURSOR_SOURCES if "path" in ds[0][3]["callee"] else True:
                continue
            nexts = []
            ok = True
            for b, bl in enumerate(self.blocks):
                if bl["cleanup"] or bl.get("dead"):
                    continue
                borrows = set()
                for st_ in bl["stmts"]:
                    if st_.get("s") != "assign":
                        if st_.get("s") == "setdiscr" and st_["place"]["l"] == L:
                            ok = False
                        continue
                    rv = st_["rv"]
                    if st_["place"]["l"] == L:
                        ok = False
                    elif rv["r"] == "ref" and rv["place"]["l"] == L:
                        if rv["bk"] == "mut" and not rv["place"]["proj"] and not st_["place"]["proj"]:
                            borrows.add(st_["place"]["l"])
                        else:
                            ok = False
                    elif _mentions(rv, L):
                        ok = False
                t = bl["term"]
                if t["t"] == "call":
                    uses = [a for a in t["args"] if a.get("o") in ("copy", "move") and a["place"]["l"] in borrows]
                    direct = [a for a in t["args"] if a.get("o") in ("copy", "move") and a["place"]["l"] == L]
                    if direct or (t["dest"]["l"] == L and b != ds[0][0]):
                        ok = False
                    if uses:
                        if t["callee"].get("item") == "next" and len(t["args"]) == 1 and b not in in_loop:
                            nexts.append(b)
                        else:
                            ok = False
                    elif borrows:
                        ok = False
                elif borrows:
                    ok = False
                elif t["t"] == "switch" and t["discr"].get("place", {}).get("l") == L:
                    ok = False
            if not ok or not nexts:
                continue
            # total order by dominance
            nexts.sort(key=lambda b: len(self.dominators().get(b, ())))
            if all(self.dominates(nexts[i], nexts[i + 1]) for i in range(len(nexts) - 1)):
                for k, b in enumerate(nexts):
                    out[b] = (L, k)
        return out

    def call_term(self, bb):
        return self._call_term(bb, self.term(bb))

    def _rv_term(self, rv, st=()):
        r = rv["r"]
        if r == "use":
            return self.resolve_operand(rv["op"], st)
        if r == "ref":
            return ("ref", rv["bk"] == "mut", self.resolve_place(rv["place"], st))
        if r == "rawptr":
            return ("ref", "Mut" in rv["bk"], self.resolve_place(rv["place"], st))
        if r == "cast":
            return ("cast", _cast_kind(rv), self.resolve_operand(rv["op"], st))
        if r == "binop":
            return ("binop", rv["bop"], self.resolve_operand(rv["a"], st), self.resolve_operand(rv["b"], st))
        if r == "unop":
            return ("unop", rv["uop"], self.resolve_operand(rv["a"], st))
        if r == "discr":
            return ("discr", self.resolve_place(rv["place"], st), tuple(rv.get("variants", ())))
        if r == "aggregate":
            ops = tuple(self.resolve_operand(o, st) for o in rv["ops"])
            ak = rv["ak"]
            if ak == "adt":
                return ("agg", ("adt", rv["path"], rv["variant"], tuple(rv.get("fields", []))), ops)
            if ak == "closure":
                return ("closure", rv["path"], ops)
            return ("agg", (ak,), ops)
        if r == "repeat":
            return ("agg", ("repeat", rv["n"]), (self.resolve_operand(rv["op"], st),))
        return ("unknown", rv.get("dbg", r))

    def resolve_operand(self, op, st=()):
        o = op["o"]
        if o in ("copy", "move"):
            return self.resolve_place(op["place"], st)
        if o == "const":
            return const_term(op["c"])
        return ("unknown", op.get("dbg", o))

    def resolve_place(self, place, st=()):
        t = self.resolve_local(place["l"], st)
        for p in place["proj"]:
            t = apply_proj(t, p, self, st)
        return t

    def operand_local(self, op):
        if op["o"] in ("copy", "move") and not op["place"]["proj"]:
            return op["place"]["l"]
        return None

    # ---------------------------------------------------------------- calls
    def calls(self, include_cleanup=False):
        for b, bl in enumerate(self.blocks):
            t = bl["term"]
            if t["t"] == "call" and (include_cleanup or not bl["cleanup"]):
                yield b, t

    def calls_to(self, pred, include_cleanup=False):
        for b, t in self.calls(include_cleanup):
            ce = t["callee"]
            if "path" in ce and pred(ce):
                yield b, t

    # ---------------------------------------------------------------- guards
    def switch_cond(self, bb):
        """(term, edges) for a switch block: the resolved discriminant term."""
        t = self.term(bb)
        assert t["t"] == "switch"
        return self.resolve_operand(t["discr"])

    def materialised_bool(self, bb):
        """If block bb switches on a bool local that only ever holds constants assigned on the joining paths
        (what `matches!`, `a || b` in a let, ... compile to) -- and that is not a drop flag (drop flags are
        initialised in the entry block) -- return (local, {True: [def blocks], False: [def blocks]})."""
        t = self.term(bb)
        if t["t"] != "switch":
            return None
        op = t["discr"]
        if op["o"] not in ("copy", "move") or op["place"]["proj"]:
            return None
        l = op["place"]["l"]
        for _ in range(3):
            ds = [d for d in self.defs().get(l, []) if not self.is_cleanup(d[0])]
            if len(ds) == 1 and ds[0][2] == "rv" and ds[0][3]["r"] == "use" and ds[0][3]["op"]["o"] in ("copy", "move") and not ds[0][3]["op"]["place"]["proj"]:
                l = ds[0][3]["op"]["place"]["l"]
            else:
                break
        ds = [d for d in self.defs().get(l, []) if not self.is_cleanup(d[0])]
        if len(ds) < 2 or self.locals[l]["ty"] != "bool":
            return None
        out = {True: [], False: []}
        for (b, i, kind, payload) in ds:
            if kind != "rv" or payload["r"] != "use" or payload["op"]["o"] != "const":
                return None
            v = payload["op"]["c"].get("v")
            if not isinstance(v, bool):
                return None
            if b == 0:
                return None  # drop flag
            out[v].append(b)
        return (l, out)

    def guards(self, site_bb, _depth=0):
        """Branch conditions that hold on every path from entry to site_bb.

        Returns a list of (bb, cond_term, outcome) where outcome is
        ('eq', value) or ('ne', (values...)) for the discriminant of the switch
        terminating the dominating block bb.  A switch block contributes only
        if exactly one of its outgoing edge *targets* can reach the site without
        passing through bb again.
        """
        out = []
        dom = self.dominators()
        if site_bb not in dom:
            return out
        for d in sorted(dom[site_bb]):
            t = self.term(d)
            if t["t"] != "switch":
                continue
            if d == site_bb:
                continue
            reaching = []
            for (lab, tg) in self.edges(d):
                if tg == site_bb or site_bb in self.reachable_from(tg, avoid={d}):
                    reaching.append((lab, tg))
            labs = set(l for l, _ in reaching)
            tgts = set(tg for _, tg in reaching)
            if len(tgts) != 1:
                continue
            cond = self.resolve_operand(t["discr"])
            all_labels = [l for l, _ in self.edges(d)]
            # all edges going to that single target
            tg = next(iter(tgts))
            labs = [l for l, x in self.edges(d) if x == tg]
            mb = self.materialised_bool(d)
            if mb is not None and _depth < 4:
                # the branch only replays a condition decided on the way here: the guards are those of the
                # (unique) block that assigned the value this edge needs
                need = None
                if labs == [("sw", 0)]:
                    need = False
                elif "otherwise" in labs and [l for l, x in self.edges(d) if x != tg] == [("sw", 0)]:
                    need = True
                if need is not None and len(mb[1][need]) == 1:
                    for g in self.guards(mb[1][need][0], _depth + 1):
                        if g not in out:
                            out.append(g)
                continue
            if "otherwise" in labs:
                excluded = tuple(v for (l, x) in self.edges(d) if l != "otherwise" and x != tg for v in [l[1]])
                out.append((d, cond, ("ne", excluded)))
            elif len(labs) == 1:
                out.append((d, cond, ("eq", labs[0][1])))
            else:
                out.append((d, cond, ("in", tuple(l[1] for l in labs))))
        return out

    def edge_guards(self, frm, to):
        """condition for taking the edge frm->to (if frm is a switch)."""
        t = self.term(frm)
        if t["t"] != "switch":
            return None
        cond = self.resolve_operand(t["discr"])
        labs = [l for l, x in self.edges(frm) if x == to]
        if not labs:
            return None
        if "otherwise" in labs:
            excluded = tuple(l[1] for (l, x) in self.edges(frm) if l != "otherwise" and x != to)
            return (cond, ("ne", excluded))
        if len(labs) == 1:
            return (cond, ("eq", labs[0][1]))
        return (cond, ("in", tuple(l[1] for l in labs)))

    # ---------------------------------------------------------------- paths
    def acyclic_paths(self, start, stops, avoid_back=True, limit=20000):
        """Enumerate simple paths from start until a block in `stops` or an exit."""
        out = []
        stack = [(start, (start,))]
        while stack:
            b, path = stack.pop()
            if b in stops and len(path) > 1 or (b in stops and b != start):
                out.append(path)
                continue
            ss = self.succs(b)
            if not ss:
                out.append(path)
                continue
            for s_ in ss:
                if s_ in path and s_ not in stops:
                    continue
                if s_ in path and s_ in stops:
                    out.append(path + (s_,))
                    continue
                stack.append((s_, path + (s_,)))
                if len(out) + len(stack) > limit:
                    raise AnchorError("path explosion in %s" % self.key)
        return out


def callee_name(ce):
    """Canonical name of a callee: the resolved impl path if resolution succeeded
    to something more specific, otherwise the (trait) path."""
    r = ce.get("resolved")
    if r and r["path"] != ce["path"] and not r["path"].startswith("<T as ") and not r["path"].startswith("<I as "):
        return r["path"]
    return ce["path"]


def const_term(c):
    k = c.get("k")
    if k == "fn":
        r = c.get("resolved")
        # the impl method a trait-method fn item resolves to (same convention as callee_name for direct calls)
        if r and r != c["path"] and not r.startswith("<T as ") and not r.startswith("<I as "):
            return ("fn", r)
        return ("fn", c["path"])
    if k == "unevaluated":
        return ("named", c["def"], c.get("promoted"), const_repr(c))
    v = c.get("v")
    return ("const", simplify_val(v))


BOTTOM = ("bottom",)


def mkphi(ts):
    """phi of the feasible alternatives: BOTTOM arms (a downcast to a variant the value was not built with) are dropped."""
    uniq = []
    for t in ts:
        if t == BOTTOM:
            continue
        if t[0] == "phi":
            for x in t[1]:
                if x not in uniq:
                    uniq.append(x)
        elif t not in uniq:
            uniq.append(t)
    if not uniq:
        return BOTTOM
    if len(uniq) == 1:
        return uniq[0]
    return ("phi", tuple(uniq))


def apply_proj(t, p, body=None, st=()):
    k = p["p"]
    if t == BOTTOM:
        return BOTTOM
    if k == "deref":
        if t[0] == "ref":
            return t[2]
        return ("deref", t)
    if k == "field":
        name = p["name"]
        if t[0] == "agg":
            what, ops = t[1], t[2]
            if what[0] == "adt":
                fields = what[3]
                if name in fields:
                    return ops[fields.index(name)]
            i = p["i"]
            if what[0] in ("tuple", "array") and i < len(ops):
                return ops[i]
        if t[0] == "closure":
            i = p["i"]
            if i < len(t[2]):
                return t[2][i]
        if t[0] == "var" and len(t) > 2 and isinstance(t[2], tuple) and t[2] and t[2][0] == "closure":
            # the captures of a closure value are fixed when it is built (calling an FnMut borrows it mutably, but the
            # captured references themselves are not re-seated by safe code)
            i = p["i"]
            if i < len(t[2][2]):
                return t[2][2][i]
        if t[0] == "phi":
            return mkphi(apply_proj(x, p, body, st) for x in t[1])
        return ("field", t, name)
    if k == "downcast":
        if t[0] == "phi":
            return mkphi(apply_proj(x, p, body, st) for x in t[1])
        if t[0] == "agg" and t[1][0] == "adt" and t[1][2] == p["name"]:
            return t  # (Variant{..} as Variant) -- the following field projection picks the operand
        if t[0] == "agg" and t[1][0] == "adt" and t[1][2] is not None:
            # a value built as another variant never reaches a downcast to this one: safe MIR downcasts only under a
            # discriminant test, so this alternative is infeasible at the use
            return BOTTOM
        return ("downcast", t, p["name"])
    if k == "index":
        idx = body.resolve_local(p["local"], st) if body is not None else ("local", p["local"])
        return ("index", t, idx)
    if k == "constindex":
        return ("index", t, ("const", p["offset"]))
    return ("proj", t, k)


def strip(t, keep_var=True):
    """Remove reference / deref / pointer-cast / Deref::deref / AsRef / Borrow / identity-Into layers."""
    while True:
        if t[0] == "ref":
            t = t[2]
        elif t[0] == "var" and keep_var is False:
            t = t[2]
        elif t[0] == "deref":
            t = t[1]
        elif t[0] == "cast" and ("Pointer" in t[1] or "PtrToPtr" in t[1] or "Unsize" in t[1] or "Transmute" in t[1]):
            t = t[2]
        elif t[0] == "call" and is_transparent_call(t[1]) and len(t[2]) >= 1:
            t = t[2][0]
        else:
            return t


TRANSPARENT = (
    "std::ops::Deref::deref",
    "std::ops::DerefMut::deref_mut",
    "std::convert::AsRef::as_ref",
    "std::borrow::Borrow::borrow",
    "std::hint::must_use",
)


# `s.as_mut_str()`: the explicit spelling of `&mut *s` (DerefMut) for the string types
MUT_STR_VIEWS = ("std::string::String::as_mut_str", "smartstring::SmartString::<Mode>::as_mut_str")


def is_transparent_call(path):
    if not isinstance(path, str):
        return False
    if path in TRANSPARENT:
        return True
    # resolved Deref impls of string-like and vec types: views of the same value
    if path.endswith("as std::ops::Deref>::deref") or path.endswith("as std::ops::DerefMut>::deref_mut"):
        return True
    if path.endswith("as std::convert::AsRef<str>>::as_ref"):
        return True
    if path in ("smartstring::SmartString::<Mode>::as_str", "std::string::String::as_str", "qualifiers::QualifierKey::as_str"):
        return True
    if path in MUT_STR_VIEWS:
        return True
    return False


def show(t, depth=0):
    """Human readable rendering of a term."""
    if depth > 12:
        return "..."
    k = t[0]
    d = depth + 1
    if k == "arg":
        return "arg%d" % t[1]
    if k == "const":
        return show_val(t[1])
    if k == "named":
        return t[1] if t[2] is None else "%s::promoted[%s]=%s" % (t[1], t[2], show_val(t[3]))
    if k == "fn":
        return "fn %s" % t[1]
    if k == "call":
        p = t[1] if isinstance(t[1], str) else "<indirect>"
        return "%s(%s)" % (short(p), ", ".join(show(a, d) for a in t[2]))
    if k == "ref":
        return ("&mut " if t[1] else "&") + show(t[2], d)
    if k == "deref":
        return "*" + show(t[1], d)
    if k == "field":
        return "%s.%s" % (show(t[1], d), t[2])
    if k == "downcast":
        return "(%s as %s)" % (show(t[1], d), t[2])
    if k == "index":
        return "%s[%s]" % (show(t[1], d), show(t[2], d))
    if k == "discr":
        return "discr(%s)" % show(t[1], d)
    if k == "binop":
        return "(%s %s %s)" % (show(t[2], d), t[1], show(t[3], d))
    if k == "unop":
        return "%s(%s)" % (t[1], show(t[2], d))
    if k == "cast":
        return "cast<%s>(%s)" % (t[1], show(t[2], d))
    if k == "agg":
        w = t[1]
        name = "%s::%s" % (short(w[1]), w[2]) if w[0] == "adt" else w[0]
        return "%s{%s}" % (name, ", ".join(show(a, d) for a in t[2]))
    if k == "closure":
        return "closure %s[%s]" % (short(t[1]), ", ".join(show(a, d) for a in t[2]))
    if k == "phi":
        return "phi(%s)" % " | ".join(show(a, d) for a in t[1])
    if k == "var":
        return "var_%d" % t[1]
    if k == "local":
        return "_%d" % t[1]
    if k == "cycle":
        return "cycle(_%d)" % t[1]
    return repr(t)


def short(p):
    return p


def show_val(v):
    if isinstance(v, tuple) and v and v[0] == "char":
        c = v[1]
        return repr(chr(c)) if 0x20 <= c < 0x7F else "'\\u{%x}'" % c
    if isinstance(v, tuple) and v and v[0] in ("slice", "array", "tuple"):
        return "[" + ", ".join(show_val(x) for x in v[1]) + "]"
    if isinstance(v, str):
        return json.dumps(v)
    return repr(v)


def _normalise_discriminants(j):
    """Make `switch discr(x)` test variant *indices*: for enums with explicit discriminant values (core::cmp::Ordering
    is -1/0/1) the extractor records the values next to the variant names; the arm values of the switch that tests such a
    discriminant are translated to indices once, here, so that every consumer can index `variants` with them."""
    if j.get("_discr_normalised"):
        return
    for b in j["bodies"].values():
        dl = {}
        for bl in b["blocks"]:
            for st in bl["stmts"]:
                if st.get("s") == "assign" and not st["place"]["proj"] and st["rv"].get("r") == "discr" and st["rv"].get("discrs") is not None:
                    ds = st["rv"]["discrs"]
                    if ds != list(range(len(ds))):
                        dl[st["place"]["l"]] = ds
        if not dl:
            continue
        for bl in b["blocks"]:
            t = bl["term"]
            if t.get("t") == "switch" and t["discr"].get("o") in ("copy", "move") and not t["discr"]["place"]["proj"] and t["discr"]["place"]["l"] in dl:
                ds = dl[t["discr"]["place"]["l"]]
                bits = {"i8": 8, "u8": 8, "i16": 16, "u16": 16, "i32": 32, "u32": 32, "i64": 64, "u64": 64, "isize": 64, "usize": 64, "i128": 128, "u128": 128}.get(t.get("discr_ty"), 128)
                mask = (1 << bits) - 1
                norm_ds = [d & mask for d in ds]
                new = []
                for (v, tg) in t["arms"]:
                    vv = v & mask
                    new.append([norm_ds.index(vv) if vv in norm_ds else -1 - len(new), tg])
                t["arms"] = new
                t["discr_remapped"] = True
    j["_discr_normalised"] = True


class Facts:
    def __init__(self, j, path=None):
        _normalise_discriminants(j)
        self.j = j
        self.path = path
        self.features = j["features"]
        self.bodies = {k: Body(self, k, b) for k, b in j["bodies"].items()}
        self.fns = j["fns"]
        self.consts = j["consts"]
        self.adts = j["adts"]
        self.impls = j["impls"]
        self.traits = j["traits"]
        self.aliases = j.get("aliases", {})

    @staticmethod
    def load(path):
        from . import canon_names
        with open(path) as f:
            j = json.load(f)
        j, ren = canon_names.canonicalise(j)   # private helpers under the keys the rules use, whatever they are called
        fx = Facts(j, path)
        fx.renamed = ren
        return fx

    def body(self, key):
        if key not in self.bodies:
            raise AnchorError("body not found: %s" % key)
        return self.bodies[key]

    def find_fns(self, **kw):
        """Find fn keys by facts: name=, impl_trait_def=, impl_self_prefix=, impl_self=, derived="""
        out = []
        for k, f in self.fns.items():
            ok = True
            for a, v in kw.items():
                if a == "impl_self_prefix":
                    if not f.get("impl_self", "").startswith(v):
                        ok = False
                elif a == "inherent":
                    if v and (("impl" not in f) or ("impl_trait" in f)):
                        ok = False
                elif f.get(a) != v:
                    ok = False
                if not ok:
                    break
            if ok:
                out.append(k)
        return out

    def one_fn(self, **kw):
        r = self.find_fns(**kw)
        if len(r) != 1:
            raise AnchorError("expected exactly one fn for %r, found %d: %r" % (kw, len(r), r))
        return r[0]

    def closures_of(self, key):
        return [k for k, b in self.bodies.items() if b.kind == "closure" and b.j.get("root") == key]

    def const_value(self, key):
        if key not in self.consts:
            raise AnchorError("const not found: %s" % key)
        return simplify_val(self.consts[key]["v"])

    def lib_body_keys(self):
        return list(self.bodies.keys())

    # call graph over local bodies
    def callgraph(self):
        g = {}
        for k, b in self.bodies.items():
            outs = set()
            for bb, t in b.calls(include_cleanup=True):
                ce = t["callee"]
                if "path" not in ce:
                    continue
                for cand in (callee_name(ce), ce["path"]):
                    if cand in self.bodies:
                        outs.add(cand)
            # closures constructed here
            for bl in b.blocks:
                for st in bl["stmts"]:
                    if st["s"] == "assign" and st["rv"]["r"] == "aggregate" and st["rv"].get("ak") == "closure":
                        if st["rv"]["path"] in self.bodies:
                            outs.add(st["rv"]["path"])
            g[k] = outs
        return g

    def reachable_bodies(self, roots):
        g = self.callgraph()
        seen = set()
        st = list(roots)
        while st:
            k = st.pop()
            if k in seen or k not in g:
                continue
            seen.add(k)
            st.extend(g[k])
        return seen

    def sccs(self):
        g = self.callgraph()
        index = {}
        low = {}
        onstack = set()
        stack = []
        out = []
        counter = [0]
        import sys
        sys.setrecursionlimit(10000)

        def strong(v):
            index[v] = low[v] = counter[0]
            counter[0] += 1
            stack.append(v)
            onstack.add(v)
            for w in g.get(v, ()):
                if w not in index:
                    strong(w)
                    low[v] = min(low[v], low[w])
                elif w in onstack:
                    low[v] = min(low[v], index[w])
            if low[v] == index[v]:
                comp = []
                while True:
                    w = stack.pop()
                    onstack.discard(w)
                    comp.append(w)
                    if w == v:
                        break
                out.append(comp)

        for v in g:
            if v not in index:
                strong(v)
        return out
