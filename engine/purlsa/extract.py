"""Run the purl-mir driver over /repo's current working tree (one feature set per call)."""
import fcntl
import glob
import os
import shutil
import subprocess
import sys
import time

from .core import AnchorError, Facts

VERIF = os.path.dirname(os.path.dirname(os.path.dirname(os.path.abspath(__file__))))
CACHE = os.path.join(VERIF, ".cache")
DRIVER_SRC = os.path.join(VERIF, "engine", "driver")
DRIVER_TARGET = os.path.join(CACHE, "driver-target")
DRIVER_BIN = os.path.join(DRIVER_TARGET, "release", "purl-mir")

FEATURE_SETS = {
    "default": [],
    "pt": ["--no-default-features", "--features", "package-type"],
    "none": ["--no-default-features"],
    "serde": ["--features", "serde"],
}

_sysroot = None


def sysroot():
    global _sysroot
    if _sysroot is None:
        _sysroot = subprocess.check_output(["rustc", "+nightly", "--print", "sysroot"], text=True).strip()
    return _sysroot


def base_env():
    env = dict(os.environ)
    env["CARGO_NET_OFFLINE"] = "true"
    env["LD_LIBRARY_PATH"] = os.path.join(sysroot(), "lib") + (":" + env["LD_LIBRARY_PATH"] if env.get("LD_LIBRARY_PATH") else "")
    env.pop("RUSTC_WRAPPER", None)
    return env


def build_driver(force=False):
    os.makedirs(CACHE, exist_ok=True)
    lock = open(os.path.join(CACHE, "driver.lock"), "w")
    fcntl.flock(lock, fcntl.LOCK_EX)
    try:
        src_m = max(os.path.getmtime(p) for p in glob.glob(os.path.join(DRIVER_SRC, "src", "*.rs")) + [os.path.join(DRIVER_SRC, "Cargo.toml")])
        if not force and os.path.exists(DRIVER_BIN) and os.path.getmtime(DRIVER_BIN) >= src_m:
            return DRIVER_BIN
        env = base_env()
        env["CARGO_TARGET_DIR"] = DRIVER_TARGET
        r = subprocess.run(["cargo", "+nightly", "build", "--release", "--offline"], cwd=DRIVER_SRC, env=env, capture_output=True, text=True)
        if r.returncode != 0 or not os.path.exists(DRIVER_BIN):
            sys.stderr.write(r.stdout + r.stderr)
            raise AnchorError("driver build failed")
        return DRIVER_BIN
    finally:
        fcntl.flock(lock, fcntl.LOCK_UN)
        lock.close()


def extract(fs="default", repo="/repo", crate="purl", pkg_args=None, out_dir=None, quiet=True):
    """Re-analyse `crate` from `repo`'s working tree under feature set `fs`; returns Facts."""
    drv = build_driver()
    flags = FEATURE_SETS[fs] if pkg_args is None else pkg_args
    tag = fs  # registry dependencies are shared between /repo and scratch copies of it
    tdir = os.path.join(CACHE, "target-" + tag)
    os.makedirs(tdir, exist_ok=True)
    run_dir = out_dir or os.path.join(CACHE, "run", str(os.getpid()))
    os.makedirs(run_dir, exist_ok=True)
    out = os.path.join(run_dir, "facts.%s.%s.json" % (crate, fs))
    if os.path.exists(out):
        os.remove(out)
    lock = open(os.path.join(CACHE, "target-%s.lock" % tag), "w")
    fcntl.flock(lock, fcntl.LOCK_EX)
    t0 = time.time()
    try:
        # cargo's freshness check would skip the wrapper on an unchanged tree:
        # forget the target crate's fingerprint so that it is always re-analysed.
        for p in glob.glob(os.path.join(tdir, "debug", ".fingerprint", crate.replace("_", "-") + "-*")):
            shutil.rmtree(p, ignore_errors=True)
        env = base_env()
        env["RUSTFLAGS"] = "-Zmir-opt-level=0 -Awarnings"
        env["RUSTC_WORKSPACE_WRAPPER"] = drv
        env["PURL_MIR_OUT"] = out
        env["PURL_MIR_CRATE"] = crate
        env["CARGO_TARGET_DIR"] = tdir
        cmd = ["cargo", "+nightly", "check", "-p", crate, "--lib", "--offline"] + flags
        r = subprocess.run(cmd, cwd=repo, env=env, capture_output=True, text=True)
        if r.returncode != 0:
            if not quiet:
                sys.stderr.write(r.stderr)
            raise AnchorError("cargo check failed for feature set %s:\n%s" % (fs, r.stderr[-3000:]))
        if not os.path.exists(out):
            raise AnchorError("driver wrote no facts for feature set %s (wrapper skipped?)\n%s" % (fs, r.stderr[-2000:]))
    finally:
        fcntl.flock(lock, fcntl.LOCK_UN)
        lock.close()
    f = Facts.load(out)
    f.fs = fs
    f.extract_s = time.time() - t0
    f.repo = repo
    return f


def cleanup_run_dir():
    shutil.rmtree(os.path.join(CACHE, "run", str(os.getpid())), ignore_errors=True)


def lock_versions(repo="/repo"):
    """name -> version from Cargo.lock (for the evidence's assumptions)."""
    out = {}
    name = None
    try:
        for line in open(os.path.join(repo, "Cargo.lock")):
            line = line.strip()
            if line.startswith("name = "):
                name = line.split('"')[1]
            elif line.startswith("version = ") and name:
                out[name] = line.split('"')[1]
                name = None
    except OSError:
        pass
    return out
