"""purlsa.thread -- jump threading of values whose shape is known where they are stored (a CFG normalisation, DESIGN.md 2.2).

`a || b` bound to a variable, `matches!(..)`, a closure or helper returning a condition, a helper returning `Ok(..)` /
`Err(..)` / an enum value that its caller immediately matches on (`helper(x)?`): the compiler (or the inliner) stores a
value of known shape into a local on the deciding paths, joins the paths, and branches on the local afterwards.  The branch
only replays what the paths already decided.  This pass re-routes every path that stores a value of *known* shape directly
to the target the later branch takes for that shape, duplicating the straight-line statements (and the pure `?` plumbing
calls) in between -- the textbook jump-threading / tail-duplication optimisation.  It preserves semantics exactly: every
statement of the original path is still executed in the same order, only the re-test is skipped.  Afterwards the condition
is visible to the guard analysis as ordinary branching, and every `?` of an inlined helper has its own error exit again.

What is known about a local:  True / False (constant store);  ("variant", Name) (an ADT aggregate was stored; the result
of FromResidual::from_residual is the failure variant of its Result / Option type; Try::branch maps Ok/Some to Continue and
Err/None to Break);  an integer (the discriminant read from a local of known variant).

Conservative limits: the duplicated path consists of non-cleanup blocks that are not loop headers; a local that also
receives values inside a loop which the test is not part of (a state variable set while scanning and matched after the
loop) is left to the loop analyses; ending in `goto`, in a
call of Try::branch / FromResidual::from_residual, or in the switch to be resolved; at most MAX_BLOCKS blocks and
MAX_STMTS statements are duplicated per path.  After the resolved switch the walk continues through further straight-line
plumbing (so that the error exits of several `?` do not share their `from_residual` call) and stops in front of the first
block that does anything else.
"""
import copy

MAX_BLOCKS = 28
MAX_STMTS = 80
TRY_BRANCH = "std::ops::Try::branch"
FROM_RESIDUAL = "std::ops::FromResidual::from_residual"
CONVERSIONS = ("std::convert::From::from", "std::convert::Into::into")
VARIANT_TESTS = {
    "std::result::Result::<T, E>::is_ok": ("Ok", "Err"), "std::result::Result::<T, E>::is_err": ("Err", "Ok"),
    "std::option::Option::<T>::is_some": ("Some", "None"), "std::option::Option::<T>::is_none": ("None", "Some"),
}


def _const_bool(st):
    if st.get("s") != "assign" or st["place"]["proj"]:
        return None
    rv = st["rv"]
    if rv["r"] != "use" or rv["op"]["o"] != "const":
        return None
    v = rv["op"]["c"].get("v")
    return v if isinstance(v, bool) else None


def _plain_local(op):
    if op.get("o") in ("copy", "move") and not op["place"]["proj"]:
        return op["place"]["l"]
    return None


def _src_key(op_or_place):
    """key of a source operand / place: a local, or (local, i) for the tuple field `local.i`; None otherwise"""
    pl = op_or_place.get("place", op_or_place) if "o" in op_or_place else op_or_place
    if "o" in op_or_place and op_or_place["o"] not in ("copy", "move"):
        return None
    if not pl["proj"]:
        return pl["l"]
    if len(pl["proj"]) == 1 and pl["proj"][0].get("p") == "field":
        return (pl["l"], pl["proj"][0]["i"])
    if len(pl["proj"]) == 2 and pl["proj"][0].get("p") == "downcast" and pl["proj"][1].get("p") == "field":
        return (pl["l"], pl["proj"][0]["name"], pl["proj"][1]["i"])   # payload field of an enum variant
    return None


def _kill(env, l, roots=None):
    for k in [k for k in env if k == l or (isinstance(k, tuple) and k[0] == l)]:
        del env[k]
        if roots is not None:
            roots.pop(k, None)


def _step(env, st, roots=None):
    """knowledge propagation over one statement.  Keys are locals or (local, i) for a field of a tuple local;
    roots[key] = the locals through which the known value travelled"""
    s = st.get("s")
    if s not in ("assign", "setdiscr"):
        return
    l = st["place"]["l"]
    if s == "setdiscr" or st["place"]["proj"]:
        _kill(env, l, roots)
        return
    rv = st["rv"]
    r = rv["r"]
    new = {}       # key -> (knowledge, source key or None)
    if r == "use":
        src = _src_key(rv["op"])
        if src is not None and src in env:
            new[l] = (env[src], src)
        if isinstance(src, int):
            for k in list(env):   # a whole tuple / enum value moved: its fields keep their knowledge
                if isinstance(k, tuple) and k[0] == src:
                    new[(l,) + k[1:]] = (env[k], k)
        c = _const_bool(st)
        if c is not None:
            new[l] = (c, None)
    elif r == "ref" and rv.get("bk") not in ("mut",) and "Mut" not in str(rv.get("bk")) and not rv["place"]["proj"]:
        # a shared reference to a local: what is known about the local is looked up when the reference is used
        new[l] = (("refto", rv["place"]["l"]), None)
    elif r == "ref" and not rv["place"]["proj"] == [] and [p_.get("p") for p_ in rv["place"]["proj"]] == ["deref"] and isinstance(env.get(rv["place"]["l"]), tuple) and env[rv["place"]["l"]][0] == "refto":
        new[l] = (env[rv["place"]["l"]], rv["place"]["l"])     # reborrow
    elif r == "aggregate" and rv.get("ak") == "adt" and rv.get("variant") is not None:
        new[l] = (("variant", rv["variant"]), None)
        for i, op in enumerate(rv.get("ops", [])):   # what is known about the payload travels with it
            src = _src_key(op)
            if src is not None and src in env:
                new[(l, rv["variant"], i)] = (env[src], src)
    elif r == "aggregate" and rv.get("ak") == "tuple":
        for i, op in enumerate(rv["ops"]):
            if op["o"] == "const" and isinstance(op["c"].get("v"), bool):
                new[(l, i)] = (op["c"]["v"], None)
            else:
                src = _src_key(op)
                if src is not None and src in env:
                    new[(l, i)] = (env[src], src)
    elif r == "unop" and rv.get("uop") == "Not":
        src = _src_key(rv["a"]) if "a" in rv else None
        if src is not None and isinstance(env.get(src), bool):
            new[l] = (not env[src], src)
    elif r == "discr" and rv.get("variants"):
        src = _src_key(rv["place"])
        k = env.get(src) if src is not None else None
        if isinstance(k, tuple) and k[0] == "variant" and k[1] in rv["variants"]:
            new[l] = (rv["variants"].index(k[1]), src)
    newroots = {}
    if roots is not None:
        for key, (_, src) in new.items():
            base = roots.get(src, frozenset()) if src is not None else frozenset()
            newroots[key] = base | {l}
    _kill(env, l, roots)
    for key, (val, _) in new.items():
        env[key] = val
    if roots is not None:
        roots.update(newroots)


def _cond_drop(blocks, cur, t):
    """switch `t` ending block cur is `if flag { drop(x) }`: returns (drop block, join block) or None"""
    tgts = set(tg for (_, tg) in t["arms"]) | {t["otherwise"]}
    if len(tgts) != 2:
        return None
    a, b = sorted(tgts)
    for d, j in ((a, b), (b, a)):
        bd = blocks[d]
        if bd["cleanup"] or bd["term"]["t"] != "drop" or bd["term"].get("target") != j or bd["term"]["place"]["proj"]:
            continue
        if any(st.get("s") == "assign" and not (st["rv"]["r"] == "use" and st["rv"]["op"]["o"] == "const") for st in bd["stmts"]):
            continue
        return d, j
    return None


def _call_knowledge(body, env, t):
    """knowledge about the destination of a plumbing call, or None if the call is not plumbing"""
    ce = t.get("callee", {})
    path = ce.get("path")
    if t["dest"]["proj"] or t.get("target") is None:
        return None
    if path == TRY_BRANCH and len(t["args"]) == 1:
        src = _plain_local(t["args"][0])
        k = env.get(src)
        if isinstance(k, tuple) and k[0] == "variant":
            if k[1] in ("Ok", "Some"):
                return ("variant", "Continue")
            if k[1] in ("Err", "None"):
                return ("variant", "Break")
        return None
    if path in VARIANT_TESTS and len(t["args"]) == 1:
        # x.is_ok() / is_err() / is_some() / is_none() on a value whose variant is known on this path
        src = _plain_local(t["args"][0])
        k = env.get(src)
        if isinstance(k, tuple) and k[0] == "refto":
            k = env.get(k[1])
        if isinstance(k, tuple) and k[0] == "variant":
            yes, no = VARIANT_TESTS[path]
            if k[1] == yes:
                return True
            if k[1] == no:
                return False
        return None
    if path == FROM_RESIDUAL and len(t["args"]) == 1:
        ty = body.locals[t["dest"]["l"]]["ty"]
        if ty.startswith("std::result::Result<"):
            return ("variant", "Err")
        if ty.startswith("std::option::Option<"):
            return ("variant", "None")
    return None


def _branch_payload(env, roots, src, dest):
    """Try::branch(src) -> dest: Continue carries the Ok / Some payload"""
    if src is None:
        return
    for (var, cont) in (("Ok", "Continue"), ("Some", "Continue")):
        k = (src, var, 0)
        if k in env:
            env[(dest, cont, 0)] = env[k]
            if roots is not None:
                roots[(dest, cont, 0)] = roots.get(k, frozenset()) | {dest}


def _seed_env(body, bl, roots, env=None):
    env = {} if env is None else env
    for st in bl["stmts"]:
        _step(env, st, roots)
    return env


def _preds_of(blocks):
    preds = {}
    for b, bl in enumerate(blocks):
        if bl["cleanup"] or bl.get("dead"):
            continue
        t = bl["term"]
        k = t["t"]
        nx = []
        if k == "goto":
            nx = [t["target"]]
        elif k == "switch":
            nx = [tg for (_, tg) in t["arms"]] + [t["otherwise"]]
        elif k in ("call", "drop", "assert"):
            if t.get("target") is not None:
                nx.append(t["target"])
        for x in set(nx):
            preds.setdefault(x, []).append(b)
    return preds


def _edge_env(blocks, preds, d, roots):
    """what the branches on the way into block d say about the values they tested: along the chain of unique predecessors,
    a `match x { V(..) => <here> }` edge means x is (still) a V.  Only used to pass later re-tests of the same value (the
    drop elaboration of a matched Result, a second match on it); a path is threaded only if it also *stores* a known value"""
    chain = []
    cur = d
    for _ in range(16):
        ps = [p for p in preds.get(cur, []) if not blocks[p]["cleanup"] and not blocks[p].get("dead")]
        if len(ps) != 1 or ps[0] == d or any(ps[0] == c for c, _ in chain):
            break
        chain.append((ps[0], cur))
        cur = ps[0]
    chain.reverse()
    env = {}
    for (p, nxt) in chain:
        discr_of = {}
        for st in blocks[p]["stmts"]:
            _step(env, st, roots)
            if st.get("s") == "assign" and not st["place"]["proj"]:
                discr_of.pop(st["place"]["l"], None)
                rv = st["rv"]
                if rv["r"] == "discr" and rv.get("variants"):
                    src = _src_key(rv["place"])
                    if src is not None:
                        discr_of[st["place"]["l"]] = (src, rv["variants"])
        t = blocks[p]["term"]
        if t["t"] == "switch":
            l = _plain_local(t["discr"])
            if l in discr_of:
                src, variants = discr_of[l]
                vals = [v for (v, tg) in t["arms"] if tg == nxt]
                name = None
                if len(vals) == 1 and t["otherwise"] != nxt and isinstance(vals[0], int) and 0 <= vals[0] < len(variants):
                    name = variants[vals[0]]
                elif not vals and t["otherwise"] == nxt:
                    rest = [i for i in range(len(variants)) if i not in [v for (v, _) in t["arms"]]]
                    if len(rest) == 1:
                        name = variants[rest[0]]
                if name is not None:
                    base = src if isinstance(src, int) else src[0]
                    env[src] = ("variant", name)
                    roots[src] = frozenset([base])
        elif t["t"] == "call":
            _kill(env, t["dest"]["l"], roots)
        elif t["t"] == "drop":
            _kill(env, t["place"]["l"], roots)
    return env


def thread_bools(body):
    """Rewrite body.blocks (private copy).  Returns the number of threaded paths."""
    blocks = body.blocks
    loops = body.loops()
    headers = set(loops.keys())

    def nest(b):
        return frozenset(h for h, blk in loops.items() if b in blk)
    defs = body.defs()

    def loop_carried(root, switch_bb):
        """the stored local also receives values inside a loop that the testing block is not part of: a state variable of
        that loop (set while scanning, matched afterwards) -- left to the loop analyses"""
        sw = nest(switch_bb)
        ds = defs.get(root, [])
        for (b, i, kind, payload) in ds:
            for h in nest(b) - sw:
                # assigned inside loop h, tested outside it: carried across iterations only if it is also initialised on
                # the way into the loop (a temporary that each iteration assigns afresh is not state)
                if any(b2 not in loops[h] and body.dominates(b2, h) for (b2, _, _, _) in ds):
                    return True
        return False

    n_threaded = 0
    nb0 = len(blocks)
    preds = _preds_of(blocks)
    for d in range(nb0):
        bl = blocks[d]
        if bl["cleanup"]:
            continue
        t0 = bl["term"]
        roots = {}
        edge_env = _edge_env(blocks, preds, d, roots)
        if t0["t"] == "goto":
            env = _seed_env(body, bl, roots, edge_env)
            start = t0["target"]
        elif t0["t"] == "drop" and t0.get("target") is not None:
            env = _seed_env(body, bl, roots, edge_env)
            env = dict(env)
            _kill(env, t0["place"]["l"], roots)
            start = t0["target"]
        elif t0["t"] == "switch" and _cond_drop(blocks, d, t0) is not None and len([p_ for p_ in body.preds()[_cond_drop(blocks, d, t0)[0]] if not blocks[p_]["cleanup"]]) == 1:
            # the block that stores the value ends in `if flag { drop(x) }`: both sides continue at the join
            env = _seed_env(body, bl, roots, edge_env)
            env = dict(env)
            seed_diamond = _cond_drop(blocks, d, t0)
            _kill(env, blocks[seed_diamond[0]]["term"]["place"]["l"], roots)
            start = seed_diamond[1]
        elif t0["t"] == "call":
            env = _seed_env(body, bl, roots, edge_env)
            k = _call_knowledge(body, env, t0)
            if k is None:
                continue
            env = dict(env)
            _kill(env, t0["dest"]["l"], roots)
            env[t0["dest"]["l"]] = k
            roots[t0["dest"]["l"]] = frozenset([t0["dest"]["l"]])
            if t0["callee"].get("path") == TRY_BRANCH:
                _branch_payload(env, roots, _plain_local(t0["args"][0]), t0["dest"]["l"])
            start = t0["target"]
        else:
            continue
        if not env:
            continue
        # walk
        dup = [[]]          # statement lists of the duplicated blocks
        spans = [None]
        terms = []          # terminator (a plumbing call) closing dup[i], for i < len(dup) - 1
        cur = start
        seen = {d}
        resolved = 0
        nst = 0
        final = None        # block to jump to at the end
        ok = True
        for _ in range(MAX_BLOCKS):
            if cur in seen or cur in headers or blocks[cur]["cleanup"]:
                break
            cb = blocks[cur]
            t = cb["term"]
            # look ahead: can this block be passed?
            env2 = dict(env)
            roots2 = dict(roots)
            for st in cb["stmts"]:
                _step(env2, st, roots2)
            nxt = None
            call_dup = None
            cur_resolves = False
            if t["t"] == "goto":
                nxt = t["target"]
            elif t["t"] == "switch":
                l = _plain_local(t["discr"])
                if l is not None and l in env2 and not isinstance(env2[l], tuple) and not any(loop_carried(r, cur) for r in roots2.get(l, frozenset([l]))):
                    val = env2[l]
                    val = (1 if val else 0) if isinstance(val, bool) else val
                    nxt = t["otherwise"]
                    for (v, tg) in t["arms"]:
                        if v == val:
                            nxt = tg
                    resolved += 1
                    cur_resolves = True
                elif _cond_drop(blocks, cur, t) is not None:
                    # `if flag { drop(x) }` -- a conditional drop on the way: both sides meet again right after it; the whole
                    # diamond is duplicated, the walk goes on at the join
                    dblk, join = _cond_drop(blocks, cur, t)
                    if dblk not in seen and join not in seen:
                        _kill(env2, blocks[dblk]["term"]["place"]["l"], roots2)
                        call_dup = ("diamond", copy.deepcopy(t), copy.deepcopy(blocks[dblk]), dblk, join)
                        nxt = join
            elif t["t"] == "drop" and t.get("target") is not None:
                # a destructor on the way (the `Some(_)` of a matched value): the duplicated path runs it once as well
                _kill(env2, t["place"]["l"], roots2)
                call_dup = copy.deepcopy(t)
                nxt = t["target"]
            elif t["t"] == "call":
                k = _call_knowledge(body, env2, t)
                if k is not None:
                    _kill(env2, t["dest"]["l"], roots2)
                    env2[t["dest"]["l"]] = k
                    if t["callee"].get("path") == TRY_BRANCH:
                        _branch_payload(env2, roots2, _plain_local(t["args"][0]), t["dest"]["l"])
                    src = _plain_local(t["args"][0])
                    roots2[t["dest"]["l"]] = (roots2.get(src, frozenset()) if src is not None else frozenset()) | {t["dest"]["l"]}
                    call_dup = copy.deepcopy(t)
                    nxt = t["target"]
                elif resolved and t.get("callee", {}).get("path") in CONVERSIONS and len(t["args"]) == 1 and not t["dest"]["proj"] and t.get("target") is not None:
                    # past the re-test, on an exit path: `Err(e) => return Err(E::from(e))` -- the conversion `?` would have
                    # made; each error exit gets its own copy, as each `?` has its own from_residual
                    _kill(env2, t["dest"]["l"], roots2)
                    call_dup = copy.deepcopy(t)
                    nxt = t["target"]
            if nxt is None or nst + len(cb["stmts"]) > MAX_STMTS:
                break
            if resolved and not (t["t"] == "switch" and nxt is not None and cur_resolves) and not all(st.get("s") == "other" or (st.get("s") == "assign" and (st["rv"]["r"] in ("use", "discr") or (st["rv"]["r"] == "aggregate" and (st["rv"].get("ak") == "closure" or (st["rv"].get("path") == "std::result::Result" and st["rv"].get("variant") == "Err"))))) for st in cb["stmts"]):
                break  # past the re-test only pure value shuffling (the `?` plumbing of an error exit, an `Err(e)` re-wrap) is duplicated
            # pass the block
            seen.add(cur)
            for st in cb["stmts"]:
                dup[-1].append(copy.deepcopy(st))
            if spans[-1] is None or call_dup is not None:
                spans[-1] = (cb.get("span"), cb.get("file"))
            nst += len(cb["stmts"])
            env = env2
            roots = roots2
            if call_dup is not None:
                terms.append(call_dup)
                dup.append([])
                spans.append(None)
            cur = nxt
        final = cur
        if not resolved:
            continue
        # materialise
        span = blocks[start].get("span")
        fil = blocks[start].get("file")
        first_new = len(blocks)
        nblocks = len(dup)
        if nblocks == 1 and not dup[0]:
            entry = final
        else:
            extra = []
            for i in range(nblocks):
                if i < nblocks - 1:
                    term = terms[i]
                    if isinstance(term, tuple) and term[0] == "diamond":
                        _, sw, dcopy, dblk, join = term
                        xi = first_new + nblocks + len(extra)
                        sw["arms"] = [[v_, (xi if tg_ == dblk else first_new + i + 1)] for (v_, tg_) in sw["arms"]]
                        sw["otherwise"] = xi if sw["otherwise"] == dblk else first_new + i + 1
                        dcopy["term"]["target"] = first_new + i + 1
                        dcopy["threaded"] = True
                        extra.append(dcopy)
                        term = sw
                    else:
                        term["target"] = first_new + i + 1
                else:
                    term = {"t": "goto", "target": final}
                sp = spans[i] or (span, fil)
                blocks.append({"stmts": dup[i], "term": term, "cleanup": False, "span": sp[0], "file": sp[1], "threaded": True})
            blocks.extend(extra)
            entry = first_new
        if t0["t"] == "goto":
            bl["term"] = {"t": "goto", "target": entry}
        elif t0["t"] == "switch":
            dblk_, join_ = seed_diamond
            t0["arms"] = [[v_, (entry if tg_ == join_ else tg_)] for (v_, tg_) in t0["arms"]]
            if t0["otherwise"] == join_:
                t0["otherwise"] = entry
            blocks[dblk_]["term"]["target"] = entry
        else:
            t0["target"] = entry
        n_threaded += 1
        preds = _preds_of(blocks)
    if n_threaded:
        # blocks that no path reaches any more (the joined re-test when every store was threaded) carry no meaning
        reach = set()
        st = [0]
        while st:
            b = st.pop()
            if b in reach:
                continue
            reach.add(b)
            t = blocks[b]["term"]
            k = t["t"]
            nx = []
            if k == "goto":
                nx = [t["target"]]
            elif k == "switch":
                nx = [tg for (_, tg) in t["arms"]] + [t["otherwise"]]
            elif k in ("call", "drop", "assert"):
                if t.get("target") is not None:
                    nx.append(t["target"])
                if isinstance(t.get("unwind"), int):
                    nx.append(t["unwind"])
            st.extend(nx)
        for b in range(len(blocks)):
            if b not in reach and not blocks[b]["cleanup"]:
                blocks[b]["stmts"] = []
                blocks[b]["term"] = {"t": "unreachable"}
                blocks[b]["dead"] = True
    return n_threaded


# ------------------------------------------------------------------------------------------------------------------
def fold_constant_switches(body):
    """`let kind = Kind::A; .. match kind { .. }` with nothing in between that could change `kind` (one definition, never
    mutably borrowed): the match is decided.  After inlining a helper that is specialised by an enum / bool argument
    (`decode_path(s, PathKind::Subpath)`) this removes the arms of the other specialisations.  Global, not path-based: a
    local with a single definition has that value wherever it is read.  Returns the number of switches folded."""
    blocks = body.blocks
    defs = {}
    borrowed = set()
    for b, bl in enumerate(blocks):
        if bl["cleanup"]:
            continue
        for st in bl["stmts"]:
            if st.get("s") == "assign":
                if not st["place"]["proj"]:
                    defs.setdefault(st["place"]["l"], []).append(st)
                else:
                    borrowed.add(st["place"]["l"])
                rv = st["rv"]
                if rv["r"] in ("ref", "rawptr") and (rv.get("bk") == "mut" or "Mut" in str(rv.get("bk"))):
                    borrowed.add(rv["place"]["l"])
            elif st.get("s") == "setdiscr":
                borrowed.add(st["place"]["l"])
        t = bl["term"]
        if t["t"] == "call":
            if not t["dest"]["proj"]:
                defs.setdefault(t["dest"]["l"], []).append(None)
            else:
                borrowed.add(t["dest"]["l"])

    def discr_int(v, rv):
        """the integer a discriminant read yields for a known variant (by index or by name)"""
        idx = v[1]
        if v[0] == "variantname":
            names = rv.get("variants") or []
            if idx not in names:
                return None
            idx = names.index(idx)
        ds_ = rv.get("discrs")
        return ("int", ds_[idx] if ds_ and idx < len(ds_) else idx)

    def value_of(l, depth=0):
        """("variant", index) / ("variantname", name) / ("bool", b) / ("int", n) / ("refto", <value of the referent>) of a
        single-definition local, through whole-local copies, shared references to such locals and promoted enum constants
        (what a derived `==` on a field-less enum is made of: two discriminant reads behind references and an integer Eq)"""
        if depth > 16 or l in borrowed or l <= body.arg_count:
            return None
        ds = defs.get(l, [])
        if len(ds) != 1 or ds[0] is None:
            return None
        rv = ds[0]["rv"]
        if rv["r"] == "aggregate" and rv.get("ak") == "adt" and not rv.get("ops") and rv.get("variant_idx") is not None:
            return ("variant", rv["variant_idx"])
        if rv["r"] == "use" and rv["op"]["o"] == "const":
            cv = rv["op"]["c"].get("v")
            if isinstance(cv, bool):
                return ("bool", cv)
            if isinstance(cv, dict) and cv.get("k") == "enum" and not cv.get("fields") and cv.get("variant") is not None:
                return ("variantname", cv["variant"])
            if isinstance(cv, dict) and cv.get("k") == "ref" and isinstance(cv.get("v"), dict) and cv["v"].get("k") == "enum" and not cv["v"].get("fields") and cv["v"].get("variant") is not None:
                return ("refto", ("variantname", cv["v"]["variant"]))
            return None
        if rv["r"] == "use" and rv["op"]["o"] in ("copy", "move") and not rv["op"]["place"]["proj"]:
            return value_of(rv["op"]["place"]["l"], depth + 1)
        if rv["r"] == "ref" and not (rv.get("bk") == "mut" or "Mut" in str(rv.get("bk"))):
            pl = rv["place"]
            if not pl["proj"]:
                v = value_of(pl["l"], depth + 1)
                return ("refto", v) if v is not None and v[0] in ("variant", "variantname") else None
            if len(pl["proj"]) == 1 and pl["proj"][0].get("p") == "deref":      # reborrow
                v = value_of(pl["l"], depth + 1)
                return v if v is not None and v[0] == "refto" else None
            return None
        if rv["r"] == "discr":
            pl = rv["place"]
            v = None
            if not pl["proj"]:
                v = value_of(pl["l"], depth + 1)
            elif len(pl["proj"]) == 1 and pl["proj"][0].get("p") == "deref":
                r_ = value_of(pl["l"], depth + 1)
                v = r_[1] if r_ is not None and r_[0] == "refto" else None
            if v is not None and v[0] in ("variant", "variantname"):
                return discr_int(v, rv)
            return None
        if rv["r"] == "binop" and rv.get("bop") in ("Eq", "Ne"):
            ab = []
            for o in (rv["a"], rv["b"]):
                if o["o"] in ("copy", "move") and not o["place"]["proj"]:
                    ab.append(value_of(o["place"]["l"], depth + 1))
                else:
                    ab.append(None)
            if all(x is not None and x[0] == "int" for x in ab):
                return ("bool", (ab[0][1] == ab[1][1]) == (rv["bop"] == "Eq"))
        return None
    n = 0
    for b, bl in enumerate(blocks):
        t = bl["term"]
        if bl["cleanup"] or t["t"] != "switch" or t["discr"]["o"] not in ("copy", "move") or t["discr"]["place"]["proj"]:
            continue
        v = value_of(t["discr"]["place"]["l"])
        if v is None:
            continue
        val = (1 if v[1] else 0) if v[0] == "bool" else v[1] if v[0] == "int" else None
        if val is None:
            continue
        tgt = t["otherwise"]
        for (x, tg) in t["arms"]:
            if x == val:
                tgt = tg
        bl["term"] = {"t": "goto", "target": tgt, "folded": True}
        n += 1
    if n:
        reach = set()
        st_ = [0]
        while st_:
            x = st_.pop()
            if x in reach:
                continue
            reach.add(x)
            t = blocks[x]["term"]
            k = t["t"]
            if k == "goto":
                st_.append(t["target"])
            elif k == "switch":
                st_.extend([tg for (_, tg) in t["arms"]] + [t["otherwise"]])
            elif k in ("call", "drop", "assert"):
                if t.get("target") is not None:
                    st_.append(t["target"])
                if isinstance(t.get("unwind"), int):
                    st_.append(t["unwind"])
        for x in range(len(blocks)):
            if x not in reach and not blocks[x]["cleanup"]:
                blocks[x]["stmts"] = []
                blocks[x]["term"] = {"t": "unreachable"}
                blocks[x]["dead"] = True
    return n
