"""purlsa.thread -- jump threading of materialised booleans (a CFG normalisation, DESIGN.md 2.2).

`a || b` bound to a variable, `matches!(..)`, a closure or helper returning a condition: the compiler (or the inliner)
stores `true` / `false` into a local on the deciding paths, joins them, and branches on the local afterwards.  The branch
only replays what the paths already decided.  This pass re-routes every path that stores a *constant* directly to the
target the later branch would take for that constant (duplicating the few straight-line statements in between), which is
the textbook jump-threading optimisation and preserves semantics exactly: every statement of the original path is still
executed, only the re-test is skipped.  Afterwards the condition is visible to the guard analysis as ordinary branching.

Conservative limits: the path from the store to the branch must consist of `goto`-terminated, non-cleanup blocks that are
not loop headers, at most MAX_BLOCKS blocks and MAX_STMTS statements; statements on it may only copy the value around or
write other locals.
"""
import copy

MAX_BLOCKS = 6
MAX_STMTS = 16


def _const_bool(st):
    if st.get("s") != "assign" or st["place"]["proj"]:
        return None
    rv = st["rv"]
    if rv["r"] != "use" or rv["op"]["o"] != "const":
        return None
    v = rv["op"]["c"].get("v")
    return v if isinstance(v, bool) else None


def _written(st):
    if st.get("s") in ("assign", "setdiscr"):
        return st["place"]["l"], bool(st["place"]["proj"])
    return None, False


def _step(env, st):
    """constant propagation over one statement; returns False if the statement makes the tracked value unknown"""
    l, partial = _written(st)
    if l is None:
        return True
    if st.get("s") == "assign" and not partial:
        rv = st["rv"]
        if rv["r"] == "use" and rv["op"]["o"] in ("copy", "move") and not rv["op"]["place"]["proj"] and rv["op"]["place"]["l"] in env:
            env[l] = env[rv["op"]["place"]["l"]]
            return True
        c = _const_bool(st)
        if c is not None:
            env[l] = c
            return True
    if l in env:
        del env[l]
    return True


def thread_bools(body):
    """Rewrite body.blocks (private copy).  Returns the number of threaded stores."""
    blocks = body.blocks
    headers = set(body.loops().keys())
    n_threaded = 0
    nb0 = len(blocks)
    for d in range(nb0):
        bl = blocks[d]
        if bl["cleanup"] or bl["term"]["t"] != "goto":
            continue
        # the last constant-bool store of the block (later statements are walked as part of the path)
        idx = None
        for i, st in enumerate(bl["stmts"]):
            if _const_bool(st) is not None and body.locals[st["place"]["l"]]["ty"] == "bool":
                idx = i
        if idx is None:
            continue
        env = {}
        ok = True
        for st in bl["stmts"][idx:]:
            _step(env, st)
        if not env:
            continue
        dup = []
        cur = bl["term"]["target"]
        seen = {d}
        target = None
        for _ in range(MAX_BLOCKS):
            if cur in seen or cur in headers or blocks[cur]["cleanup"]:
                ok = False
                break
            seen.add(cur)
            cb = blocks[cur]
            for st in cb["stmts"]:
                _step(env, st)
                dup.append(copy.deepcopy(st))
            if len(dup) > MAX_STMTS or not env:
                ok = False
                break
            t = cb["term"]
            if t["t"] == "goto":
                cur = t["target"]
                continue
            if t["t"] == "switch":
                op = t["discr"]
                if op["o"] in ("copy", "move") and not op["place"]["proj"] and op["place"]["l"] in env:
                    val = 1 if env[op["place"]["l"]] else 0
                    target = t["otherwise"]
                    for (v, tg) in t["arms"]:
                        if v == val:
                            target = tg
                    break
            ok = False
            break
        if not ok or target is None:
            continue
        if dup:
            blocks.append({"stmts": dup, "term": {"t": "goto", "target": target}, "cleanup": False, "span": blocks[cur].get("span"), "file": blocks[cur].get("file"), "threaded": True})
            bl["term"] = {"t": "goto", "target": len(blocks) - 1}
        else:
            bl["term"] = {"t": "goto", "target": target}
        n_threaded += 1
    return n_threaded
