"""purlsa.canon_names -- private helpers are found by what they do for the public API, not by what they are called.

The rule packs refer to a handful of *private* functions of the crate (the type-alphabet predicate, the two lower-casers,
the binary search of the qualifier list ...).  Their names and module paths are not part of any property: renaming one or
moving it to another module is a behaviour-preserving change.  This pass identifies each such role *structurally* -- from
its signature and from which stable item (a trait impl or a public method) calls it -- and, when the function found has
another name or path than the one the rules use, renames it to that canonical key throughout the facts (bodies, fn table,
callee paths, closure keys) before anything is analysed.  On the pinned tree it is the identity.

A role that cannot be found uniquely is left alone: the rules then fail closed on the missing anchor as before.  The
renaming decides nothing about behaviour -- every rule still inspects the body it is pointed at.
"""
import json
import re


def _callee_paths(body):
    out = []
    for bl in body["blocks"]:
        t = bl["term"]
        if t["t"] == "call" and not bl["cleanup"]:
            ce = t["callee"]
            p = (ce.get("resolved") or {}).get("path") or ce.get("path")
            if p:
                out.append(p)
    return out


def _calls_of(j, key, with_closures=True):
    """local callee paths called from body `key` (and from its closures)"""
    out = []
    for k, b in j["bodies"].items():
        if k == key or (with_closures and b.get("root") == key and b.get("kind") == "closure"):
            out.extend(_callee_paths(b))
    return out


def _is_small_string(ty):
    return ty.startswith("smartstring::SmartString<") or ty == "std::string::String"


def find_roles(j):
    """{canonical key: actual key} for the roles found"""
    fns = j["fns"]
    bodies = j["bodies"]
    roles = {}

    def local(p):
        return p in bodies and p in fns

    def one(cands):
        cands = sorted(set(cands))
        return cands[0] if len(cands) == 1 else None

    def sig(k):
        f = fns[k]
        return tuple(f.get("inputs", [])), f.get("output", "")

    private = lambda k: not fns[k].get("exported") and "impl_trait" not in fns[k] and "impl_trait_def" not in fns[k]  # noqa: E731
    # --- parser entry (a trait impl: stable)
    from_str = [k for k, f in fns.items() if f.get("impl_trait_def") == "std::str::FromStr" and f.get("impl_self", "").startswith("GenericPurl<") and f.get("name") == "from_str"]
    if len(from_str) == 1:
        c = one(p for p in _calls_of(j, from_str[0]) if local(p) and private(p) and sig(p) == (("&str",), "bool"))
        if c:
            roles["is_valid_package_type"] = c
    # --- String / PackageType finishing hooks (trait impls)
    sfin = [k for k, f in fns.items() if f.get("impl_trait_def", "").endswith("PurlShape") and f.get("impl_self") == "std::string::String" and f.get("name") == "finish"]
    if len(sfin) == 1:
        c = one(p for p in _calls_of(j, sfin[0]) if local(p) and private(p) and sig(p)[0] == ("&mut str",))
        if c:
            roles["str_preview_mut"] = c
    # --- checksum: the key lower-caser is what the public insert_raw applies to the algorithm
    ins_raw = [k for k, f in fns.items() if f.get("name") == "insert_raw" and "Checksum" in f.get("impl_self", "")]
    if len(ins_raw) == 1:
        c = one(p for p in _calls_of(j, ins_raw[0]) if local(p) and private(p) and sig(p)[0] == ("&str",) and _is_small_string(sig(p)[1]))
        if c:
            roles["copy_as_lowercase"] = c
            d = one(p for p in _calls_of(j, c) if local(p) and private(p) and sig(p) == (("char",), "bool"))
            if d:
                roles["changes_when_lowercased"] = d
                # the in-place lower-caser: same scan (it asks the same per-char question), on a &mut string.  Defined this
                # way rather than through PackageType::finish so that it is found in every feature set alike.
                e = one(k for k in fns if local(k) and private(k) and len(sig(k)[0]) == 1 and sig(k)[0][0].startswith("&mut ") and _is_small_string(sig(k)[0][0][5:]) and sig(k)[1] == "()" and d in _calls_of(j, k))
                if e:
                    roles["lowercase_in_place"] = e
    # --- qualifiers: the search is the method that binary-searches; get_index wraps it; into_key builds the stored key
    q = "qualifiers::Qualifiers"
    search = one(k for k, f in fns.items() if f.get("impl_self") == q and "impl_trait_def" not in f and k in bodies and any(p.endswith("::binary_search_by") for p in _calls_of(j, k)))
    if search:
        roles[q + "::search"] = search
        gi = one(k for k, f in fns.items() if f.get("impl_self") == q and "impl_trait_def" not in f and k in bodies and not f.get("exported") and f.get("output") == "std::option::Option<usize>" and search in _calls_of(j, k))
        if gi:
            roles[q + "::get_index"] = gi
    ik = one(k for k, f in fns.items() if f.get("impl_self", "").startswith("qualifiers::MixedQualifierKey<") and "impl_trait_def" not in f and f.get("output") == "qualifiers::QualifierKey" and k in bodies)
    if ik:
        roles["qualifiers::MixedQualifierKey::<S>::into_key"] = ik
    keycheck = one(k for k, f in fns.items() if k in bodies and "impl_self" not in f and f.get("output", "").startswith("std::result::Result<qualifiers::MixedQualifierKey<"))
    if keycheck:
        c = one(p for p in _calls_of(j, keycheck) if local(p) and private(p) and sig(p) == (("&str",), "bool"))
        if c:
            roles["qualifiers::is_valid_qualifier_name"] = c
    return roles


# the crate's own types under the module paths the rule packs spell (the paths of the pinned tree).  A type is public API by
# its *name* (re-exported at the crate root); which module file defines it is not.
CANONICAL_TYPES = {
    "GenericPurl": "GenericPurl", "PurlParts": "PurlParts", "GenericPurlBuilder": "builder::GenericPurlBuilder",
    "PackageError": "package_type::PackageError", "PackageType": "package_type::PackageType", "UnsupportedPackageType": "package_type::UnsupportedPackageType",
    "ParseError": "parse::ParseError", "PurlField": "parse::PurlField",
    "Entry": "qualifiers::Entry", "Iter": "qualifiers::Iter", "IterMut": "qualifiers::IterMut", "MixedQualifierKey": "qualifiers::MixedQualifierKey",
    "OccupiedEntry": "qualifiers::OccupiedEntry", "QualifierKey": "qualifiers::QualifierKey", "Qualifiers": "qualifiers::Qualifiers", "VacantEntry": "qualifiers::VacantEntry",
    "Checksum": "qualifiers::well_known::Checksum", "ChecksumValue": "qualifiers::well_known::ChecksumValue", "ChecksumIter": "qualifiers::well_known::ChecksumIter",
}


def type_renames(j):
    """{actual path: canonical path} for crate types that live in another module than the rules spell"""
    out = {}
    by_name = {}
    for path in j.get("adts", {}):
        if "<" in path or "{" in path:
            continue
        by_name.setdefault(path.split("::")[-1], []).append(path)
    for name, canon in CANONICAL_TYPES.items():
        paths = by_name.get(name, [])
        if len(paths) == 1 and paths[0] != canon and canon not in j["adts"]:
            out[paths[0]] = canon
    return out


# private fields by what they hold (their names are nobody's API)
FIELD_ROLES = {
    "qualifiers::Qualifiers": [("qualifiers", lambda ty: ty.startswith("std::vec::Vec<"))],
    "qualifiers::well_known::Checksum": [("algorithms", lambda ty: ty.startswith("std::collections::HashMap<"))],
    "qualifiers::OccupiedEntry": [("qualifiers", lambda ty: ty.startswith("&") and "std::vec::Vec<" in ty), ("index", lambda ty: ty == "usize")],
    "qualifiers::VacantEntry": [("qualifiers", lambda ty: ty.startswith("&") and "std::vec::Vec<" in ty), ("index", lambda ty: ty == "usize"), ("key", lambda ty: "MixedQualifierKey<" in ty)],
    "GenericPurl": [("package_type", lambda ty: ty == "T"), ("parts", lambda ty: ty == "PurlParts")],
}


def _erase(ty):
    return re.sub(r"'[a-z_]+ ?", "", ty or "")


def field_renames(j):
    """[(adt path, old field name, canonical name, erased field type)]"""
    out = []
    all_names = {}
    for path, a in j.get("adts", {}).items():
        for v in a.get("variants", []):
            for f in v.get("fields", []):
                all_names.setdefault(f["name"], set()).add(path)
    for path, roles in FIELD_ROLES.items():
        a = j.get("adts", {}).get(path)
        if not a or len(a.get("variants", [])) != 1:
            continue
        fields = a["variants"][0]["fields"]
        if any(f.get("vis") == "pub" for f in fields):
            continue
        names = set(f["name"] for f in fields)
        for canon, pred in roles:
            hit = [f for f in fields if pred(f["ty"])]
            if len(hit) == 1 and hit[0]["name"] != canon and canon not in names:
                out.append((path, hit[0]["name"], canon, _erase(hit[0]["ty"])))
    # an old name may be renamed only if every struct that has a field of that name agrees on the new one (projections are
    # renamed by field name)
    ok = []
    for (path, old_, canon, ety) in out:
        users = all_names.get(old_, set())
        same = set(p_ for (p_, o_, c_, _) in out if o_ == old_ and c_ == canon)
        if users == same:
            ok.append((path, old_, canon, ety))
    return ok


def _apply_field_renames(j, frs):
    by_old = {}
    for path, old_, canon, ety in frs:
        by_old[old_] = (path, canon, ety)

    def walk(x):
        if isinstance(x, dict):
            if x.get("p") == "field" and x.get("name") in by_old:
                path, canon, ety = by_old[x["name"]]
                if "ty" not in x or _erase(x["ty"]) == ety or True:
                    x["name"] = canon
            if x.get("r") == "aggregate" and x.get("ak") == "adt" and isinstance(x.get("fields"), list):
                for (path, old_, canon, ety) in frs:
                    if x.get("path") == path:
                        x["fields"] = [canon if f == old_ else f for f in x["fields"]]
            for v in x.values():
                walk(v)
        elif isinstance(x, list):
            for v in x:
                walk(v)
    walk(j["bodies"])
    for path, old_, canon, ety in frs:
        for f in j["adts"][path]["variants"][0]["fields"]:
            if f["name"] == old_:
                f["name"] = canon
    # debug-info names and printed places ("s") are cosmetic and left alone


def canonicalise(j):
    """-> (facts json with the roles under their canonical keys, {actual: canonical} of what was renamed)"""
    # 1. types first (the role definitions below mention type paths)
    tren = {}
    try:
        tren = type_renames(j)
    except Exception:
        tren = {}
    if tren:
        text = json.dumps(j)
        for actual, canon in sorted(tren.items(), key=lambda kv: -len(kv[0])):
            pat = re.compile(r'(?<![A-Za-z0-9_:])' + re.escape(json.dumps(actual)[1:-1]) + r'(?![A-Za-z0-9_])')
            text = pat.sub(lambda m: json.dumps(canon)[1:-1], text)
        j = json.loads(text)
        j["canonical_types"] = tren
    try:
        frs = field_renames(j)
        if frs:
            _apply_field_renames(j, frs)
            j["canonical_fields"] = [list(x[:3]) for x in frs]
            for path, old_, canon, _ in frs:
                tren["%s.%s" % (path, old_)] = "%s.%s" % (path, canon)
    except Exception:
        pass
    try:
        roles = find_roles(j)
    except Exception:
        return j, dict(tren)
    ren = {actual: canon for canon, actual in roles.items() if actual != canon}
    # never rename onto a key that something else already occupies
    ren = {a: c for a, c in ren.items() if c not in j["bodies"] and c not in j["fns"]}
    if not ren:
        return j, dict(tren)
    text = json.dumps(j)
    for actual, canon in sorted(ren.items(), key=lambda kv: -len(kv[0])):
        # the key as a whole token: followed by a quote, `::{closure`, `::<` (generic instantiation in "full") or `::promoted`
        pat = re.compile(r'(?<![A-Za-z0-9_:])' + re.escape(json.dumps(actual)[1:-1]) + r'(?=["\\]|::\{|::<|::promoted| )')
        text = pat.sub(lambda m: json.dumps(canon)[1:-1], text)
    j2 = json.loads(text)
    for actual, canon in ren.items():
        if canon in j2["fns"]:
            j2["fns"][canon]["name"] = canon.split("::")[-1]
            j2["fns"][canon]["renamed_from"] = actual
    j2["canonical_names"] = ren
    ren = dict(ren)
    ren.update(tren)
    return j2, ren
