"""purlsa.inline -- the "inlined normal form" of the crate (DESIGN.md 2.2, second view).

A rule is written against the shape of one function.  Extracting part of that function into a private helper (possibly a
higher-order one taking closures), or wrapping a step in a closure, leaves behaviour unchanged but hides the shape.  This
module produces an equivalent program in which calls to private helper functions -- and calls of closures / fn items
passed to them -- are replaced by the callee's MIR (classic procedure inlining on the extracted MIR JSON: fresh locals and
blocks, parameters assigned at the call site, `return` replaced by an assignment to the call's destination and a jump
to its target).  Inlining preserves semantics, so an obligation discharged on the inlined form holds for the program.
The runner uses this form only as a second view, when a rule does not go through on the program as written.

What is never inlined: functions reachable from the public API (except a sibling method that a method merely delegates
to), trait methods, recursive calls, the anchors passed in `opaque` (the functions the rules identify by role, among
them the validity predicates), and anything larger than MAX_BLOCKS.
"""
import copy

from .core import Body, Facts, strip

MAX_BLOCKS = 160
MAX_DEPTH = 4
CLOSURE_CALLS = ("std::ops::Fn::call", "std::ops::FnMut::call_mut", "std::ops::FnOnce::call_once")


def inlinable(facts, k, opaque, caller=None):
    if k in opaque or k not in facts.j["bodies"]:
        return False
    b = facts.j["bodies"][k]
    if b["kind"] != "fn" or len(b["blocks"]) > MAX_BLOCKS:
        return False
    f = facts.fns.get(k)
    if not f:
        return False
    if f.get("reachable") or f.get("exported") or f.get("vis") == "public":
        # a public method is inlined only into a sibling method of the same impl type that merely delegates to it
        # (`without_x(self)` = `self.with_x("")`): small, loop-free callee
        cf = facts.fns.get(caller) if caller else None
        if not (cf and f.get("impl_self") and f.get("impl_self") == cf.get("impl_self") and "impl_trait" not in f and "impl_trait" not in cf and len(b["blocks"]) <= 12 and not _has_loop(b) and _pure_delegate(facts, caller, k)):
            return False
    if "impl_trait" in f or f.get("impl_trait_def"):
        # a trait method of a *private* type of the crate (`impl TryFrom<&str> for HashEntry`, a helper in trait clothing):
        # nobody outside can name the type, the call is resolved statically -- it is a private helper
        st = (f.get("impl_self") or "").split("<")[0]
        adt = facts.adts.get(st)
        # .. or a method of a *private trait* of the crate (an extension trait on str / char / Cow: `trait NonEmpty { fn
        # non_empty(&self) -> ..}`): nobody outside can name the trait, so every call is one of the crate's own
        tr = facts.traits.get(f.get("impl_trait_def") or "")
        private_trait = tr is not None and tr.get("vis") not in ("pub", "public") and not tr.get("reachable")
        if not (adt and adt.get("vis") != "pub" and not adt.get("reachable")) and not private_trait:
            return False
    return True


def _pure_delegate(facts, caller, callee):
    """the caller does nothing but call `callee` (apart from value conversions of the arguments / the result)"""
    from .sem import is_conv
    n = 0
    for bl in facts.j["bodies"][caller]["blocks"]:
        if bl["cleanup"]:
            continue
        t = bl["term"]
        if t["t"] != "call":
            continue
        ce = t["callee"]
        p = (ce.get("resolved") or {}).get("path") or ce.get("path")
        if p == callee or ce.get("path") == callee:
            n += 1
            continue
        if p is None:
            return False
        if is_conv(p) or is_conv(ce.get("path")) or p.endswith("Default>::default") or p == "std::default::Default::default":
            continue
        return False
    return n == 1


def _has_loop(j):
    """any back edge in the raw body (DFS)?"""
    color = {}

    def succ(b):
        t = j["blocks"][b]["term"]
        k = t["t"]
        if k == "goto":
            return [t["target"]]
        if k == "switch":
            return [tg for (_, tg) in t["arms"]] + [t["otherwise"]]
        if k in ("call", "drop", "assert"):
            return [t["target"]] if t.get("target") is not None else []
        return []
    stack = [(0, iter(succ(0)))]
    color[0] = 1
    while stack:
        n, it = stack[-1]
        adv = False
        for s_ in it:
            if color.get(s_) == 1:
                return True
            if s_ not in color:
                color[s_] = 1
                stack.append((s_, iter(succ(s_))))
                adv = True
                break
        if not adv:
            color[n] = 2
            stack.pop()
    return False


def _shift(node, lo, bo):
    """renumber locals (+lo) and block targets (+bo) in a copied callee block"""
    if isinstance(node, dict):
        if "l" in node and "proj" in node:
            node["l"] += lo
            for pr in node["proj"]:
                if pr.get("p") == "index" and "local" in pr:
                    pr["local"] += lo
            return
        t = node.get("t")
        if t is not None:
            if t == "goto":
                node["target"] += bo
            elif t == "switch":
                node["arms"] = [[v, tg + bo] for (v, tg) in node["arms"]]
                node["otherwise"] += bo
            elif t in ("call", "drop", "assert"):
                if node.get("target") is not None:
                    node["target"] += bo
                if isinstance(node.get("unwind"), int):
                    node["unwind"] += bo
        for k, v in node.items():
            if k in ("target", "otherwise", "arms", "unwind"):
                continue
            _shift(v, lo, bo)
    elif isinstance(node, list):
        for v in node:
            _shift(v, lo, bo)


def _place(l):
    return {"l": l, "proj": [], "s": "_%d" % l}


def _assign(dst_place, op, line=None):
    return {"s": "assign", "place": dst_place, "rv": {"r": "use", "op": op}, "line": line, "inl": True}


def _splice(blocks, locals_, b, callee_j, arg_ops, istack, callee_key):
    """inline callee_j at the call terminating block b; arg_ops are operands (in the caller's numbering)"""
    t = blocks[b]["term"]
    lo, bo = len(locals_), len(blocks)
    for l in copy.deepcopy(callee_j["locals"]):
        l["inl_of"] = callee_key
        locals_.append(l)
    cfile = (callee_j.get("span") or {}).get("file")
    for cb in copy.deepcopy(callee_j["blocks"]):
        _shift(cb, lo, bo)
        cb["istack"] = istack + (callee_key,)
        if cfile:
            cb["file"] = cfile
        if cb["term"]["t"] == "return":
            cb["stmts"].append(_assign(copy.deepcopy(t["dest"]), {"o": "move", "place": _place(lo)}))
            if t.get("target") is not None:
                cb["term"] = {"t": "goto", "target": t["target"]}
            else:
                cb["term"] = {"t": "other", "dbg": "unreachable after inlined diverging call"}
        blocks.append(cb)
    for i, a in enumerate(arg_ops):
        blocks[b]["stmts"].append(_assign(_place(lo + 1 + i), a))
    blocks[b]["term"] = {"t": "goto", "target": bo}
    blocks[b]["inlined_call"] = callee_key


FUSE_PLAIN_LOOPS = True


def _fuse_adaptor(blocks, locals_, b, view):
    """`for y in it.filter(p) { .. }`  ==  `for y in it { if !p(&y) { continue }; .. }`,  `for y in it.map(f) { .. }`  ==
    `for x in it { let y = f(x); .. }`  (rust-src core/src/iter/adapters/{filter,map}.rs: `Filter::next = self.iter.find(&mut
    self.predicate)`, `Map::next = self.iter.next().map(&mut self.f)`).  Applied to the loops that the std models of
    try_fold / fold / for_each / try_for_each introduce, when the adaptor value is used by that loop only."""
    t = blocks[b]["term"]
    src = strip(view.resolve_operand(t["args"][0]), keep_var=True)
    for _ in range(6):
        if src[0] in ("ref", "deref"):
            src = src[2] if src[0] == "ref" else src[1]
        else:
            break
    if src[0] != "var" or len(src) < 3:
        return False
    cterm = src[2]
    via_into_iter = None
    if cterm[0] == "call" and cterm[1] == "std::iter::IntoIterator::into_iter" and len(cterm[2]) == 1 and len(cterm) >= 4:
        # `for y in it.filter(p)`: the loop iterates into_iter(adaptor), which is the adaptor (impl<I: Iterator> IntoIterator for I)
        via_into_iter = cterm[3]
        cterm = cterm[2][0]
    if cterm[0] != "call" or cterm[1] not in ("std::iter::Iterator::filter", "std::iter::Iterator::map") or len(cterm) < 4:
        return False
    kind, dbb = cterm[1].split("::")[-1], cterm[3]
    if blocks[dbb]["term"]["t"] != "call" or blocks[dbb]["term"]["dest"]["proj"]:
        return False
    it_local = blocks[dbb]["term"]["dest"]["l"] if via_into_iter is not None else src[1]
    dt = blocks[dbb]["term"]
    if dt["t"] != "call" or dt["dest"]["proj"] or dt["dest"]["l"] != it_local or len(dt["args"]) != 2 or dt.get("target") is None:
        return False
    # the adaptor value is borrowed for this `next` only (plus drops)
    mentions = 0
    for bl in blocks:
        if bl["cleanup"]:
            continue
        mentions += sum(1 for st in bl["stmts"] if _mentions_local(st, it_local))
        if bl["term"]["t"] != "drop":
            mentions += 1 if _mentions_local(bl["term"], it_local) else 0
    if mentions != 2:   # the defining call and one `&mut it`
        return False
    # the loop shape: next -> switch on discr -> Some arm starting with the payload read
    tb = t.get("target")
    if tb is None or blocks[tb]["term"]["t"] != "switch":
        return False
    arms = dict((v, tg) for (v, tg) in blocks[tb]["term"]["arms"])
    if 1 not in arms:
        return False
    sb = arms[1]
    n_local = t["dest"]["l"]
    pay = None
    for i, st in enumerate(blocks[sb]["stmts"]):
        if st.get("s") == "assign" and st["rv"]["r"] == "use" and st["rv"]["op"]["o"] in ("copy", "move") and st["rv"]["op"]["place"]["l"] == n_local and [p_.get("p") for p_ in st["rv"]["op"]["place"]["proj"]] == ["downcast", "field"] and not st["place"]["proj"]:
            pay = i
            break
    if pay is None or len([p_ for p_ in view.preds()[sb] if not blocks[p_]["cleanup"]]) != 1:
        return False
    self_ty = (dt["callee"].get("args") or ["?"])[0]
    span = blocks[sb].get("span")
    fil = blocks[sb].get("file")
    line = blocks[sb]["stmts"][pay].get("line")
    A = lambda place, rv: {"s": "assign", "place": place, "rv": rv, "line": line, "model": True}  # noqa: E731

    def new_local(ty):
        locals_.append({"ty": ty, "mut": True, "model": True})
        return len(locals_) - 1
    # 1. the adaptor is taken apart where it was built: it = inner; f = closure
    f_local = new_local(locals_[dt["args"][1]["place"]["l"]]["ty"] if dt["args"][1].get("place") and not dt["args"][1]["place"]["proj"] else "?")
    blocks[dbb]["stmts"].append(A(_pl(it_local), {"r": "use", "op": copy.deepcopy(dt["args"][0])}))
    blocks[dbb]["stmts"].append(A(_pl(f_local), {"r": "use", "op": copy.deepcopy(dt["args"][1])}))
    blocks[dbb]["term"] = {"t": "goto", "target": dt["target"]}
    old_ty = locals_[it_local]["ty"]
    locals_[it_local] = dict(locals_[it_local], ty=self_ty)
    if via_into_iter is not None and old_ty not in ("?", self_ty):
        # the loop's own iterator variable (into_iter(adaptor) and its moves) holds the inner iterator now
        for i_, l_ in enumerate(locals_):
            if l_.get("ty") == old_ty:
                locals_[i_] = dict(l_, ty=self_ty)
    # 2. `next` is the inner iterator's
    t["callee"] = dict(t["callee"], resolved={"path": "<%s as std::iter::Iterator>::next" % self_ty, "full": "<%s as std::iter::Iterator>::next" % self_ty, "args": [], "local": False, "kind": "Item"}, args=[self_ty], fused_from=kind)
    # 3. the Some arm
    head = blocks[sb]["stmts"][:pay + 1]
    rest = blocks[sb]["stmts"][pay + 1:]
    x = blocks[sb]["stmts"][pay]["place"]["l"]
    restb = len(blocks)
    blocks.append({"stmts": rest, "term": blocks[sb]["term"], "cleanup": False, "span": span, "file": fil, "model": True, "istack": blocks[sb].get("istack", ())})
    pr = new_local("&mut " + locals_[f_local]["ty"])
    targs = new_local("(Item,)")
    if kind == "filter":
        rx = new_local("&" + locals_[x]["ty"])
        c = new_local("bool")
        testb = len(blocks)
        blocks.append({"stmts": [], "term": {"t": "switch", "discr": {"o": "move", "place": _pl(c)}, "discr_ty": "bool", "arms": [[0, b]], "otherwise": restb}, "cleanup": False, "span": span, "file": fil, "model": True, "istack": blocks[sb].get("istack", ())})
        blocks[sb]["stmts"] = head + [A(_pl(rx), {"r": "ref", "bk": "shared", "place": _pl(x)}), A(_pl(pr), {"r": "ref", "bk": "mut", "place": _pl(f_local)}), A(_pl(targs), {"r": "aggregate", "ak": "tuple", "ops": [_mv(rx)]})]
        blocks[sb]["term"] = _call("std::ops::FnMut::call_mut", [_mv(pr), _mv(targs)], c, testb, "std::ops::FnMut", "call_mut")
    else:
        x0 = new_local("Item")
        head[-1] = dict(head[-1], place=_pl(x0))
        blocks[sb]["stmts"] = head + [A(_pl(pr), {"r": "ref", "bk": "mut", "place": _pl(f_local)}), A(_pl(targs), {"r": "aggregate", "ak": "tuple", "ops": [_mv(x0)]})]
        blocks[sb]["term"] = _call("std::ops::FnMut::call_mut", [_mv(pr), _mv(targs)], x, restb, "std::ops::FnMut", "call_mut")
    blocks[sb]["term"]["model"] = True
    return True


def inline_body(facts, key, opaque):
    """-> (blocks, locals, [inlined callee keys]) for body `key`, or None if nothing was inlined"""
    j = facts.j["bodies"][key]
    blocks = copy.deepcopy(j["blocks"])
    locals_ = copy.deepcopy(j["locals"])
    done = []
    rewritten = 0
    guard = 0
    progress = True
    while progress and guard < 60:
        progress = False
        guard += 1
        view = None
        for b in range(len(blocks)):
            t = blocks[b]["term"]
            if t["t"] != "call" or blocks[b]["cleanup"]:
                continue
            istack = blocks[b].get("istack", ())
            if len(istack) >= MAX_DEPTH:
                continue
            ce = t["callee"]
            path = ce.get("path")
            if path is None:
                continue
            if path == "std::iter::Iterator::next" and (t.get("model") or FUSE_PLAIN_LOOPS) and len(t["args"]) == 1 and not ce.get("fused"):
                if view is None:
                    view = Body(facts, key, dict(j, blocks=blocks, locals=locals_), ssa=False)
                if _fuse_adaptor(blocks, locals_, b, view):
                    done.append("std-model:adaptor-fusion")
                    progress = True
                    break
                ce["fused"] = True   # nothing (more) to fuse here
            r = ce.get("resolved")
            target = r["path"] if r and r.get("local") and r["path"] in facts.j["bodies"] else (path if path in facts.j["bodies"] else None)
            if target and target != key and target not in istack and inlinable(facts, target, opaque, key):
                cj = facts.j["bodies"][target]
                if cj["arg_count"] == len(t["args"]):
                    _splice(blocks, locals_, b, cj, t["args"], istack, target)
                    done.append(target)
                    progress = True
                    break
            if path == "std::mem::replace" and len(t["args"]) == 2 and not t["dest"]["proj"] and t.get("target") is not None:
                # `old = mem::replace(&mut x, v)`  ==  `old = x; x = v`   (rust-src core/src/mem/mod.rs: ptr::read + ptr::write)
                # applied when the borrow is a temporary taken in this very block for this call only
                a0 = t["args"][0]
                if a0["o"] == "move" and not a0["place"]["proj"]:
                    tmp = a0["place"]["l"]
                    stm = blocks[b]["stmts"]
                    drop_idx = []
                    tgt = None
                    for _ in range(3):   # `_a = &mut x; _b = &mut *_a; replace(move _b, v)`
                        refs = [i for i, st in enumerate(stm) if st.get("s") == "assign" and st["place"]["l"] == tmp and not st["place"]["proj"]]
                        uses = sum(1 for bl2 in blocks for st in bl2["stmts"] if _mentions_local(st, tmp)) + sum(1 for bl2 in blocks if _mentions_local(bl2["term"], tmp))
                        if len(refs) != 1 or uses != 2:
                            break
                        rv = stm[refs[0]]["rv"]
                        if rv["r"] != "ref" or rv["bk"] != "mut":
                            break
                        drop_idx.append(refs[0])
                        if not any(p_.get("p") == "deref" for p_ in rv["place"]["proj"]):
                            tgt = copy.deepcopy(rv["place"])
                            break
                        if [p_.get("p") for p_ in rv["place"]["proj"]] != ["deref"]:
                            break
                        tmp = rv["place"]["l"]
                    if tgt is not None and not any(_mentions_local(st, tgt["l"]) for i, st in enumerate(stm) if i > min(drop_idx) and i not in drop_idx):
                        line = stm[drop_idx[0]].get("line")
                        stmts = [st for i, st in enumerate(stm) if i not in drop_idx]
                        stmts.append({"s": "assign", "place": copy.deepcopy(t["dest"]), "rv": {"r": "use", "op": {"o": "copy", "place": copy.deepcopy(tgt)}}, "line": line, "model": True})
                        stmts.append({"s": "assign", "place": tgt, "rv": {"r": "use", "op": copy.deepcopy(t["args"][1])}, "line": line, "model": True})
                        blocks[b]["stmts"] = stmts
                        blocks[b]["term"] = {"t": "goto", "target": t["target"]}
                        done.append("std-model:mem::replace")
                        progress = True
                        break
            if path in STD_MODELS and not t["dest"]["proj"]:
                cj = STD_MODELS[path](blocks[b].get("span"))
                if cj["arg_count"] == len(t["args"]):
                    _splice(blocks, locals_, b, cj, t["args"], istack, "std-model:" + path.split("::")[-1])
                    done.append("std-model:" + path)
                    progress = True
                    break
            if path == "std::iter::Iterator::try_for_each" and len(t["args"]) == 2 and len(ce.get("args", [])) >= 3:
                # generic arguments: [Self, F, R]
                ret_ty = ce["args"][2]
                if ret_ty.startswith("std::result::Result<(),"):
                    cj = model_try_for_each(ce["args"][0], ce["args"][1], ret_ty, blocks[b].get("span"))
                    _splice(blocks, locals_, b, cj, t["args"], istack, "std-model:Iterator::try_for_each")
                    done.append("std-model:Iterator::try_for_each")
                    progress = True
                    break
            if path == "std::iter::Iterator::try_fold" and len(t["args"]) == 3 and len(ce.get("args", [])) >= 4 and not t["dest"]["proj"]:
                # generic arguments: [Self, B, F, R]
                ret_ty = ce["args"][3]
                if ret_ty.startswith("std::result::Result<"):
                    cj = model_try_fold(ce["args"][0], ce["args"][1], ce["args"][2], ret_ty, blocks[b].get("span"))
                    _splice(blocks, locals_, b, cj, t["args"], istack, "std-model:Iterator::try_fold")
                    done.append("std-model:Iterator::try_fold")
                    progress = True
                    break
            if path == "std::iter::Iterator::fold" and len(t["args"]) == 3 and len(ce.get("args", [])) >= 3 and not t["dest"]["proj"]:
                cj = model_fold(ce["args"][0], ce["args"][1], ce["args"][2], blocks[b].get("span"))
                _splice(blocks, locals_, b, cj, t["args"], istack, "std-model:Iterator::fold")
                done.append("std-model:Iterator::fold")
                progress = True
                break
            if path == "std::iter::Iterator::for_each" and len(t["args"]) == 2 and len(ce.get("args", [])) >= 2 and not t["dest"]["proj"]:
                cj = model_for_each(ce["args"][0], ce["args"][1], blocks[b].get("span"))
                _splice(blocks, locals_, b, cj, t["args"], istack, "std-model:Iterator::for_each")
                done.append("std-model:Iterator::for_each")
                progress = True
                break
            if path in CLOSURE_CALLS and len(t["args"]) == 2:
                if view is None:
                    view = Body(facts, key, dict(j, blocks=blocks, locals=locals_), ssa=False)
                f = strip(view.resolve_operand(t["args"][0]), keep_var=False)
                tup = t["args"][1]
                if f[0] == "closure" and f[1] in facts.j["bodies"] and f[1] not in istack:
                    cj = facts.j["bodies"][f[1]]
                    n = cj["arg_count"] - 1
                    ops = [t["args"][0]]
                    if tup["o"] in ("copy", "move"):
                        for i in range(n):
                            pl = copy.deepcopy(tup["place"])
                            pl["proj"] = pl["proj"] + [{"p": "field", "i": i, "name": str(i)}]
                            ops.append({"o": "copy", "place": pl})
                    elif n != 0:
                        continue
                    _splice(blocks, locals_, b, cj, ops, istack, f[1])
                    done.append(f[1])
                    progress = True
                    break
                if f[0] == "fn" and tup["o"] in ("copy", "move") and f[1].split("::")[-1] in CTOR_FNS and not tup["place"]["proj"] and not t["dest"]["proj"] and t.get("target") is not None:
                    # `.map(Some)` / `.map(Ok)`: the tuple-variant constructor used as a function is the aggregate
                    en, var, idx = CTOR_FNS[f[1].split("::")[-1]]
                    pl = copy.deepcopy(tup["place"])
                    pl["proj"] = pl["proj"] + [{"p": "field", "i": 0, "name": "0"}]
                    blocks[b]["stmts"].append({"s": "assign", "place": copy.deepcopy(t["dest"]), "rv": {"r": "aggregate", "ak": "adt", "path": en, "variant": var, "variant_idx": idx, "args": [], "fields": ["0"], "ops": [{"o": "move", "place": pl}]}, "inl": True})
                    blocks[b]["term"] = {"t": "goto", "target": t["target"]}
                    rewritten += 1
                    progress = True
                    break
                if f[0] == "fn" and tup["o"] in ("copy", "move"):
                    # a fn item passed as the callback: call it directly with the untupled arguments
                    fpath = f[1]
                    tl = view.locals[tup["place"]["l"]]["ty"] if not tup["place"]["proj"] else None
                    n = _tuple_arity(tl)
                    if n is None:
                        continue
                    args = []
                    for i in range(n):
                        pl = copy.deepcopy(tup["place"])
                        pl["proj"] = pl["proj"] + [{"p": "field", "i": i, "name": str(i)}]
                        args.append({"o": "copy", "place": pl})
                    t["callee"] = {"path": fpath, "full": fpath, "args": [], "local": fpath in facts.j["bodies"], "resolved": None, "via_fn_item": True}
                    t["args"] = args
                    rewritten += 1
                    progress = True
                    break
    if not done and not rewritten:
        return None
    return blocks, locals_, done + ["<fn item call>"] * rewritten


def _pl(l, *proj):
    return {"l": l, "proj": list(proj), "s": "_%d" % l}


def _mv(l, *proj):
    return {"o": "move", "place": _pl(l, *proj)}


def _call(path, args, dest, target, trait=None, item=None):
    ce = {"path": path, "full": path, "args": [], "local": False, "resolved": None}
    if trait:
        ce["trait"] = trait
        ce["item"] = item
    return {"t": "call", "callee": ce, "args": args, "dest": _pl(dest), "target": target, "unwind": "continue", "model": True}


def model_try_for_each(iter_ty, clo_ty, ret_ty, span):
    """MIR model of `Iterator::try_for_each(iter, f)` for a closure returning Result<(), E> (rust-src
    core/src/iter/traits/iterator.rs: `fn call(f) -> impl FnMut((), T) -> R { move |(), x| f(x) }; self.try_fold((), call(f))`
    and try_fold's `while let Some(x) = self.next() { accum = f(accum, x)?; } try { accum }`):
        loop { match iter.next() { None => return Ok(()), Some(x) => match f(x) { Ok(()) => {}, r @ Err(_) => return r } } }"""
    L = lambda ty: {"ty": ty, "mut": True, "model": True}  # noqa: E731
    locals_ = [L(ret_ty), L(iter_ty), L(clo_ty), L("&mut " + iter_ty), L("std::option::Option<Item>"), L("isize"), L("Item"), L(ret_ty), L("isize"), L("&mut " + clo_ty), L("(Item,)"), L("()")]
    A = lambda place, rv: {"s": "assign", "place": place, "rv": rv, "line": (span or {}).get("line"), "model": True}  # noqa: E731
    B = lambda stmts, term: {"stmts": stmts, "term": term, "cleanup": False, "span": span, "model": True}  # noqa: E731
    blocks = [
        B([A(_pl(3), {"r": "ref", "bk": "mut", "place": _pl(1)})], _call("std::iter::Iterator::next", [_mv(3)], 4, 1, "std::iter::Iterator", "next")),
        B([A(_pl(5), {"r": "discr", "place": _pl(4), "ety": "std::option::Option<Item>", "enum": "std::option::Option", "variants": ["None", "Some"]})],
          {"t": "switch", "discr": _mv(5), "discr_ty": "isize", "arms": [[0, 2], [1, 3]], "otherwise": 6}),
        B([A(_pl(11), {"r": "aggregate", "ak": "tuple", "ops": []}),
           A(_pl(0), {"r": "aggregate", "ak": "adt", "path": "std::result::Result", "variant": "Ok", "variant_idx": 0, "args": [], "fields": ["0"], "ops": [_mv(11)]})], {"t": "return"}),
        B([A(_pl(6), {"r": "use", "op": _mv(4, {"p": "downcast", "name": "Some", "i": 1}, {"p": "field", "i": 0, "name": "0"})}),
           A(_pl(9), {"r": "ref", "bk": "mut", "place": _pl(2)}),
           A(_pl(10), {"r": "aggregate", "ak": "tuple", "ops": [_mv(6)]})],
          _call("std::ops::FnMut::call_mut", [_mv(9), _mv(10)], 7, 4, "std::ops::FnMut", "call_mut")),
        B([A(_pl(8), {"r": "discr", "place": _pl(7), "ety": ret_ty, "enum": "std::result::Result", "variants": ["Ok", "Err"]})],
          {"t": "switch", "discr": _mv(8), "discr_ty": "isize", "arms": [[0, 0], [1, 5]], "otherwise": 6}),
        B([A(_pl(0), {"r": "use", "op": _mv(7)})], {"t": "return"}),
        B([], {"t": "unreachable"}),
    ]
    return {"kind": "fn", "arg_count": 2, "locals": locals_, "blocks": blocks, "span": span, "debug": []}


def model_for_each(iter_ty, clo_ty, span):
    """MIR model of `Iterator::for_each(iter, f)` (rust-src core/src/iter/traits/iterator.rs: `self.fold((), call(f))` with
    fold's `while let Some(x) = self.next() { accum = f(accum, x); }`):   loop { match iter.next() { None => return, Some(x) => f(x) } }"""
    L = lambda ty: {"ty": ty, "mut": True, "model": True}  # noqa: E731
    locals_ = [L("()"), L(iter_ty), L(clo_ty), L("&mut " + iter_ty), L("std::option::Option<Item>"), L("isize"), L("Item"), L("()"), L("&mut " + clo_ty), L("(Item,)")]
    A = lambda place, rv: {"s": "assign", "place": place, "rv": rv, "line": (span or {}).get("line"), "model": True}  # noqa: E731
    B = lambda stmts, term: {"stmts": stmts, "term": term, "cleanup": False, "span": span, "model": True}  # noqa: E731
    blocks = [
        B([A(_pl(3), {"r": "ref", "bk": "mut", "place": _pl(1)})], _call("std::iter::Iterator::next", [_mv(3)], 4, 1, "std::iter::Iterator", "next")),
        B([A(_pl(5), {"r": "discr", "place": _pl(4), "ety": "std::option::Option<Item>", "enum": "std::option::Option", "variants": ["None", "Some"], "discrs": [0, 1]})],
          {"t": "switch", "discr": _mv(5), "discr_ty": "isize", "arms": [[0, 2], [1, 3]], "otherwise": 4}),
        B([A(_pl(0), {"r": "aggregate", "ak": "tuple", "ops": []})], {"t": "return"}),
        B([A(_pl(6), {"r": "use", "op": _mv(4, {"p": "downcast", "name": "Some", "i": 1}, {"p": "field", "i": 0, "name": "0"})}),
           A(_pl(8), {"r": "ref", "bk": "mut", "place": _pl(2)}),
           A(_pl(9), {"r": "aggregate", "ak": "tuple", "ops": [_mv(6)]})],
          _call("std::ops::FnMut::call_mut", [_mv(8), _mv(9)], 7, 0, "std::ops::FnMut", "call_mut")),
        B([], {"t": "unreachable"}),
    ]
    return {"kind": "fn", "arg_count": 2, "locals": locals_, "blocks": blocks, "span": span, "debug": []}


def model_try_fold(iter_ty, acc_ty, clo_ty, ret_ty, span):
    """MIR model of `Iterator::try_fold(&mut iter, init, f)` for R = Result<B, E> (rust-src core/src/iter/traits/iterator.rs:
    `let mut accum = init; while let Some(x) = self.next() { accum = f(accum, x)?; } try { accum }`):
        acc = init; loop { match iter.next() { None => return Ok(acc), Some(x) => match f(acc, x) { Ok(a) => acc = a, Err(e) => return Err(e) } } }"""
    L = lambda ty: {"ty": ty, "mut": True, "model": True}  # noqa: E731
    #            0          1                    2           3           4             5                               6           7        8          9           10                   11               12
    locals_ = [L(ret_ty), L("&mut " + iter_ty), L(acc_ty), L(clo_ty), L(acc_ty), L("&mut " + iter_ty), L("std::option::Option<Item>"), L("isize"), L("Item"), L(ret_ty), L("isize"), L("&mut " + clo_ty), L("(Acc, Item)")]
    A = lambda place, rv: {"s": "assign", "place": place, "rv": rv, "line": (span or {}).get("line"), "model": True}  # noqa: E731
    B = lambda stmts, term: {"stmts": stmts, "term": term, "cleanup": False, "span": span, "model": True}  # noqa: E731
    blocks = [
        B([A(_pl(4), {"r": "use", "op": _mv(2)})], {"t": "goto", "target": 1}),
        B([A(_pl(5), {"r": "ref", "bk": "mut", "place": _pl(1, {"p": "deref"})})], _call("std::iter::Iterator::next", [_mv(5)], 6, 2, "std::iter::Iterator", "next")),
        B([A(_pl(7), {"r": "discr", "place": _pl(6), "ety": "std::option::Option<Item>", "enum": "std::option::Option", "variants": ["None", "Some"], "discrs": [0, 1]})],
          {"t": "switch", "discr": _mv(7), "discr_ty": "isize", "arms": [[0, 3], [1, 4]], "otherwise": 8}),
        B([A(_pl(0), {"r": "aggregate", "ak": "adt", "path": "std::result::Result", "variant": "Ok", "variant_idx": 0, "args": [], "fields": ["0"], "ops": [_mv(4)]})], {"t": "return"}),
        B([A(_pl(8), {"r": "use", "op": _mv(6, {"p": "downcast", "name": "Some", "i": 1}, {"p": "field", "i": 0, "name": "0"})}),
           A(_pl(11), {"r": "ref", "bk": "mut", "place": _pl(3)}),
           A(_pl(12), {"r": "aggregate", "ak": "tuple", "ops": [_mv(4), _mv(8)]})],
          _call("std::ops::FnMut::call_mut", [_mv(11), _mv(12)], 9, 5, "std::ops::FnMut", "call_mut")),
        B([A(_pl(10), {"r": "discr", "place": _pl(9), "ety": ret_ty, "enum": "std::result::Result", "variants": ["Ok", "Err"], "discrs": [0, 1]})],
          {"t": "switch", "discr": _mv(10), "discr_ty": "isize", "arms": [[0, 6], [1, 7]], "otherwise": 8}),
        B([A(_pl(4), {"r": "use", "op": _mv(9, {"p": "downcast", "name": "Ok", "i": 0}, {"p": "field", "i": 0, "name": "0"})})], {"t": "goto", "target": 1}),
        B([A(_pl(0), {"r": "aggregate", "ak": "adt", "path": "std::result::Result", "variant": "Err", "variant_idx": 1, "args": [], "fields": ["0"],
                      "ops": [_mv(9, {"p": "downcast", "name": "Err", "i": 1}, {"p": "field", "i": 0, "name": "0"})]})], {"t": "return"}),
        B([], {"t": "unreachable"}),
    ]
    return {"kind": "fn", "arg_count": 3, "locals": locals_, "blocks": blocks, "span": span, "debug": []}


def model_fold(iter_ty, acc_ty, clo_ty, span):
    """MIR model of `Iterator::fold(iter, init, f)`: `let mut accum = init; while let Some(x) = self.next() { accum = f(accum, x); } accum`"""
    L = lambda ty: {"ty": ty, "mut": True, "model": True}  # noqa: E731
    locals_ = [L(acc_ty), L(iter_ty), L(acc_ty), L(clo_ty), L(acc_ty), L("&mut " + iter_ty), L("std::option::Option<Item>"), L("isize"), L("Item"), L(acc_ty), L("&mut " + clo_ty), L("(Acc, Item)")]
    A = lambda place, rv: {"s": "assign", "place": place, "rv": rv, "line": (span or {}).get("line"), "model": True}  # noqa: E731
    B = lambda stmts, term: {"stmts": stmts, "term": term, "cleanup": False, "span": span, "model": True}  # noqa: E731
    blocks = [
        B([A(_pl(4), {"r": "use", "op": _mv(2)})], {"t": "goto", "target": 1}),
        B([A(_pl(5), {"r": "ref", "bk": "mut", "place": _pl(1)})], _call("std::iter::Iterator::next", [_mv(5)], 6, 2, "std::iter::Iterator", "next")),
        B([A(_pl(7), {"r": "discr", "place": _pl(6), "ety": "std::option::Option<Item>", "enum": "std::option::Option", "variants": ["None", "Some"], "discrs": [0, 1]})],
          {"t": "switch", "discr": _mv(7), "discr_ty": "isize", "arms": [[0, 3], [1, 4]], "otherwise": 6}),
        B([A(_pl(0), {"r": "use", "op": _mv(4)})], {"t": "return"}),
        B([A(_pl(8), {"r": "use", "op": _mv(6, {"p": "downcast", "name": "Some", "i": 1}, {"p": "field", "i": 0, "name": "0"})}),
           A(_pl(10), {"r": "ref", "bk": "mut", "place": _pl(3)}),
           A(_pl(11), {"r": "aggregate", "ak": "tuple", "ops": [_mv(4), _mv(8)]})],
          _call("std::ops::FnMut::call_mut", [_mv(10), _mv(11)], 9, 5, "std::ops::FnMut", "call_mut")),
        B([A(_pl(4), {"r": "use", "op": _mv(9)})], {"t": "goto", "target": 1}),
        B([], {"t": "unreachable"}),
    ]
    return {"kind": "fn", "arg_count": 3, "locals": locals_, "blocks": blocks, "span": span, "debug": []}


# ---------------------------------------------------------------------------------------------------------------------
# MIR models of the Option / Result / bool combinators (rust-src core/src/option.rs, result.rs, bool.rs: each is a
# `match` on self; the definitions are quoted next to the models).  With them a combinator chain and the `match` it
# abbreviates have the same inlined normal form.
OPT = ["None", "Some"]
RES = ["Ok", "Err"]


class _MB:
    """tiny builder for model bodies: locals are numbered in creation order, _0 is the return place, _1.. the arguments"""

    def __init__(self, nargs, span):
        self.span = span
        self.locals = [{"ty": "?", "mut": True, "model": True} for _ in range(nargs + 1)]
        self.blocks = []
        self.nargs = nargs

    def local(self, ty="?"):
        self.locals.append({"ty": ty, "mut": True, "model": True})
        return len(self.locals) - 1

    def block(self):
        self.blocks.append({"stmts": [], "term": {"t": "unreachable"}, "cleanup": False, "span": self.span, "model": True})
        return len(self.blocks) - 1

    def assign(self, b, place, rv):
        self.blocks[b]["stmts"].append({"s": "assign", "place": place, "rv": rv, "line": (self.span or {}).get("line"), "model": True})

    def use(self, b, dst, op):
        self.assign(b, _pl(dst), {"r": "use", "op": op})

    def agg(self, b, dst, path, variant, idx, ops):
        self.assign(b, _pl(dst), {"r": "aggregate", "ak": "adt", "path": path, "variant": variant, "variant_idx": idx, "args": [], "fields": [str(i) for i in range(len(ops))], "ops": ops})

    def switch_variant(self, b, src, enum, variants):
        """ends block b with a switch on the discriminant of local src; returns the new blocks for each variant"""
        d = self.local("isize")
        self.assign(b, _pl(d), {"r": "discr", "place": _pl(src), "ety": enum, "enum": enum, "variants": variants, "discrs": list(range(len(variants)))})
        tg = [self.block() for _ in variants]
        dead = self.block()
        self.blocks[b]["term"] = {"t": "switch", "discr": _mv(d), "discr_ty": "isize", "arms": [[i, t] for i, t in enumerate(tg)], "otherwise": dead}
        return tg

    def switch_bool(self, b, src):
        t_, f_ = self.block(), self.block()
        self.blocks[b]["term"] = {"t": "switch", "discr": {"o": "copy", "place": _pl(src)}, "discr_ty": "bool", "arms": [[0, f_]], "otherwise": t_}
        return t_, f_

    def payload(self, b, src, variant, idx):
        x = self.local()
        self.use(b, x, _mv(src, {"p": "downcast", "name": variant, "i": idx}, {"p": "field", "i": 0, "name": "0"}))
        return x

    def call_fn(self, b, f, args, dst, kind="std::ops::FnOnce::call_once"):
        """dst = f(args...) through the Fn* trait call, continuing in a new block which is returned"""
        t = self.local("(..)")
        self.assign(b, _pl(t), {"r": "aggregate", "ak": "tuple", "ops": [_mv(a) for a in args]})
        nb = self.block()
        self.blocks[b]["term"] = _call(kind, [_mv(f), _mv(t)], dst, nb, kind.rsplit("::", 1)[0], kind.rsplit("::", 1)[1])
        return nb

    def ret(self, b):
        self.blocks[b]["term"] = {"t": "return"}

    def body(self):
        return {"kind": "fn", "arg_count": self.nargs, "locals": self.locals, "blocks": self.blocks, "span": self.span, "debug": []}


def _m_option_map(span):          # match self { Some(x) => Some(f(x)), None => None }
    m = _MB(2, span); b = m.block(); none, some = m.switch_variant(b, 1, "std::option::Option", OPT)
    m.agg(none, 0, "std::option::Option", "None", 0, []); m.ret(none)
    x = m.payload(some, 1, "Some", 1); r = m.local(); nb = m.call_fn(some, 2, [x], r)
    m.agg(nb, 0, "std::option::Option", "Some", 1, [_mv(r)]); m.ret(nb)
    return m.body()


def _m_option_and_then(span):     # match self { Some(x) => f(x), None => None }
    m = _MB(2, span); b = m.block(); none, some = m.switch_variant(b, 1, "std::option::Option", OPT)
    m.agg(none, 0, "std::option::Option", "None", 0, []); m.ret(none)
    x = m.payload(some, 1, "Some", 1); nb = m.call_fn(some, 2, [x], 0); m.ret(nb)
    return m.body()


def _m_option_map_or(span):       # match self { Some(t) => f(t), None => default }
    m = _MB(3, span); b = m.block(); none, some = m.switch_variant(b, 1, "std::option::Option", OPT)
    m.use(none, 0, _mv(2)); m.ret(none)
    x = m.payload(some, 1, "Some", 1); nb = m.call_fn(some, 3, [x], 0); m.ret(nb)
    return m.body()


def _m_option_map_or_else(span):  # match self { Some(t) => f(t), None => default() }
    m = _MB(3, span); b = m.block(); none, some = m.switch_variant(b, 1, "std::option::Option", OPT)
    nb0 = m.call_fn(none, 2, [], 0); m.ret(nb0)
    x = m.payload(some, 1, "Some", 1); nb = m.call_fn(some, 3, [x], 0); m.ret(nb)
    return m.body()


def _m_option_ok_or(span):        # match self { Some(v) => Ok(v), None => Err(err) }
    m = _MB(2, span); b = m.block(); none, some = m.switch_variant(b, 1, "std::option::Option", OPT)
    m.agg(none, 0, "std::result::Result", "Err", 1, [_mv(2)]); m.ret(none)
    x = m.payload(some, 1, "Some", 1); m.agg(some, 0, "std::result::Result", "Ok", 0, [_mv(x)]); m.ret(some)
    return m.body()


def _m_option_ok_or_else(span):   # match self { Some(v) => Ok(v), None => Err(err()) }
    m = _MB(2, span); b = m.block(); none, some = m.switch_variant(b, 1, "std::option::Option", OPT)
    e = m.local(); nb = m.call_fn(none, 2, [], e); m.agg(nb, 0, "std::result::Result", "Err", 1, [_mv(e)]); m.ret(nb)
    x = m.payload(some, 1, "Some", 1); m.agg(some, 0, "std::result::Result", "Ok", 0, [_mv(x)]); m.ret(some)
    return m.body()


def _m_option_unwrap_or(span):    # match self { Some(x) => x, None => default }
    m = _MB(2, span); b = m.block(); none, some = m.switch_variant(b, 1, "std::option::Option", OPT)
    m.use(none, 0, _mv(2)); m.ret(none)
    x = m.payload(some, 1, "Some", 1); m.use(some, 0, _mv(x)); m.ret(some)
    return m.body()


def _m_option_is_some_and(span):  # match self { None => false, Some(x) => f(x) }
    m = _MB(2, span); b = m.block(); none, some = m.switch_variant(b, 1, "std::option::Option", OPT)
    m.use(none, 0, {"o": "const", "c": {"ty": "bool", "k": "val", "v": False}}); m.ret(none)
    x = m.payload(some, 1, "Some", 1); nb = m.call_fn(some, 2, [x], 0); m.ret(nb)
    m.locals[0]["ty"] = "bool"
    return m.body()


def _m_option_transpose(span):    # Some(Ok(x)) => Ok(Some(x)), Some(Err(e)) => Err(e), None => Ok(None)
    m = _MB(1, span); b = m.block(); none, some = m.switch_variant(b, 1, "std::option::Option", OPT)
    n = m.local(); m.agg(none, n, "std::option::Option", "None", 0, []); m.agg(none, 0, "std::result::Result", "Ok", 0, [_mv(n)]); m.ret(none)
    r = m.payload(some, 1, "Some", 1); ok, err = m.switch_variant(some, r, "std::result::Result", RES)
    x = m.payload(ok, r, "Ok", 0); sx = m.local(); m.agg(ok, sx, "std::option::Option", "Some", 1, [_mv(x)]); m.agg(ok, 0, "std::result::Result", "Ok", 0, [_mv(sx)]); m.ret(ok)
    e = m.payload(err, r, "Err", 1); m.agg(err, 0, "std::result::Result", "Err", 1, [_mv(e)]); m.ret(err)
    return m.body()


def _m_result_map(span):          # match self { Ok(t) => Ok(op(t)), Err(e) => Err(e) }
    m = _MB(2, span); b = m.block(); ok, err = m.switch_variant(b, 1, "std::result::Result", RES)
    x = m.payload(ok, 1, "Ok", 0); r = m.local(); nb = m.call_fn(ok, 2, [x], r); m.agg(nb, 0, "std::result::Result", "Ok", 0, [_mv(r)]); m.ret(nb)
    e = m.payload(err, 1, "Err", 1); m.agg(err, 0, "std::result::Result", "Err", 1, [_mv(e)]); m.ret(err)
    return m.body()


def _m_result_map_err(span):      # match self { Ok(t) => Ok(t), Err(e) => Err(op(e)) }
    m = _MB(2, span); b = m.block(); ok, err = m.switch_variant(b, 1, "std::result::Result", RES)
    x = m.payload(ok, 1, "Ok", 0); m.agg(ok, 0, "std::result::Result", "Ok", 0, [_mv(x)]); m.ret(ok)
    e = m.payload(err, 1, "Err", 1); r = m.local(); nb = m.call_fn(err, 2, [e], r); m.agg(nb, 0, "std::result::Result", "Err", 1, [_mv(r)]); m.ret(nb)
    return m.body()


def _m_result_ok(span):           # match self { Ok(x) => Some(x), Err(_) => None }
    m = _MB(1, span); b = m.block(); ok, err = m.switch_variant(b, 1, "std::result::Result", RES)
    x = m.payload(ok, 1, "Ok", 0); m.agg(ok, 0, "std::option::Option", "Some", 1, [_mv(x)]); m.ret(ok)
    m.agg(err, 0, "std::option::Option", "None", 0, []); m.ret(err)
    return m.body()


def _m_result_and_then(span):     # match self { Ok(t) => op(t), Err(e) => Err(e) }
    m = _MB(2, span); b = m.block(); ok, err = m.switch_variant(b, 1, "std::result::Result", RES)
    x = m.payload(ok, 1, "Ok", 0); nb = m.call_fn(ok, 2, [x], 0); m.ret(nb)
    e = m.payload(err, 1, "Err", 1); m.agg(err, 0, "std::result::Result", "Err", 1, [_mv(e)]); m.ret(err)
    return m.body()


def _m_bool_then_some(span):      # if self { Some(t) } else { None }
    m = _MB(2, span); b = m.block(); t_, f_ = m.switch_bool(b, 1)
    m.agg(t_, 0, "std::option::Option", "Some", 1, [_mv(2)]); m.ret(t_)
    m.agg(f_, 0, "std::option::Option", "None", 0, []); m.ret(f_)
    m.locals[1]["ty"] = "bool"
    return m.body()


def _m_bool_then(span):           # if self { Some(f()) } else { None }
    m = _MB(2, span); b = m.block(); t_, f_ = m.switch_bool(b, 1)
    r = m.local(); nb = m.call_fn(t_, 2, [], r); m.agg(nb, 0, "std::option::Option", "Some", 1, [_mv(r)]); m.ret(nb)
    m.agg(f_, 0, "std::option::Option", "None", 0, []); m.ret(f_)
    m.locals[1]["ty"] = "bool"
    return m.body()


STD_MODELS = {
    "std::option::Option::<T>::map": _m_option_map,
    "std::option::Option::<T>::and_then": _m_option_and_then,
    "std::option::Option::<T>::map_or": _m_option_map_or,
    "std::option::Option::<T>::map_or_else": _m_option_map_or_else,
    "std::option::Option::<T>::ok_or": _m_option_ok_or,
    "std::option::Option::<T>::ok_or_else": _m_option_ok_or_else,
    "std::option::Option::<T>::unwrap_or": _m_option_unwrap_or,
    "std::option::Option::<T>::is_some_and": _m_option_is_some_and,
    "std::option::Option::<std::result::Result<T, E>>::transpose": _m_option_transpose,
    "std::result::Result::<T, E>::map": _m_result_map,
    "std::result::Result::<T, E>::map_err": _m_result_map_err,
    "std::result::Result::<T, E>::ok": _m_result_ok,
    "std::result::Result::<T, E>::and_then": _m_result_and_then,
    "core::bool::<impl bool>::then_some": _m_bool_then_some,
    "core::bool::<impl bool>::then": _m_bool_then,
    "std::bool::<impl bool>::then_some": _m_bool_then_some,
    "std::bool::<impl bool>::then": _m_bool_then,
}
CTOR_FNS = {"Some": ("std::option::Option", "Some", 1), "Ok": ("std::result::Result", "Ok", 0), "Err": ("std::result::Result", "Err", 1)}


def _tuple_arity(ty):
    if not ty or not ty.startswith("("):
        return None
    if ty == "()":
        return 0
    depth = 0
    n = 1
    inner = ty[1:-1].rstrip(",")
    if not inner.strip():
        return 0
    for ch in inner:
        if ch in "(<[":
            depth += 1
        elif ch in ")>]":
            depth -= 1
        elif ch == "," and depth == 0:
            n += 1
    return n


def _mentions_local(x, local):
    if isinstance(x, dict):
        if "l" in x and "proj" in x and x["l"] == local:
            return True
        return any(_mentions_local(v, local) for v in x.values())
    if isinstance(x, list):
        return any(_mentions_local(v, local) for v in x)
    return False


def _consumed_closures(bodies):
    made = {}      # closure key -> still handed to somebody (True) / only spliced (False)
    for k, j in bodies.items():
        holders = {}   # local -> closure key it holds (or a reference to it)
        for bl in j["blocks"]:
            for st in bl["stmts"]:
                if st.get("s") == "assign" and st["rv"]["r"] == "aggregate" and st["rv"].get("ak") == "closure" and not st["place"]["proj"]:
                    holders[st["place"]["l"]] = st["rv"]["path"]
                    made.setdefault(st["rv"]["path"], False)
        if not holders:
            continue
        changed = True
        while changed:
            changed = False
            for bl in j["blocks"]:
                for st in bl["stmts"]:
                    if st.get("s") != "assign" or st["place"]["l"] in holders:
                        continue
                    rv = st["rv"]
                    src = None
                    if rv["r"] == "use" and rv["op"]["o"] in ("copy", "move") and not rv["op"]["place"]["proj"]:
                        src = rv["op"]["place"]["l"]
                    elif rv["r"] == "ref" and all(p_.get("p") == "deref" for p_ in rv["place"]["proj"]):
                        src = rv["place"]["l"]
                    if src in holders:
                        if st["place"]["proj"]:
                            made[holders[src]] = True      # stored into a field of something else
                        else:
                            holders[st["place"]["l"]] = holders[src]
                            changed = True
        def ops_of(x):
            if isinstance(x, dict):
                if x.get("o") in ("copy", "move") and "place" in x:
                    yield x["place"]
                for v in x.values():
                    for y in ops_of(v):
                        yield y
            elif isinstance(x, list):
                for v in x:
                    for y in ops_of(v):
                        yield y
        for bl in j["blocks"]:
            if bl.get("dead"):
                continue
            t = bl["term"]
            if t["t"] == "call":
                for pl in ops_of(t["args"]):
                    if pl["l"] in holders and not pl["proj"]:
                        made[holders[pl["l"]]] = True
                if "place" in t["callee"] and t["callee"]["place"]["l"] in holders:
                    made[holders[t["callee"]["place"]["l"]]] = True
            for st in bl["stmts"]:
                if st.get("s") == "assign" and st["rv"]["r"] == "aggregate" and st["rv"].get("ak") != "closure":
                    for pl in ops_of(st["rv"]["ops"]):
                        if pl["l"] in holders and not pl["proj"]:
                            made[holders[pl["l"]]] = True
        if 0 in holders:
            made[holders[0]] = True
    return [c for c, live in made.items() if not live and c in bodies]


def inlined_facts(facts, opaque):
    """A Facts object for the equivalent program in which private helpers outside `opaque` are inlined."""
    newb = {}
    report = {}
    for k, j in facts.j["bodies"].items():
        if j["kind"] not in ("fn", "closure"):
            continue
        r = inline_body(facts, k, opaque)
        if r is None:
            continue
        blocks, locals_, done = r
        if not done:
            continue
        newb[k] = dict(j, blocks=blocks, locals=locals_)
        report[k] = done
    # a helper specialised by a constant enum / bool argument: the matches on that argument are decided (thread.fold_constant_switches)
    from . import thread as _thread
    for k in list(newb):
        view = Body(facts, k, newb[k], ssa=False)
        nfold = _thread.fold_constant_switches(view)
        if nfold:
            report[k].append("folded %d constant switch(es)" % nfold)
    # state-passing folds -> in-place mutation (purlsa.coalesce)
    from . import coalesce
    for k in list(newb):
        if not any(str(d).startswith("std-model:Iterator::try_fold") or str(d).startswith("std-model:Iterator::fold") for d in report.get(k, [])):
            continue
        # on the normal form (threaded, versions split): a result built in several match arms has one definition per path there
        view = Body(facts, k, newb[k], ssa=True)
        nf = coalesce.forward_aggregates(view)
        nm = coalesce.coalesce_moves(view)
        if nf or nm:
            newb[k] = dict(newb[k], blocks=view.blocks, locals=view.locals)
            report[k].append("fold-state: %d reads forwarded, %d moves coalesced" % (nf, nm))
    # push loops over a computed item -> extend(map(..)) with a synthetic closure (purlsa.roll.roll_map_push_loops)
    from . import roll
    synth = {}
    for k, j in facts.j["bodies"].items():
        if j["kind"] not in ("fn", "closure"):
            continue
        cur = newb.get(k, j)
        if not any(bl["term"]["t"] == "call" and not bl["cleanup"] and ((bl["term"]["callee"].get("resolved") or {}).get("path") or bl["term"]["callee"].get("path") or "") in roll.PUSHES for bl in cur["blocks"]):
            continue
        cand = dict(cur, blocks=copy.deepcopy(cur["blocks"]), locals=copy.deepcopy(cur["locals"]))
        view = Body(facts, k, cand, ssa=False)
        made = roll.roll_map_push_loops(view, k, j.get("root", k))
        if made:
            cand["blocks"], cand["locals"] = view.blocks, view.locals
            newb[k] = cand
            report.setdefault(k, []).append("rolled-map-loop")
            for ck, cj in made:
                synth[ck] = cj
    # `for chunk in enc { f.write_str(chunk)? }` -> Display::fmt(&enc, f)? (purlsa.roll.roll_display_loops)
    for k, j in facts.j["bodies"].items():
        if j["kind"] not in ("fn", "closure"):
            continue
        cur = newb.get(k, j)
        if not any(str(l.get("ty", "")).startswith(tuple(roll.DISPLAY_ITERS)) for l in cur["locals"]):
            continue
        cand = dict(cur, blocks=copy.deepcopy(cur["blocks"]), locals=copy.deepcopy(cur["locals"]))
        view = Body(facts, k, cand, ssa=False)
        if not view.loops():
            continue
        if roll.roll_display_loops(view, k):
            cand["blocks"], cand["locals"] = view.blocks, view.locals
            newb[k] = cand
            report.setdefault(k, []).append("rolled-display-loop")
    # flag loops -> Iterator::any with a synthetic closure (purlsa.roll.roll_flag_loops)
    for k, j in facts.j["bodies"].items():
        if j["kind"] not in ("fn", "closure"):
            continue
        cur = newb.get(k, j)
        if not any(bl["term"]["t"] == "switch" and bl["term"].get("discr_ty") == "bool" for bl in cur["blocks"]):
            continue
        cand = dict(cur, blocks=copy.deepcopy(cur["blocks"]), locals=copy.deepcopy(cur["locals"]))
        view = Body(facts, k, cand, ssa=False)
        if not view.loops():
            continue
        made = roll.roll_flag_loops(view, k, j.get("root", k))
        if made:
            cand["blocks"], cand["locals"] = view.blocks, view.locals
            newb[k] = cand
            report.setdefault(k, []).append("rolled-flag-loop")
            for ck, cj in made:
                synth[ck] = cj
    if not newb:
        return None, {}
    j2 = dict(facts.j)
    j2["bodies"] = dict(facts.j["bodies"])
    j2["bodies"].update(newb)
    j2["bodies"].update(synth)
    # a closure whose every construction site had its call spliced in no longer runs as a body of its own: its code is
    # in the parent now, under the parent's path conditions, and analysing the orphan again would judge it without them
    for c in _consumed_closures(j2["bodies"]):
        del j2["bodies"][c]
        report.setdefault(c, []).append("consumed")
    # likewise a private helper *function* all of whose call sites were spliced in (and which is never used as a value):
    # what it does is now judged where it is called, with the arguments it is called with (`insert_at(v, index, ..)` with
    # the index the caller got from the search)
    for c in _consumed_helpers(facts, j2["bodies"], report):
        del j2["bodies"][c]
        report.setdefault(c, []).append("consumed")
    f2 = Facts(j2, facts.path)
    f2.extract_s = getattr(facts, "extract_s", 0)
    f2.inlined = report
    return f2, report


def _consumed_helpers(facts, bodies, report):
    inlined_somewhere = set()
    for k, lst in report.items():
        for x in lst:
            if isinstance(x, str) and x in bodies:
                inlined_somewhere.add(x)
    out = []
    for c in sorted(inlined_somewhere):
        f = facts.fns.get(c)
        b = bodies.get(c)
        if not f or not b or b.get("kind") != "fn":
            continue
        if f.get("reachable") or f.get("exported") or f.get("vis") == "public" or "impl_trait" in f or f.get("impl_trait_def"):
            continue
        used = False
        for k2, b2 in bodies.items():
            if k2 == c:
                continue
            for bl in b2["blocks"]:
                t = bl["term"]
                if t["t"] == "call":
                    ce = t["callee"]
                    r = (ce.get("resolved") or {}).get("path")
                    if ce.get("path") == c or r == c:
                        used = True
                if _fn_value_used(bl, c):
                    used = True
            if used:
                break
        if not used:
            out.append(c)
    return out


def _fn_value_used(x, c):
    if isinstance(x, dict):
        if x.get("k") == "fn" and (x.get("path") == c or x.get("resolved") == c):
            return True
        return any(_fn_value_used(v, c) for v in x.values())
    if isinstance(x, list):
        return any(_fn_value_used(v, c) for v in x)
    return False
