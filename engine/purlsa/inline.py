"""purlsa.inline -- the "inlined normal form" of the crate (DESIGN.md 2.2, second view).

A rule is written against the shape of one function.  Extracting part of that function into a private helper (possibly a
higher-order one taking closures), or wrapping a step in a closure, leaves behaviour unchanged but hides the shape.  This
module produces an equivalent program in which calls to private helper functions -- and calls of closures / fn items
passed to them -- are replaced by the callee's MIR (classic procedure inlining on the extracted MIR JSON: fresh locals and
blocks, parameters assigned at the call site, `return` replaced by an assignment to the call's destination and a jump
to its target).  Inlining preserves semantics, so an obligation discharged on the inlined form holds for the program.
The runner uses this form only as a second view, when a rule does not go through on the program as written.

What is never inlined: functions reachable from the public API (except a sibling method that a method merely delegates
to), trait methods, recursive calls, the anchors passed in `opaque` (the functions the rules identify by role, among
them the validity predicates), and anything larger than MAX_BLOCKS.
"""
import copy

from .core import Body, Facts, strip

MAX_BLOCKS = 160
MAX_DEPTH = 4
CLOSURE_CALLS = ("std::ops::Fn::call", "std::ops::FnMut::call_mut", "std::ops::FnOnce::call_once")


def inlinable(facts, k, opaque, caller=None):
    if k in opaque or k not in facts.j["bodies"]:
        return False
    b = facts.j["bodies"][k]
    if b["kind"] != "fn" or len(b["blocks"]) > MAX_BLOCKS:
        return False
    f = facts.fns.get(k)
    if not f:
        return False
    if f.get("reachable") or f.get("exported") or f.get("vis") == "public":
        # a public method is inlined only into a sibling method of the same impl type that merely delegates to it
        # (`without_x(self)` = `self.with_x("")`): small, loop-free callee
        cf = facts.fns.get(caller) if caller else None
        if not (cf and f.get("impl_self") and f.get("impl_self") == cf.get("impl_self") and "impl_trait" not in f and "impl_trait" not in cf and len(b["blocks"]) <= 12 and not _has_loop(b) and _pure_delegate(facts, caller, k)):
            return False
    if "impl_trait" in f or f.get("impl_trait_def"):
        return False
    return True


def _pure_delegate(facts, caller, callee):
    """the caller does nothing but call `callee` (apart from value conversions of the arguments / the result)"""
    from .sem import is_conv
    n = 0
    for bl in facts.j["bodies"][caller]["blocks"]:
        if bl["cleanup"]:
            continue
        t = bl["term"]
        if t["t"] != "call":
            continue
        ce = t["callee"]
        p = (ce.get("resolved") or {}).get("path") or ce.get("path")
        if p == callee or ce.get("path") == callee:
            n += 1
            continue
        if p is None:
            return False
        if is_conv(p) or is_conv(ce.get("path")) or p.endswith("Default>::default") or p == "std::default::Default::default":
            continue
        return False
    return n == 1


def _has_loop(j):
    """any back edge in the raw body (DFS)?"""
    color = {}

    def succ(b):
        t = j["blocks"][b]["term"]
        k = t["t"]
        if k == "goto":
            return [t["target"]]
        if k == "switch":
            return [tg for (_, tg) in t["arms"]] + [t["otherwise"]]
        if k in ("call", "drop", "assert"):
            return [t["target"]] if t.get("target") is not None else []
        return []
    stack = [(0, iter(succ(0)))]
    color[0] = 1
    while stack:
        n, it = stack[-1]
        adv = False
        for s_ in it:
            if color.get(s_) == 1:
                return True
            if s_ not in color:
                color[s_] = 1
                stack.append((s_, iter(succ(s_))))
                adv = True
                break
        if not adv:
            color[n] = 2
            stack.pop()
    return False


def _shift(node, lo, bo):
    """renumber locals (+lo) and block targets (+bo) in a copied callee block"""
    if isinstance(node, dict):
        if "l" in node and "proj" in node:
            node["l"] += lo
            for pr in node["proj"]:
                if pr.get("p") == "index" and "local" in pr:
                    pr["local"] += lo
            return
        t = node.get("t")
        if t is not None:
            if t == "goto":
                node["target"] += bo
            elif t == "switch":
                node["arms"] = [[v, tg + bo] for (v, tg) in node["arms"]]
                node["otherwise"] += bo
            elif t in ("call", "drop", "assert"):
                if node.get("target") is not None:
                    node["target"] += bo
                if isinstance(node.get("unwind"), int):
                    node["unwind"] += bo
        for k, v in node.items():
            if k in ("target", "otherwise", "arms", "unwind"):
                continue
            _shift(v, lo, bo)
    elif isinstance(node, list):
        for v in node:
            _shift(v, lo, bo)


def _place(l):
    return {"l": l, "proj": [], "s": "_%d" % l}


def _assign(dst_place, op, line=None):
    return {"s": "assign", "place": dst_place, "rv": {"r": "use", "op": op}, "line": line, "inl": True}


def _splice(blocks, locals_, b, callee_j, arg_ops, istack, callee_key):
    """inline callee_j at the call terminating block b; arg_ops are operands (in the caller's numbering)"""
    t = blocks[b]["term"]
    lo, bo = len(locals_), len(blocks)
    for l in copy.deepcopy(callee_j["locals"]):
        l["inl_of"] = callee_key
        locals_.append(l)
    cfile = (callee_j.get("span") or {}).get("file")
    for cb in copy.deepcopy(callee_j["blocks"]):
        _shift(cb, lo, bo)
        cb["istack"] = istack + (callee_key,)
        if cfile:
            cb["file"] = cfile
        if cb["term"]["t"] == "return":
            cb["stmts"].append(_assign(copy.deepcopy(t["dest"]), {"o": "move", "place": _place(lo)}))
            if t.get("target") is not None:
                cb["term"] = {"t": "goto", "target": t["target"]}
            else:
                cb["term"] = {"t": "other", "dbg": "unreachable after inlined diverging call"}
        blocks.append(cb)
    for i, a in enumerate(arg_ops):
        blocks[b]["stmts"].append(_assign(_place(lo + 1 + i), a))
    blocks[b]["term"] = {"t": "goto", "target": bo}
    blocks[b]["inlined_call"] = callee_key


def inline_body(facts, key, opaque):
    """-> (blocks, locals, [inlined callee keys]) for body `key`, or None if nothing was inlined"""
    j = facts.j["bodies"][key]
    blocks = copy.deepcopy(j["blocks"])
    locals_ = copy.deepcopy(j["locals"])
    done = []
    rewritten = 0
    guard = 0
    progress = True
    while progress and guard < 60:
        progress = False
        guard += 1
        view = None
        for b in range(len(blocks)):
            t = blocks[b]["term"]
            if t["t"] != "call" or blocks[b]["cleanup"]:
                continue
            istack = blocks[b].get("istack", ())
            if len(istack) >= MAX_DEPTH:
                continue
            ce = t["callee"]
            path = ce.get("path")
            if path is None:
                continue
            r = ce.get("resolved")
            target = r["path"] if r and r.get("local") and r["path"] in facts.j["bodies"] else (path if path in facts.j["bodies"] else None)
            if target and target != key and target not in istack and inlinable(facts, target, opaque, key):
                cj = facts.j["bodies"][target]
                if cj["arg_count"] == len(t["args"]):
                    _splice(blocks, locals_, b, cj, t["args"], istack, target)
                    done.append(target)
                    progress = True
                    break
            if path == "std::iter::Iterator::try_for_each" and len(t["args"]) == 2 and len(ce.get("args", [])) >= 3:
                # generic arguments: [Self, F, R]
                ret_ty = ce["args"][2]
                if ret_ty.startswith("std::result::Result<(),"):
                    cj = model_try_for_each(ce["args"][0], ce["args"][1], ret_ty, blocks[b].get("span"))
                    _splice(blocks, locals_, b, cj, t["args"], istack, "std-model:Iterator::try_for_each")
                    done.append("std-model:Iterator::try_for_each")
                    progress = True
                    break
            if path in CLOSURE_CALLS and len(t["args"]) == 2:
                if view is None:
                    view = Body(facts, key, dict(j, blocks=blocks, locals=locals_), ssa=False)
                f = strip(view.resolve_operand(t["args"][0]), keep_var=False)
                tup = t["args"][1]
                if f[0] == "closure" and f[1] in facts.j["bodies"] and f[1] not in istack:
                    cj = facts.j["bodies"][f[1]]
                    n = cj["arg_count"] - 1
                    ops = [t["args"][0]]
                    if tup["o"] in ("copy", "move"):
                        for i in range(n):
                            pl = copy.deepcopy(tup["place"])
                            pl["proj"] = pl["proj"] + [{"p": "field", "i": i, "name": str(i)}]
                            ops.append({"o": "copy", "place": pl})
                    elif n != 0:
                        continue
                    _splice(blocks, locals_, b, cj, ops, istack, f[1])
                    done.append(f[1])
                    progress = True
                    break
                if f[0] == "fn" and tup["o"] in ("copy", "move"):
                    # a fn item passed as the callback: call it directly with the untupled arguments
                    fpath = f[1]
                    tl = view.locals[tup["place"]["l"]]["ty"] if not tup["place"]["proj"] else None
                    n = _tuple_arity(tl)
                    if n is None:
                        continue
                    args = []
                    for i in range(n):
                        pl = copy.deepcopy(tup["place"])
                        pl["proj"] = pl["proj"] + [{"p": "field", "i": i, "name": str(i)}]
                        args.append({"o": "copy", "place": pl})
                    t["callee"] = {"path": fpath, "full": fpath, "args": [], "local": fpath in facts.j["bodies"], "resolved": None, "via_fn_item": True}
                    t["args"] = args
                    rewritten += 1
                    progress = True
                    break
    if not done and not rewritten:
        return None
    return blocks, locals_, done + ["<fn item call>"] * rewritten


def _pl(l, *proj):
    return {"l": l, "proj": list(proj), "s": "_%d" % l}


def _mv(l, *proj):
    return {"o": "move", "place": _pl(l, *proj)}


def _call(path, args, dest, target, trait=None, item=None):
    ce = {"path": path, "full": path, "args": [], "local": False, "resolved": None}
    if trait:
        ce["trait"] = trait
        ce["item"] = item
    return {"t": "call", "callee": ce, "args": args, "dest": _pl(dest), "target": target, "unwind": "continue", "model": True}


def model_try_for_each(iter_ty, clo_ty, ret_ty, span):
    """MIR model of `Iterator::try_for_each(iter, f)` for a closure returning Result<(), E> (rust-src
    core/src/iter/traits/iterator.rs: `fn call(f) -> impl FnMut((), T) -> R { move |(), x| f(x) }; self.try_fold((), call(f))`
    and try_fold's `while let Some(x) = self.next() { accum = f(accum, x)?; } try { accum }`):
        loop { match iter.next() { None => return Ok(()), Some(x) => match f(x) { Ok(()) => {}, r @ Err(_) => return r } } }"""
    L = lambda ty: {"ty": ty, "mut": True, "model": True}  # noqa: E731
    locals_ = [L(ret_ty), L(iter_ty), L(clo_ty), L("&mut " + iter_ty), L("std::option::Option<Item>"), L("isize"), L("Item"), L(ret_ty), L("isize"), L("&mut " + clo_ty), L("(Item,)"), L("()")]
    A = lambda place, rv: {"s": "assign", "place": place, "rv": rv, "line": (span or {}).get("line"), "model": True}  # noqa: E731
    B = lambda stmts, term: {"stmts": stmts, "term": term, "cleanup": False, "span": span, "model": True}  # noqa: E731
    blocks = [
        B([A(_pl(3), {"r": "ref", "bk": "mut", "place": _pl(1)})], _call("std::iter::Iterator::next", [_mv(3)], 4, 1, "std::iter::Iterator", "next")),
        B([A(_pl(5), {"r": "discr", "place": _pl(4), "ety": "std::option::Option<Item>", "enum": "std::option::Option", "variants": ["None", "Some"]})],
          {"t": "switch", "discr": _mv(5), "discr_ty": "isize", "arms": [[0, 2], [1, 3]], "otherwise": 6}),
        B([A(_pl(11), {"r": "aggregate", "ak": "tuple", "ops": []}),
           A(_pl(0), {"r": "aggregate", "ak": "adt", "path": "std::result::Result", "variant": "Ok", "variant_idx": 0, "args": [], "fields": ["0"], "ops": [_mv(11)]})], {"t": "return"}),
        B([A(_pl(6), {"r": "use", "op": _mv(4, {"p": "downcast", "name": "Some", "i": 1}, {"p": "field", "i": 0, "name": "0"})}),
           A(_pl(9), {"r": "ref", "bk": "mut", "place": _pl(2)}),
           A(_pl(10), {"r": "aggregate", "ak": "tuple", "ops": [_mv(6)]})],
          _call("std::ops::FnMut::call_mut", [_mv(9), _mv(10)], 7, 4, "std::ops::FnMut", "call_mut")),
        B([A(_pl(8), {"r": "discr", "place": _pl(7), "ety": ret_ty, "enum": "std::result::Result", "variants": ["Ok", "Err"]})],
          {"t": "switch", "discr": _mv(8), "discr_ty": "isize", "arms": [[0, 0], [1, 5]], "otherwise": 6}),
        B([A(_pl(0), {"r": "use", "op": _mv(7)})], {"t": "return"}),
        B([], {"t": "unreachable"}),
    ]
    return {"kind": "fn", "arg_count": 2, "locals": locals_, "blocks": blocks, "span": span, "debug": []}


def _tuple_arity(ty):
    if not ty or not ty.startswith("("):
        return None
    if ty == "()":
        return 0
    depth = 0
    n = 1
    inner = ty[1:-1].rstrip(",")
    if not inner.strip():
        return 0
    for ch in inner:
        if ch in "(<[":
            depth += 1
        elif ch in ")>]":
            depth -= 1
        elif ch == "," and depth == 0:
            n += 1
    return n


def inlined_facts(facts, opaque):
    """A Facts object for the equivalent program in which private helpers outside `opaque` are inlined."""
    newb = {}
    report = {}
    for k, j in facts.j["bodies"].items():
        if j["kind"] not in ("fn", "closure"):
            continue
        r = inline_body(facts, k, opaque)
        if r is None:
            continue
        blocks, locals_, done = r
        if not done:
            continue
        newb[k] = dict(j, blocks=blocks, locals=locals_)
        report[k] = done
    if not newb:
        return None, {}
    j2 = dict(facts.j)
    j2["bodies"] = dict(facts.j["bodies"])
    j2["bodies"].update(newb)
    f2 = Facts(j2, facts.path)
    f2.extract_s = getattr(facts, "extract_s", 0)
    f2.inlined = report
    return f2, report
