#!/usr/bin/env python3
"""tools/seed_verify.py <ID> [<srcdir>]  -- confirm a seeded change independently in a scratch copy of /repo:
  (1) patch applies, (2) the repository's test suite passes with it, (3) the demonstration fails with it,
  (4) the demonstration passes without it; then run all 19 checks against the patched copy.
Copies patch.diff / demo.rs / README.md into /verif/seeded/<ID>/ and writes meta.json."""
import json, os, shutil, subprocess, sys, tempfile, time
V = os.path.dirname(os.path.dirname(os.path.abspath(__file__)))
sid = sys.argv[1]
src = sys.argv[2] if len(sys.argv) > 2 else "/tmp/wt-%s/SEEDED" % sid
dst = os.path.join(V, "seeded", sid)
os.makedirs(dst, exist_ok=True)
for f in os.listdir(src):
    if os.path.isfile(os.path.join(src, f)):
        shutil.copy(os.path.join(src, f), os.path.join(dst, f))
scratch = tempfile.mkdtemp(prefix="purl-seed-")
repo = os.path.join(scratch, "repo")
env = dict(os.environ, CARGO_NET_OFFLINE="true", CARGO_TARGET_DIR=os.path.join(scratch, "target"))
res = {}
try:
    subprocess.check_call(["rsync", "-a", "--exclude", "target", "--exclude", ".git", "/repo/", repo + "/"])
    patch = os.path.join(dst, "patch.diff")
    r = subprocess.run(["patch", "-p1", "--no-backup-if-mismatch", "-i", patch], cwd=repo, capture_output=True, text=True)
    res["patch_applies"] = r.returncode == 0
    t = subprocess.run(["cargo", "test", "--workspace", "--offline", "--no-fail-fast"], cwd=repo, env=env, capture_output=True, text=True)
    res["suite_passes_with_change"] = t.returncode == 0
    res["suite_summary"] = [l for l in t.stdout.splitlines() if l.startswith("test result")][:3]
    demo = os.path.join(dst, "demo.rs")
    os.makedirs(os.path.join(repo, "purl", "tests"), exist_ok=True)
    shutil.copy(demo, os.path.join(repo, "purl", "tests", "seeded_demo.rs"))
    feats = ["--features", "serde"] if "serde" in open(demo).read() else []
    readme = os.path.join(dst, "README.md")
    if os.path.exists(readme):
        first = open(readme).readline().strip()
        if first.startswith("FAILS-WITH:"):
            feats = first[len("FAILS-WITH:"):].split()
    res["demo_flags"] = feats
    d1 = subprocess.run(["cargo", "test", "-p", "purl", "--offline", "--test", "seeded_demo"] + feats, cwd=repo, env=env, capture_output=True, text=True)
    res["demo_fails_with_change"] = d1.returncode != 0 and "test result: FAILED" in d1.stdout
    res["demo_with_change"] = [l for l in d1.stdout.splitlines() if l.startswith("test ") or l.startswith("test result")][:8]
    # checks against the patched copy
    fired = {}
    for i in range(1, 20):
        p = "C%02d" % i
        c = subprocess.run([os.path.join(V, "check"), p, "--repo", repo, "--out", os.path.join(scratch, "out")], capture_output=True, text=True)
        if c.returncode == 1:
            fired[p] = sorted(set(l.split("rule=")[1].split(" instance=")[0] + " :: " + l.split("instance=")[1].split(" site=")[0][:110] for l in c.stdout.splitlines() if l.startswith("finding:")))[:6]
        elif c.returncode != 0:
            fired[p] = ["CHECKER CRASH " + c.stderr[-200:]]
    res["checks_fired"] = fired
    subprocess.check_call(["patch", "-p1", "-R", "--no-backup-if-mismatch", "-i", patch], cwd=repo, stdout=subprocess.DEVNULL)
    d2 = subprocess.run(["cargo", "test", "-p", "purl", "--offline", "--test", "seeded_demo"] + feats, cwd=repo, env=env, capture_output=True, text=True)
    res["demo_passes_without_change"] = d2.returncode == 0
finally:
    shutil.rmtree(scratch, ignore_errors=True)
res["verified_at"] = time.strftime("%Y-%m-%dT%H:%M:%SZ", time.gmtime())
json.dump(res, open(os.path.join(dst, "verify.json"), "w"), indent=1)
print(json.dumps(res, indent=1))
