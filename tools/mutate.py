#!/usr/bin/env python3
"""Self-test helper: apply a patch to a scratch copy of /repo and run checks against it.

  tools/mutate.py <patch.diff> <Cxx>[,<Cyy>...] [--keep]

Prints, per property, the exit code and the reported findings.  The scratch copy
lives under a fresh mkdtemp directory (outside /repo and /verif) and is removed
afterwards; evidence and findings of these runs go to the scratch dir, never to
/verif/evidence.
"""
import os, shutil, subprocess, sys, tempfile, json, glob
V = os.path.dirname(os.path.dirname(os.path.abspath(__file__)))

def main():
    patch = os.path.abspath(sys.argv[1])
    props = sys.argv[2].split(",")
    keep = "--keep" in sys.argv
    scratch = tempfile.mkdtemp(prefix="purl-mut-")
    repo = os.path.join(scratch, "repo")
    try:
        subprocess.check_call(["rsync", "-a", "--exclude", "target", "--exclude", ".git", "/repo/", repo + "/"])
        r = subprocess.run(["patch", "-p1", "--no-backup-if-mismatch", "-i", patch], cwd=repo, capture_output=True, text=True)
        if r.returncode != 0:
            print("PATCH FAILED", r.stdout, r.stderr)
            return 2
        res = {}
        for p in props:
            out = os.path.join(scratch, "out")
            r = subprocess.run([os.path.join(V, "check"), p, "--repo", repo, "--out", out], capture_output=True, text=True)
            finds = [l for l in r.stdout.splitlines() if l.startswith("finding:")]
            res[p] = (r.returncode, finds)
            print("== %s exit=%d" % (p, r.returncode))
            for l in r.stdout.splitlines():
                if l.startswith("finding:") or l.startswith("   ") or "tier=" in l:
                    print("   ", l[:400])
            if r.returncode not in (0, 1):
                print(r.stdout[-2000:], r.stderr[-2000:])
        return 0
    finally:
        if not keep:
            shutil.rmtree(scratch, ignore_errors=True)

if __name__ == "__main__":
    sys.exit(main())
