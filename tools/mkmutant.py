#!/usr/bin/env python3
"""tools/mkmutant.py <name> <file> <old> <new> [<file> <old> <new> ...]  -- create mutants/<name>.diff by textual replacement
on a scratch copy of /repo (each <old> must occur exactly once)."""
import os, shutil, subprocess, sys, tempfile
name = sys.argv[1]
S = tempfile.mkdtemp(prefix="mk-")
try:
    os.makedirs(S + "/a")
    subprocess.check_call(["rsync", "-a", "--exclude", "target", "--exclude", ".git", "/repo/purl", S + "/a/"])
    shutil.copytree(S + "/a", S + "/b")
    args = sys.argv[2:]
    for i in range(0, len(args), 3):
        f, old, new = args[i:i + 3]
        old = old.encode().decode("unicode_escape"); new = new.encode().decode("unicode_escape")
        p = os.path.join(S, "b", f)
        s = open(p).read()
        assert s.count(old) == 1, (f, old, s.count(old))
        open(p, "w").write(s.replace(old, new))
    r = subprocess.run(["diff", "-ru", "a/purl/src", "b/purl/src"], cwd=S, capture_output=True, text=True)
    open(os.path.join(os.path.dirname(os.path.dirname(os.path.abspath(__file__))), "mutants", name + ".diff"), "w").write(r.stdout)
    print(r.stdout[:600])
finally:
    shutil.rmtree(S, ignore_errors=True)
