#!/usr/bin/env python3
"""debug aid: print the normalised return term / rejection rows of a function in the raw and the inlined view
usage: tools/dbgterm.py <repo> <fn-substring> [fs] [--rows] [--mir]"""
import os, sys
ROOT = os.path.dirname(os.path.dirname(os.path.abspath(__file__)))
sys.path.insert(0, os.path.join(ROOT, "engine")); sys.path.insert(0, ROOT)
from purlsa import extract as ex, inline, models
from purlsa.sem import norm, nshow
from rules.common import anchor_fns
repo, pat = sys.argv[1], sys.argv[2]
fs = sys.argv[3] if len(sys.argv) > 3 and not sys.argv[3].startswith("--") else "pt"
raw = ex.extract(fs, repo=repo)
inl, rep = inline.inlined_facts(raw, anchor_fns(raw))
for name, f in (("raw", raw), ("inline", inl or raw)):
    for k in f.bodies:
        if pat in k:
            b = f.body(k)
            print("==", name, k)
            print("   ret:", nshow(norm(b.resolve_local(0)))[:1500])
            if "--rows" in sys.argv:
                for r in models.rejections(f, k):
                    print("   ", r["kind"], r.get("error"), [models.show_canon(t)[:100] for t in r.get("triggers", [])])
            if "--mir" in sys.argv:
                for i, bl in enumerate(b.blocks):
                    if bl.get("dead") or bl["cleanup"]:
                        continue
                    print("  bb%d" % i)
                    for st in bl["stmts"]:
                        print("     ", b.show_stmt(st) if hasattr(b, "show_stmt") else st)
                    print("     ->", {kk: vv for kk, vv in bl["term"].items() if kk not in ("fn_span",)})
