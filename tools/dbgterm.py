#!/usr/bin/env python3
"""debug aid: print the normalised return term / rejection rows of a function in the raw and the inlined view
usage: tools/dbgterm.py <repo> <fn-substring> [fs] [--rows] [--mir]"""
import os, sys
ROOT = os.path.dirname(os.path.dirname(os.path.abspath(__file__)))
sys.path.insert(0, os.path.join(ROOT, "engine")); sys.path.insert(0, ROOT)
from purlsa import extract as ex, inline, models
from purlsa.sem import norm, nshow
from rules.common import anchor_fns
repo, pat = sys.argv[1], sys.argv[2]
fs = sys.argv[3] if len(sys.argv) > 3 and not sys.argv[3].startswith("--") else "pt"
raw = ex.extract(fs, repo=repo)
inl, rep = inline.inlined_facts(raw, anchor_fns(raw))
for name, f in (("raw", raw), ("inline", inl or raw)):
    for k in f.bodies:
        if pat in k:
            b = f.body(k)
            print("==", name, k)
            print("   ret:", nshow(norm(b.resolve_local(0)))[:1500])
            if "--rows" in sys.argv:
                for r in models.rejections(f, k):
                    print("   ", r["kind"], r.get("error"), [models.show_canon(t)[:100] for t in r.get("triggers", [])])
            if "--cfg" in sys.argv:
                def sp(pl):
                    return pl.get("s") or "_%d" % pl["l"]
                def so(o):
                    if not isinstance(o, dict): return str(o)
                    if o.get("o") in ("copy", "move"): return ("mv " if o["o"] == "move" else "") + sp(o["place"])
                    if o.get("o") == "const":
                        c = o["c"]; v = c.get("v", {})
                        return "const %s" % (v.get("v", v.get("s", c.get("path", v.get("k", "?")))) if isinstance(v, dict) else v)
                    return str(o)[:60]
                def srv(rv):
                    r = rv["r"]
                    if r == "use": return so(rv["op"])
                    if r == "ref": return "&%s%s" % ("mut " if rv.get("bk") == "mut" else "", sp(rv["place"]))
                    if r == "aggregate": return "%s%s(%s)" % (rv.get("path", rv.get("ak")), "::" + str(rv.get("variant")) if rv.get("variant") else "", ", ".join(so(x) for x in rv.get("ops", [])))
                    if r == "discr": return "discr(%s)" % sp(rv["place"])
                    if r in ("binop", "checked_binop"): return "%s %s %s" % (so(rv["a"]) if "a" in rv else so(rv["ops"][0]), rv.get("op"), so(rv["b"]) if "b" in rv else so(rv["ops"][1]))
                    return r + " " + " ".join("%s=%s" % (kk, so(vv) if isinstance(vv, dict) and "o" in vv else (sp(vv) if isinstance(vv, dict) and "l" in vv else str(vv)[:40])) for kk, vv in rv.items() if kk != "r")
                for i, bl in enumerate(b.blocks):
                    if bl.get("dead") or bl["cleanup"]:
                        continue
                    print("  bb%d:" % i)
                    for st in bl["stmts"]:
                        if st.get("s") == "assign":
                            print("      %s = %s   [%s]" % (sp(st["place"]), srv(st["rv"])[:150], st.get("line")))
                        else:
                            print("      %s" % str({kk: vv for kk, vv in st.items()})[:120])
                    t = bl["term"]
                    if t["t"] == "call":
                        print("      %s = CALL %s(%s) -> bb%s" % (sp(t["dest"]), t["callee"].get("path") or t["callee"].get("full") or t["callee"], ", ".join(so(a) for a in t["args"]), t.get("target")))
                    elif t["t"] == "switch":
                        print("      SWITCH %s %s" % (so(t.get("discr", t.get("op", ""))), t.get("targets")))
                    else:
                        print("      %s" % {kk: (sp(vv) if isinstance(vv, dict) and "l" in vv else vv) for kk, vv in t.items() if kk not in ("fn_span", "unwind")})
            if "--mir" in sys.argv:
                for i, bl in enumerate(b.blocks):
                    if bl.get("dead") or bl["cleanup"]:
                        continue
                    print("  bb%d" % i)
                    for st in bl["stmts"]:
                        print("     ", b.show_stmt(st) if hasattr(b, "show_stmt") else st)
                    print("     ->", {kk: vv for kk, vv in bl["term"].items() if kk not in ("fn_span",)})
