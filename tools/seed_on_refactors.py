#!/usr/bin/env python3
"""tools/seed_on_refactors.py -- 40 random (seeded change + 2..3 silent refactorings) combinations applied to scratch copies of
/repo: the check of the seed's target property must still report it.  Prints one line per combination."""
import json, random, subprocess, os, tempfile, shutil, glob, concurrent.futures
random.seed(23)
V="/verif"
e=json.load(open(V+"/mutants/expect.json"))
ALL=["C%02d"%i for i in range(1,20)]
silent=[k for k,v in e.items() if not k.startswith("_") and isinstance(v,dict) and not v.get("fire") and sorted(v.get("silent",[]))==ALL and not k.startswith("combo")]
seeds=sorted(os.path.basename(os.path.dirname(m)) for m in glob.glob(V+"/seeded/*/meta.json"))
jobs=[]
tries=0
while len(jobs)<40 and tries<2000:
    tries+=1
    sd=random.choice(seeds); rfs=random.sample(silent,3)
    scratch=tempfile.mkdtemp(prefix="sc-")
    subprocess.check_call(["rsync","-a","--exclude","target","--exclude",".git","/repo/",scratch+"/repo/"])
    ok=subprocess.run(["patch","-p1","-s","--no-backup-if-mismatch","-F0","-i",V+"/seeded/%s/patch.diff"%sd],cwd=scratch+"/repo",capture_output=True).returncode==0
    applied=[]
    if ok:
        for p in rfs:
            if subprocess.run(["patch","-p1","-s","--no-backup-if-mismatch","-F0","--dry-run","-i",V+"/mutants/"+p],cwd=scratch+"/repo",capture_output=True).returncode==0:
                subprocess.run(["patch","-p1","-s","--no-backup-if-mismatch","-F0","-i",V+"/mutants/"+p],cwd=scratch+"/repo",capture_output=True)
                applied.append(p)
    if not ok or len(applied)<2:
        shutil.rmtree(scratch,ignore_errors=True); continue
    env=dict(os.environ,CARGO_NET_OFFLINE="true",CARGO_TARGET_DIR=V+"/.cache/target-survey-1")
    if subprocess.run(["cargo","check","--workspace","--offline","--all-targets"],cwd=scratch+"/repo",env=env,capture_output=True).returncode!=0:
        shutil.rmtree(scratch,ignore_errors=True); continue
    jobs.append((sd,applied,scratch))
def run(j):
    sd,applied,scratch=j
    m=json.load(open(V+"/seeded/%s/meta.json"%sd)); prop=m["breaks_property"]
    r=subprocess.run([V+"/check",prop,"--repo",scratch+"/repo","--out",scratch+"/out"],capture_output=True,text=True)
    rules=sorted(set(l.split("rule=")[1].split(" ")[0] for l in r.stdout.splitlines() if l.startswith("finding:")))
    shutil.rmtree(scratch,ignore_errors=True)
    return sd,prop,applied,r.returncode,rules
with concurrent.futures.ThreadPoolExecutor(4) as ex:
    for sd,prop,applied,rc,rules in ex.map(run,jobs):
        print("%-5s %s %-6s %s  + %s" % (sd,prop,"CAUGHT" if rc==1 else "MISSED" if rc==0 else "CRASH",",".join(rules)," ".join(applied)),flush=True)
