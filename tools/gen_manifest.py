#!/usr/bin/env python3
"""Regenerate MANIFEST.json from the rule packs' MANIFEST metadata."""
import importlib, json, os, sys
V = os.path.dirname(os.path.dirname(os.path.abspath(__file__)))
sys.path.insert(0, os.path.join(V, "engine")); sys.path.insert(0, V)
ids = [json.loads(l)["id"] for l in open(os.path.join(V, "properties.jsonl"))]
checks = []; na = []
NA_REASONS = {}
for i in ids:
    p = os.path.join(V, "rules", i + ".py")
    if not os.path.exists(p):
        na.append({"property_id": i, "reason": NA_REASONS.get(i, "check under construction in this round (static analysis per DESIGN.md); not yet claimed")})
        continue
    m = importlib.import_module("rules." + i)
    meta = getattr(m, "MANIFEST", {})
    checks.append({
        "property_id": i,
        "quick_cmd": "./check %s --tier quick" % i,
        "thorough_cmd": "./check %s --tier thorough" % i,
        "evidence_file": "evidence/%s.json" % i,
        "replay_cmd_template": "./check %s --replay {path}" % i,
        "engine": "purlsa",
        "level_claimed": {"category": m.LEVEL, "text": meta.get("text", m.EXPLANATION), "design_ref": meta.get("design_ref", "DESIGN.md section 5")},
        "level_note": meta.get("note", "; ".join(m.ASSUMPTIONS)),
        "technique": meta.get("technique", "static analysis over rustc MIR/HIR facts"),
    })
man = {
    "version": 1,
    "setup_cmd": "./setup.sh",
    "hooks": {"guard": "purl_verif", "enable": "none needed: the analysis reads unmodified sources (the guard name is reserved, unused)", "baseline_off_cmd": "cd /repo && cargo test --workspace --no-fail-fast --offline", "source_commits": [], "add_only": True},
    "engines": [
        {"name": "purl-mir", "path": "engine/driver", "serves_properties": [c["property_id"] for c in checks], "kind_free_text": "rustc_private driver (nightly) injected with RUSTC_WORKSPACE_WRAPPER under cargo check: dumps MIR bodies, resolved callees, compile-time evaluated constants and HIR facts of /repo's working tree as JSON"},
        {"name": "purlsa", "path": "engine/purlsa", "serves_properties": [c["property_id"] for c in checks], "kind_free_text": "python static-analysis library over those facts: CFG, dominators, origin resolution, guard extraction, boolean/char-class summaries, models (formatter, parser, builder, qualifier map, checksum, type tables), rule packs under rules/"},
    ],
    "checks": checks,
    "notes": "Static analysis only (DESIGN.md). Every check re-extracts the facts from /repo's current working tree on every run; nothing of purl is executed. Known findings: known_findings.txt.",
    "not_applicable": na,
}
json.dump(man, open(os.path.join(V, "MANIFEST.json"), "w"), indent=1)
print("checks:", len(checks), "not_applicable:", len(na))
