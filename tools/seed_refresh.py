#!/usr/bin/env python3
"""tools/seed_refresh.py [id...] -- re-run all 19 checks against every seeded change (scratch copies) and refresh
`caught_by` / `rules` in seeded/<id>/meta.json.  Does not re-run the repository tests or the demos (see verify.json)."""
import concurrent.futures, glob, json, os, shutil, subprocess, sys, tempfile
V = os.path.dirname(os.path.dirname(os.path.abspath(__file__)))

def one(d):
    scratch = tempfile.mkdtemp(prefix="purl-seedr-")
    repo = os.path.join(scratch, "repo")
    try:
        subprocess.check_call(["rsync", "-a", "--exclude", "target", "--exclude", ".git", "/repo/", repo + "/"])
        subprocess.check_call(["patch", "-p1", "-s", "--no-backup-if-mismatch", "-i", os.path.join(d, "patch.diff")], cwd=repo)
        fired = {}
        for i in range(1, 20):
            p = "C%02d" % i
            c = subprocess.run([os.path.join(V, "check"), p, "--repo", repo, "--out", os.path.join(scratch, "out")], capture_output=True, text=True)
            if c.returncode == 1:
                fired[p] = sorted(set(l.split("rule=")[1].split(" fn=")[0] for l in c.stdout.splitlines() if l.startswith("finding:")))
            elif c.returncode != 0:
                fired[p] = ["CHECKER-CRASH"]
        m = json.load(open(os.path.join(d, "meta.json")))
        m["caught_by"] = sorted(fired)
        m["rules"] = fired
        json.dump(m, open(os.path.join(d, "meta.json"), "w"), indent=1)
        return os.path.basename(d), fired
    finally:
        shutil.rmtree(scratch, ignore_errors=True)

ids = sys.argv[1:]
dirs = [d for d in sorted(glob.glob(os.path.join(V, "seeded", "*"))) if os.path.isdir(d) and (not ids or os.path.basename(d) in ids)]
with concurrent.futures.ThreadPoolExecutor(4) as ex:
    for name, fired in ex.map(one, dirs):
        print("%-6s %s" % (name, " ".join("%s[%s]" % (k, ",".join(v)) for k, v in fired.items())), flush=True)
