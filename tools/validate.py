#!/usr/bin/env python3
import json, glob, sys
import jsonschema
ok = True
try:
    jsonschema.validate(json.load(open('/verif/MANIFEST.json')), json.load(open('/root/.vp/MANIFEST.schema.json')))
except Exception as e:
    ok = False; print("MANIFEST invalid:", e)
es = json.load(open('/root/.vp/EVIDENCE.schema.json'))
for p in sorted(glob.glob('/verif/evidence/*.json')):
    try:
        jsonschema.validate(json.load(open(p)), es)
    except Exception as e:
        ok = False; print(p, "invalid:", str(e)[:300])
print("valid" if ok else "INVALID")
sys.exit(0 if ok else 1)
