#!/usr/bin/env python3
"""tools/seed_table.py <id>... -- markdown rows (id | needs | caught by) for DESIGN.md section 11, from seeded/<id>/meta.json"""
import json, os, sys
V = os.path.dirname(os.path.dirname(os.path.abspath(__file__)))
for sid in sys.argv[1:]:
    m = json.load(open(os.path.join(V, "seeded", sid, "meta.json")))
    caught = "; ".join("%s[%s]" % (c, ",".join(m["rules"].get(c, []))) for c in m["caught_by"])
    print("| %s | %s | %s |" % (sid, m["needs_to_manifest"].replace("|", "\\|"), caught))
