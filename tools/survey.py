#!/usr/bin/env python3
"""tools/survey.py <patch>... : for each patch: does it compile + pass the repo's tests? which of the 19 checks fire?"""
import concurrent.futures, os, shutil, subprocess, sys, tempfile, json
V = os.path.dirname(os.path.dirname(os.path.abspath(__file__)))
PROPS = ["C%02d" % i for i in range(1, 20)]

def one(patch):
    scratch = tempfile.mkdtemp(prefix="purl-survey-")
    repo = os.path.join(scratch, "repo")
    try:
        subprocess.check_call(["rsync", "-a", "--exclude", "target", "--exclude", ".git", "/repo/", repo + "/"])
        r = subprocess.run(["patch", "-p1", "--no-backup-if-mismatch", "-i", os.path.abspath(patch)], cwd=repo, capture_output=True, text=True)
        if r.returncode != 0:
            return patch, "PATCH-FAILED", [], {}
        env = dict(os.environ, CARGO_NET_OFFLINE="true", CARGO_TARGET_DIR=os.path.join(V, ".cache", "target-survey-%d" % (hash(patch) % 4)))
        t = subprocess.run(["cargo", "test", "--workspace", "--offline", "--no-fail-fast"], cwd=repo, env=env, capture_output=True, text=True)
        tests = "tests-pass" if t.returncode == 0 else ("compile-error" if "error[" in t.stderr or "could not compile" in t.stderr else "tests-fail")
        fired = []
        rules = {}
        for p in PROPS:
            r = subprocess.run([os.path.join(V, "check"), p, "--repo", repo, "--out", os.path.join(scratch, "out")], capture_output=True, text=True)
            if r.returncode == 1:
                fired.append(p)
                rules[p] = sorted(set(l.split("rule=")[1].split(" ")[0] for l in r.stdout.splitlines() if l.startswith("finding:")))
            elif r.returncode != 0:
                fired.append(p + "!CRASH")
        return patch, tests, fired, rules
    finally:
        shutil.rmtree(scratch, ignore_errors=True)

with concurrent.futures.ThreadPoolExecutor(4) as ex:
    for patch, tests, fired, rules in ex.map(one, sys.argv[1:]):
        print("%-45s %-14s %s" % (os.path.basename(patch), tests, " ".join("%s[%s]" % (p, ",".join(rules.get(p, []))) for p in fired)), flush=True)
